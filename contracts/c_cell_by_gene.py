"""cell_type_mapper.cell_by_gene.utils  (C02.f, C06.b, C07.b)

`convert_to_cpm`: out[i, j] = 10^6 * x[i, j] / rowsum_i, the denominator replaced by 1 when the
row sum is not positive.  Proved pointwise over the row-sum fold (pyvc/ext/election.py); the
scale invariance of C07.b (a relation between two runs) is checked natively as a bounded view.
"""
from pyvc.contracts import contract
import pyvc.ext.election as _ext

_ext.install()

M = 'cell_type_mapper.cell_by_gene.utils.'


def _gen_cpm(rng, size):
    import numpy as np
    n, g = rng.randint(0, size), rng.randint(1, size + 1)
    rows = []
    for _ in range(n):
        kind = rng.random()
        if kind < 0.25:
            rows.append([0.0] * g)                                   # empty cell: denominator 1
        else:
            rows.append([float(rng.choice([0, 0, 1, 2, 7, 1000])) for _ in range(g)])
    arr = np.array(rows, dtype=float).reshape(n, g)
    kind = rng.random()
    if kind < 0.35 and n > 0:
        # raw counts in a narrow unsigned type whose row total does not fit that type
        dt = rng.choice([np.uint8, np.uint16])
        top = int(np.iinfo(dt).max)
        arr = np.array([[rng.choice([0, 1, top, top - 1, top // 2 + 1]) for _ in range(g)] for _ in range(n)],
                       dtype=dt).reshape(n, g)
        if g >= 2:
            arr[0, 0], arr[0, 1] = top, top              # row total > max of the dtype
    elif kind < 0.45:
        arr = arr.astype(np.int32)
    return dict(data=arr)


contract(
    M + 'convert_to_cpm',
    properties=['C02', 'C06', 'C07'],
    native=dict(gen=_gen_cpm),
    params=dict(data='Arr2[Real]'),
    returns='Arr2[Real]',
    ensures=[
        "result.shape[0] == data.shape[0] and result.shape[1] == data.shape[1]",
        # C02.f; C06.b: row i of the result is a function of row i of the input only
        "all(close(result[i, j], 1000000.0 * data[i, j] / (rowsum(data, i) if rowsum(data, i) > 0 else 1.0)) "
        "for i in range(data.shape[0]) for j in range(data.shape[1]))",
        "all(data[i, j] == old(data)[i, j] for i in range(data.shape[0]) for j in range(data.shape[1]))",
    ],
)


def _gen_scale(rng, size):
    g = _gen_cpm(rng, size)
    import numpy as np
    n = g['data'].shape[0]
    g['scale'] = np.array([rng.choice([0.5, 2.0, 3.0, 10.0, 1e-3, 12345.0]) for _ in range(n)], dtype=float)
    return g


def _cpm_pair(data, scale):
    from cell_type_mapper.cell_by_gene.utils import convert_to_cpm
    import numpy as np
    return convert_to_cpm(np.array(data)), convert_to_cpm((np.array(data).T * scale).T)


contract(
    M + 'convert_to_cpm#scale',
    properties=['C07'], mode='bounded',
    native=dict(call=_cpm_pair, gen=_gen_scale,
                bound='seeded random: <= 4 cells x <= 5 genes, per-cell positive factors, empty cells included'),
    params=dict(data='Arr2[Real]', scale='Arr[Real]'),
    returns='Tuple[Arr2[Real],Arr2[Real]]',
    requires=["all(scale[i] > 0 for i in range(len(scale)))"],
    ensures=[
        # C07.b: multiplying a raw cell by a positive constant does not change its CPM values
        "all(abs(result[0][i, j] - result[1][i, j]) <= 1e-9 * (1 + abs(result[0][i, j])) "
        "for i in range(data.shape[0]) for j in range(data.shape[1]))",
    ],
    note="relation between two runs of convert_to_cpm (C07.b): bounded stand-in",
)
