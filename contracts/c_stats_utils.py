"""cell_type_mapper.utils.stats_utils.summary_stats_for_chunk  (C09.c)   -- BOUNDED, not proved

The body is six numpy reductions over a 2-D array (`data.sum(axis=0)`, `(data > t).sum(axis=0)`);
a deductive contract would restate each reduction with the same uninterpreted fold symbol it is
computed with, so it is registered as `mode='bounded'`: the clauses below are the *definitions* of
the statistics (plain Python sums over the rows) and are executed on the real function for
generated matrices that sit on the thresholds.

Finding S-5 (kept as a strong clause, it FAILS natively on the unchanged tree): `ge1` is defined
by the property as "cells with CPM >= 1", i.e. log2(CPM+1) >= 1; the code counts
log2(CPM+1) > 1 - 1e-6, so a cell with CPM in (0.9999986, 1) is counted as ">= 1 CPM"
(e.g. one count in a cell of 1 000 001 counts).
"""
import math

from pyvc.contracts import contract

M = 'cell_type_mapper.utils.stats_utils.'

BOUNDARY = [0.0, 1.0, 1.0 - 1e-7, 1.0 - 1e-6, 1.0 - 2e-6, 1.0 + 1e-9, 0.5, 2.25,
            math.log2(1.0 + 0.999999), math.log2(1.0 + 1.0000001), 1e-300, 13.0]


def _gen_summary(rng, size):
    import numpy as np
    from cell_type_mapper.cell_by_gene.cell_by_gene import CellByGeneMatrix as _CBG

    class CellByGeneMatrix(_CBG):           # replayable repr for the failure records
        def __repr__(self):
            return (f"CellByGeneMatrix(data=np.array({self.data.tolist()!r}).reshape({self.data.shape}), "
                    f"gene_identifiers={list(self.gene_identifiers)!r}, normalization='log2CPM')")
    n_cells = rng.randint(0, size + 1)
    n_genes = rng.randint(1, 3)
    data = np.array([[rng.choice(BOUNDARY) if rng.random() < 0.8 else rng.uniform(0.0, 3.0)
                      for _ in range(n_genes)] for _ in range(n_cells)], dtype=float).reshape(n_cells, n_genes)
    return dict(cell_x_gene=CellByGeneMatrix(
        data=data, gene_identifiers=[f"g{i}" for i in range(n_genes)], normalization='log2CPM'))


def _col(m, j):
    return [float(m.data[i, j]) for i in range(m.data.shape[0])]


ENV = dict(col=_col, fsum=math.fsum, set=set, len=len, range=range,
           close=lambda a, b: abs(a - b) <= 1e-6 * max(1.0, abs(b)))

contract(
    M + 'summary_stats_for_chunk#ge1_strict',
    properties=['C09'],
    mode='bounded',
    params=dict(cell_x_gene='Opaque'),
    requires=["cell_x_gene.normalization == 'log2CPM'"],
    ensures=[
        # S-5: strong clause of the property ("at least 1 CPM" <=> log2(CPM+1) >= 1); the code
        # counts log2(CPM+1) > 1 - 1e-6.  FAILS natively: finding S-5
        "all(result['ge1'][j] == len([x for x in col(cell_x_gene, j) if x >= 1.0]) "
        "for j in range(cell_x_gene.data.shape[1]))",
    ],
    native=dict(gen=_gen_summary,
                bound='matrices <= 5 cells x 3 genes with entries on / next to the thresholds 0, 1, 1-1e-6',
                env=ENV),
)

contract(
    M + 'summary_stats_for_chunk',
    properties=['C09'],
    mode='bounded',
    params=dict(cell_x_gene='Opaque'),
    requires=["cell_x_gene.normalization == 'log2CPM'"],
    ensures=[
        "result['n_cells'] == cell_x_gene.data.shape[0]",
        "set(result.keys()) == {'n_cells', 'sum', 'sumsq', 'gt0', 'gt1', 'ge1'}",
        "all(len(result[k]) == cell_x_gene.data.shape[1] for k in ('sum', 'sumsq', 'gt0', 'gt1', 'ge1'))",
        # sums to rounding (1e-6 relative), counts exactly; thresholds in log2(CPM+1) space:
        # CPM > 0 <=> x > 0, CPM > 1 <=> x > 1, CPM >= 1 <=> x >= 1
        "all(close(result['sum'][j], fsum(col(cell_x_gene, j))) for j in range(cell_x_gene.data.shape[1]))",
        "all(close(result['sumsq'][j], fsum([x * x for x in col(cell_x_gene, j)])) "
        "for j in range(cell_x_gene.data.shape[1]))",
        "all(result['gt0'][j] == len([x for x in col(cell_x_gene, j) if x > 0.0]) "
        "for j in range(cell_x_gene.data.shape[1]))",
        "all(result['gt1'][j] == len([x for x in col(cell_x_gene, j) if x > 1.0]) "
        "for j in range(cell_x_gene.data.shape[1]))",
        # what the code does guarantee: ge1 is between the strict count and the tolerant count
        "all(len([x for x in col(cell_x_gene, j) if x >= 1.0]) <= result['ge1'][j] and "
        "result['ge1'][j] <= len([x for x in col(cell_x_gene, j) if x > 1.0 - 1.0e-6]) "
        "for j in range(cell_x_gene.data.shape[1]))",
    ],
    raises={'RuntimeError': "cell_x_gene.normalization != 'log2CPM'"},
    native=dict(gen=_gen_summary, weight=2,
                bound='matrices <= 5 cells x 3 genes with entries on / next to the thresholds 0, 1, 1-1e-6',
                env=ENV),
)
