"""cell_type_mapper.type_assignment.marker_cache_v2  (C08.a-d, C04.g, C07.c, C17.c)

The taxonomy is seen through the caller-side record `MCTree` (pyvc/ext/marker_cache.py): the
properties `hierarchy` / `all_parents` as fields, `children` / `parents` as trusted functions whose
only assumed facts are `wf_mctree(tree)` (checked natively on every generated tree; the tree
functions themselves are proved in c_taxonomy_*.py).
"""
from pyvc.contracts import contract
import pyvc.ext.marker_cache  # noqa: F401  (records MCTree / MCLog, spec functions)

M = 'cell_type_mapper.type_assignment.marker_cache_v2.'

A_GRP = ("A-GRP: no level name of the taxonomy contains '/', so that the group key "
         "'{level}/{node}' determines level and node")

VALID_TREE = [
    "wf_mctree(taxonomy_tree)",
    # A-GRP: '{level}/{node}' is unambiguous (no level name contains '/'); see the report
    "grp_unambiguous(taxonomy_tree)",
]


# ---- native generators: real TaxonomyTree objects, small gene universe, boundary cases -----------
GENES = ['g0', 'g1', 'g2', 'g3', 'g4', 'g5']


def _sweep_stale_scratch(max_age_s=3600):
    """the native generators write small HDF5 files named mc_native_* into the temp directory
    (a handful per process, overwritten cyclically); remove the ones left by earlier runs"""
    import glob
    import os
    import shutil
    import tempfile
    import time
    now = time.time()
    for pth in glob.glob(os.path.join(tempfile.gettempdir(), 'mc_native_*')):
        try:
            if now - os.path.getmtime(pth) > max_age_s:
                shutil.rmtree(pth) if os.path.isdir(pth) else os.remove(pth)
        except OSError:
            pass


_sweep_stale_scratch()


def _remove_own_scratch():
    import glob
    import os
    import tempfile
    for pth in glob.glob(os.path.join(tempfile.gettempdir(), f'mc_native_*_{os.getpid()}_*')):
        try:
            os.remove(pth)
        except OSError:
            pass


import atexit as _atexit      # noqa: E402
_atexit.register(_remove_own_scratch)


def _quiet(qualname):
    """the real function, with its (expected) warnings silenced"""
    def call(**kw):
        import warnings
        from pyvc import native
        with warnings.catch_warnings():
            warnings.simplefilter('ignore')
            return native.resolve(qualname)(**kw)
    return call


def make_tree(shape, level_names=None):
    """shape: nested lists describing the children counts per level, e.g. [[2, 1], [1]] = root with
    two top-level nodes; the first has two children with 2 and 1 leaves ...  Simplified here to a
    list of per-level parent assignments: shape[k][i] = index of the parent (at level k-1) of the
    i-th node of level k (level 0 nodes hang off the root)."""
    from cell_type_mapper.taxonomy.taxonomy_tree import TaxonomyTree
    n_levels = len(shape)
    level_names = level_names or ['class', 'subclass', 'cluster', 'leaf'][:n_levels]
    if n_levels == 1:
        level_names = [level_names[-1]] if len(level_names) == 1 else ['cluster']
    names = [[f"{level_names[k][0]}{k}_{i}" for i in range(len(shape[k]))] for k in range(n_levels)]
    data = {'hierarchy': list(level_names)}
    for k in range(n_levels - 1):
        data[level_names[k]] = {names[k][i]: [names[k + 1][j] for j in range(len(shape[k + 1]))
                                              if shape[k + 1][j] == i]
                                for i in range(len(shape[k]))}
    data[level_names[-1]] = {names[-1][i]: [i] for i in range(len(shape[-1]))}
    return TaxonomyTree(data=data)


def random_shape(rng, n_levels, max_width=3):
    """a valid shape: every node of level k < last has at least one child"""
    shape = [[0] * rng.randint(1, max_width)]
    for k in range(1, n_levels):
        n_par = len(shape[-1])
        kids = list(range(n_par)) + [rng.randrange(n_par) for _ in range(rng.randint(0, max_width))]
        kids.sort()
        shape.append(kids)
    return shape


def random_table(rng, tree, genes, p_missing=0.25):
    table = {}
    for parent in tree.all_parents:
        if rng.random() < p_missing:
            continue
        k = 'None' if parent is None else f'{parent[0]}/{parent[1]}'
        table[k] = [rng.choice(genes) for _ in range(rng.choice([0, 0, 1, 1, 2, 3, 4]))]
    if rng.random() < 0.3:        # a group that is not a parent of the tree (e.g. a dropped level)
        table['gone/x'] = [rng.choice(genes)]
    return table


def _gen_validate(rng, size):
    n_levels = rng.choice([1, 2, 2, 3, 3, 4])
    tree = make_tree(random_shape(rng, n_levels))
    genes = GENES[:rng.randint(2, len(GENES))]
    query = [g for g in genes if rng.random() < 0.6] + (['q_only'] if rng.random() < 0.5 else [])
    rng.shuffle(query)
    return dict(marker_lookup=random_table(rng, tree, genes + ['ref_only']), query_gene_names=query,
                taxonomy_tree=tree, log=None, min_markers=rng.choice([1, 1, 2, 2, 3, 5, 0, -1]))


def _enum_validate(size):
    """small-scope exhaustive: every tree shape with <= 3 levels and <= 2 nodes per parent level,
    <= 3 genes, every assignment of a list in {absent, [], [g0], [g1], [g0, g1], [g2]} to at most 4
    groups (more groups: sampled by the random generator), every subset of the genes as the
    query, min_markers in {1, 2}"""
    import itertools
    shapes = [[[0]], [[0, 0]], [[0], [0, 0]], [[0, 0], [0, 0, 1]], [[0, 0], [0, 1, 1]],
              [[0], [0, 0], [0, 0, 1]], [[0, 0], [0, 1], [0, 0, 1, 1]], [[0], [0, 0], [0, 1, 1]]]
    lists = [None, [], ['g0'], ['g1'], ['g0', 'g1'], ['g2']]
    genes = ['g0', 'g1', 'g2']
    for shape in shapes:
        tree = make_tree(shape)
        keys = ['None' if p is None else f'{p[0]}/{p[1]}' for p in tree.all_parents]
        consulted = [k for k, p in zip(keys, tree.all_parents)
                     if len(tree.children(None if p is None else p[0], None if p is None else p[1])) > 1]
        if len(consulted) > 4:
            consulted = consulted[:4]
        for choice in itertools.product(lists, repeat=len(consulted)):
            table = {k: list(v) for k, v in zip(consulted, choice) if v is not None}
            for r in range(len(genes) + 1):
                for q in itertools.combinations(genes, r):
                    for mm in (1, 2):
                        yield dict(marker_lookup=dict(table), query_gene_names=list(q),
                                   taxonomy_tree=tree, log=None, min_markers=mm)


# ---- vocabulary of the validate_marker_lookup clauses -------------------------------------------
def multi(p):
    """p (a non-root entry of all_parents) has more than one child"""
    return f"len(taxonomy_tree.children({p}[0], {p}[1])) > 1"


def key(p):
    return f"grp({p}[0], {p}[1])"


ROOT_MULTI = "len(taxonomy_tree.children(None, None)) > 1"
AP = "taxonomy_tree.all_parents"


def anc(p):
    return f"taxonomy_tree.parents({p}[0], {p}[1])"


def root_bad(ML0, Q):
    """the root has several children and is missing / empty / without overlap with the query"""
    return f"({ROOT_MULTI} and ('None' not in {ML0} or ncommon({ML0}['None'], {Q}) == 0))"


def no_usable(p, ML0, Q):
    """parent p ends with no usable gene: neither its own list, nor the list of any ancestor, nor
    the root's list has a gene of the query (the effective minimum is >= 1, so the fallback only stops early
    when it has found one)"""
    akey = f"grp(L, {anc(p)}[L])"
    return (f"(({key(p)} not in {ML0} or ncommon({ML0}[{key(p)}], {Q}) == 0) "
            f"and all(ncommon({ML0}[{akey}], {Q}) == 0 "
            f"for L in taxonomy_tree.hierarchy if L in {anc(p)} and {akey} in {ML0}) "
            f"and ('None' not in {ML0} or ncommon({ML0}['None'], {Q}) == 0))")


def bad(p, ML0, Q):
    return (f"(({p} is None and {root_bad(ML0, Q)}) or "
            f"({p} is not None and {multi(p)} and {no_usable(p, ML0, Q)}))")


def fallback(p, ML0, QS, R, own, at=None, mm='min_markers'):
    """the fallback rule (DESIGN A.3) for a consulted parent p whose own markers `own` (a set)
    do not reach the minimum: ML0 = input table, QS = set of query genes, R = the returned list.
    pool(i) = own + lists of the table-listed ancestors at level index >= i (nearest first)."""
    def pool(i):
        return f"pool(taxonomy_tree, {ML0}, {p}[0], {p}[1], {own}, {i})"

    def ncard(x):
        return f"len({QS}.intersection({x}))"
    lp = f"lidx(taxonomy_tree, {p}[0])"
    patched = (f"(any(L in {anc(p)} and grp(L, {anc(p)}[L]) in {ML0} for L in taxonomy_tree.hierarchy) "
               f"or 'None' in {ML0})")

    def body(i, i2='i2'):
        root_used = f"({ncard(pool(i))} < {mm} and 'None' in {ML0})"
        in_final = f"(g in {pool(i)} or ({root_used} and g in {ML0}['None']))"
        return (
            # i = the level index at which the search stopped: the first one (from the parent
            # upwards) at which the pool reaches the minimum, or the top of the tree
            f"(({i}) == 0 or {ncard(pool(i))} >= {mm}) and "
            f"all({ncard(pool(i2))} < {mm} for {i2} in range(({i}) + 1, {lp} + 1)) and "
            # the list holds exactly the query genes of that pool (plus the root's if still short)
            f"all(g in {QS} and {in_final} for g in {R}) and "
            f"all(implies({in_final}, g in {R}) for g in {QS})")
    if at is not None:
        return patched, f"(0 <= ({at}) <= {lp} and {body(at)})"
    stop = f"any({body('i')} for i in range(0, {lp} + 1))"
    return patched, stop


def ensures_validate(ML0, Q, R, mm):
    """clauses over the input table ML0, the query gene list Q and the returned table R
    (quantifier filters `for .. if ..` keep the clauses executable on the real objects)"""
    consulted = f"(p is not None and {multi('p')})"      # the parents whose list may be patched
    enough = f"({key('p')} in {ML0} and ncommon({ML0}[{key('p')}], {Q}) >= {mm})"
    return [
        # the input table is not modified; every group of the input is still there
        f"all(k in {R} for k in {ML0})",
        # groups that are not consulted (not a parent of this tree, single-child parents, the
        # root) are returned as they are, and nothing else is added
        f"all(k in {ML0} and mc_same({R}[k], {ML0}[k]) for k in {R} "
        f"if all(k != {key('p')} for p in {AP} if {consulted}))",
        # every parent with more than one child has a group ...
        f"all({key('p')} in {R} for p in {AP} if {consulted})",
        # ... which is the listed one, untouched, when enough of its markers are in the query
        f"all(mc_same({R}[{key('p')}], {ML0}[{key('p')}]) for p in {AP} if {consulted} and {enough})",
    ] + fallback_clauses('p', f'for p in {AP}', consulted, ML0, Q, f'set({Q})', R, mm) + [
        # on a normal return every parent at which a choice is made ends with a usable gene
        f"all(ncommon({R}[{key('p')}], {Q}) >= 1 for p in {AP} if {consulted})",
        f"implies({ROOT_MULTI}, 'None' in {R} and ncommon({R}['None'], {Q}) >= 1)",
        # no marker is invented: every gene returned is listed somewhere in the input table
        f"all(listed({ML0}, g) for k in {R} for g in {R}[k])",
    ]


def fallback_clauses(p, binder, consulted, ML0, Q, QS, R, mm='min_markers'):
    not_enough = f"not ({key(p)} in {ML0} and ncommon({ML0}[{key(p)}], {Q}) >= {mm})"
    own = f"(set({ML0}[{key(p)}]) if {key(p)} in {ML0} else set())"
    patched = (f"(any(L in {anc(p)} and grp(L, {anc(p)}[L]) in {ML0} for L in taxonomy_tree.hierarchy) "
               f"or 'None' in {ML0})")
    return [
        # ... otherwise: own + ancestors nearest first + finally the root, restricted to the query,
        # stopping as soon as the minimum is reached (sorted, duplicate free): fallback_ok is
        # FALLBACK_DEF in pyvc/ext/marker_cache.py
        f"all(fallback_ok(taxonomy_tree, {ML0}, {QS}, {mm}, {p}[0], {p}[1], {own}, {R}[{key(p)}]) "
        f"{binder} if {consulted} and {not_enough} and {patched})",
        # ... or left as it is when there is nothing to add (no ancestor and no root in the table)
        f"all((mc_same({R}[{key(p)}], {ML0}[{key(p)}]) if {key(p)} in {ML0} else len({R}[{key(p)}]) == 0) "
        f"{binder} if {consulted} and {not_enough} and not {patched})",
    ]


contract(
    M + 'validate_marker_lookup',
    properties=['C08', 'C17'],
    params=dict(marker_lookup='Dict[Name,List[Name]]', query_gene_names='List[Name]',
                taxonomy_tree='MCTree', log='Opt[MCLog]', min_markers='Int'),
    returns='Dict[Name,List[Name]]',
    locals=dict(patched_with='List[Name]'),
    native=dict(gen=_gen_validate, weight=2, call=_quiet(M + 'validate_marker_lookup')),
    assumptions=[A_GRP],
    requires=VALID_TREE,
    raises={'RuntimeError': ('iff', "any(" + bad('p', 'marker_lookup', 'query_gene_names')
                             + f" for p in {AP})")},
    # the effective minimum is max(1, min_markers): at least one usable marker is always required
    ensures=ensures_validate("marker_lookup", "query_gene_names", "result", "max(1, min_markers)"),
    loops={
        0: [
            "all(k in marker_lookup for k in old(marker_lookup))",
            # keys added so far belong to consulted parents already visited
            "all(implies(k not in old(marker_lookup), "
            f"any(all_parents[j] is not None and {multi('all_parents[j]')} and k == {key('all_parents[j]')} "
            "for j in range(_i))) for k in marker_lookup)",
            # groups of everything that is not a consulted parent already visited are untouched
            f"all(implies(all(implies(all_parents[j] is not None and {multi('all_parents[j]')}, "
            f"k != {key('all_parents[j]')}) for j in range(_i)), "
            "k in old(marker_lookup) and mc_same(marker_lookup[k], old(marker_lookup)[k])) for k in marker_lookup)",
            # visited consulted parents have a group; untouched when enough
            f"all(implies(all_parents[j] is not None and {multi('all_parents[j]')}, "
            f"{key('all_parents[j]')} in marker_lookup) for j in range(_i))",
            f"all(implies(all_parents[j] is not None and {multi('all_parents[j]')} "
            f"and {key('all_parents[j]')} in old(marker_lookup) "
            f"and ncommon(old(marker_lookup)[{key('all_parents[j]')}], old(query_gene_names)) >= min_markers, "
            f"mc_same(marker_lookup[{key('all_parents[j]')}], old(marker_lookup)[{key('all_parents[j]')}])) "
            "for j in range(_i))",
            ] + fallback_clauses('all_parents[j]', 'for j in range(_i)',
                                 f"(all_parents[j] is not None and {multi('all_parents[j]')})",
                                 'old(marker_lookup)', 'old(query_gene_names)', 'query_gene_names',
                                 'marker_lookup') + [
            "all(listed(old(marker_lookup), g) for k in marker_lookup for g in marker_lookup[k])",
            # as long as no error is recorded, every consulted parent visited has a usable gene
            f"all(implies(len(error_msg) == 0, ncommon(marker_lookup[{key('all_parents[j]')}], old(query_gene_names)) >= 1) "
            f"for j in range(_i) if all_parents[j] is not None and {multi('all_parents[j]')})",
            f"all(implies(len(error_msg) == 0 and {ROOT_MULTI}, 'None' in old(marker_lookup) and "
            "ncommon(old(marker_lookup)['None'], old(query_gene_names)) >= 1) "
            "for j in range(_i) if all_parents[j] is None)",
            # an error message has been recorded  <=>  a parent visited so far is bad
            "iff(len(error_msg) > 0, any(" + bad('all_parents[j]', 'old(marker_lookup)', 'old(query_gene_names)')
            + " for j in range(_i)))",
        ],
        1: [
            # no gene of the query so far  <=>  none in the own list nor in any ancestor list added
            "iff(len(query_gene_names.intersection(new_markers)) == 0, "
            "len(query_gene_names.intersection(markers)) == 0 and "
            "all(implies(reverse_hier[j] in ancestors and grp(reverse_hier[j], ancestors[reverse_hier[j]]) in marker_lookup, "
            "ncommon(marker_lookup[grp(reverse_hier[j], ancestors[reverse_hier[j]])], old(query_gene_names)) == 0) "
            "for j in range(_i)))",
            "iff(len(patched_with) > 0, any(reverse_hier[j] in ancestors and "
            "grp(reverse_hier[j], ancestors[reverse_hier[j]]) in marker_lookup for j in range(_i)))",
            "implies(len(patched_with) == 0, mc_same(new_markers, markers))",
            "all(listed(old(marker_lookup), g) for g in new_markers)",
            # new_markers is the pool down to the next level to visit; no earlier pool was enough
            "mc_same(new_markers, pool(taxonomy_tree, old(marker_lookup), parent[0], parent[1], markers, len(reverse_hier) - _i))",
            "all(len(query_gene_names.intersection(pool(taxonomy_tree, old(marker_lookup), parent[0], parent[1], markers, i2))) < min_markers "
            "for i2 in range(len(reverse_hier) - _i, lidx(taxonomy_tree, parent[0]) + 1))",
        ],
    },
    inline_asserts={
        # the groups of the ancestors have not been visited yet: they still hold the input lists
        "ancestors = taxonomy_tree.parents(": [
            "all(implies(L in ancestors, grp(L, ancestors[L]) != parent_str and "
            "all(implies(all_parents[j] is not None, grp(L, ancestors[L]) != " + key('all_parents[j]') + ") "
            "for j in range(_i0))) for L in taxonomy_tree.hierarchy)",
            "all(implies(L in ancestors, iff(grp(L, ancestors[L]) in marker_lookup, grp(L, ancestors[L]) in old(marker_lookup)) "
            "and implies(grp(L, ancestors[L]) in marker_lookup, "
            "mc_same(marker_lookup[grp(L, ancestors[L])], old(marker_lookup)[grp(L, ancestors[L])]))) "
            "for L in taxonomy_tree.hierarchy)",
            "iff('None' in marker_lookup, 'None' in old(marker_lookup)) and "
            "implies('None' in marker_lookup, mc_same(marker_lookup['None'], old(marker_lookup)['None']))",
        ],
        # the loop-1 invariant for the next iteration, before the early exit is decided
        "patched_with.append(ancestor_str)": [
            "iff(len(query_gene_names.intersection(new_markers)) == 0, "
            "len(query_gene_names.intersection(markers)) == 0 and "
            "all(implies(reverse_hier[j] in ancestors and grp(reverse_hier[j], ancestors[reverse_hier[j]]) in marker_lookup, "
            "ncommon(marker_lookup[grp(reverse_hier[j], ancestors[reverse_hier[j]])], old(query_gene_names)) == 0) "
            "for j in range(_i1 + 1)))",
            "mc_same(new_markers, pool(taxonomy_tree, old(marker_lookup), parent[0], parent[1], markers, len(reverse_hier) - 1 - _i1))",
        ],
        # where the search over the ancestors stopped
        "for ancestor_level in reverse_hier:": [
            "ghost istar = ((len(reverse_hier) - _i1 - 1) if _i1 < len(reverse_hier) else 0)",
            "0 <= istar <= lidx(taxonomy_tree, parent[0])",
            "mc_same(new_markers, pool(taxonomy_tree, old(marker_lookup), parent[0], parent[1], markers, istar))",
            "istar == 0 or len(query_gene_names.intersection(pool(taxonomy_tree, old(marker_lookup), parent[0], parent[1], markers, istar))) >= min_markers",
            "all(len(query_gene_names.intersection(pool(taxonomy_tree, old(marker_lookup), parent[0], parent[1], markers, i2))) < min_markers for i2 in range(istar + 1, lidx(taxonomy_tree, parent[0]) + 1))",
            "iff(len(patched_with) > 0, any(L in ancestors and grp(L, ancestors[L]) in old(marker_lookup) "
            "for L in taxonomy_tree.hierarchy))",
        ],
        # after the ancestors and, if still needed, the root have been added
        "if len(query_gene_names.intersection(new_markers)) < min_markers:": [
            "all(g in pool(taxonomy_tree, old(marker_lookup), parent[0], parent[1], markers, istar) or ((len(query_gene_names.intersection(pool(taxonomy_tree, old(marker_lookup), parent[0], parent[1], markers, istar))) < min_markers and 'None' in old(marker_lookup)) and g in old(marker_lookup)['None']) for g in new_markers)",
            "all(g in new_markers for g in pool(taxonomy_tree, old(marker_lookup), parent[0], parent[1], markers, istar))",
            "implies((len(query_gene_names.intersection(pool(taxonomy_tree, old(marker_lookup), parent[0], parent[1], markers, istar))) < min_markers and 'None' in old(marker_lookup)), all(g in new_markers for g in old(marker_lookup)['None']))",
            "iff(len(patched_with) > 0, any(L in ancestors and grp(L, ancestors[L]) in old(marker_lookup) "
            "for L in taxonomy_tree.hierarchy) or 'None' in old(marker_lookup))",
            "iff(len(query_gene_names.intersection(new_markers)) == 0, "
            + no_usable('parent', 'old(marker_lookup)', 'old(query_gene_names)') + ")",
            "ghost final_pool = new_markers",
        ],
        "if parent_str in marker_lookup:": [
            "implies(parent is not None, parent_str == " + key('parent') + ")",
            "mc_same(markers, (set(old(marker_lookup)[parent_str]) if parent_str in old(marker_lookup) else set()))",
        ],
        "if len(patched_with) > 0:": [
            "implies(len(patched_with) > 0, " + fallback('parent', 'old(marker_lookup)', 'query_gene_names',
                                                       'marker_lookup[parent_str]',
                                                       '(set(old(marker_lookup)[' + key('parent') + ']) if '
                                                       + key('parent') + ' in old(marker_lookup) else set())',
                                                       at='istar')[1] + ")",
            "implies(len(patched_with) > 0, fallback_ok(taxonomy_tree, old(marker_lookup), query_gene_names, "
            "min_markers, parent[0], parent[1], (set(old(marker_lookup)[" + key('parent') + "]) if "
            + key('parent') + " in old(marker_lookup) else set()), marker_lookup[parent_str]))",
            "implies(len(patched_with) > 0, sorted_strict(marker_lookup[parent_str]) and "
            "all(g in query_gene_names and g in final_pool for g in marker_lookup[parent_str]) and "
            "all(implies(g in final_pool, g in marker_lookup[parent_str]) for g in query_gene_names))",
            "iff(len(query_gene_names.intersection(set(marker_lookup[parent_str]))) == 0, "
            "len(query_gene_names.intersection(final_pool)) == 0)",
            "all(listed(old(marker_lookup), g) for g in final_pool)",
            "all(listed(old(marker_lookup), g) for g in marker_lookup[parent_str])",
        ],
        "all_parents.reverse()": [
            "len(all_parents) == len(taxonomy_tree.all_parents)",
            "all(taxonomy_tree.all_parents[i] == all_parents[len(all_parents) - 1 - i] "
            "for i in range(len(all_parents)))",
            "all(all_parents[j] == taxonomy_tree.all_parents[len(all_parents) - 1 - j] "
            "for j in range(len(all_parents)))",
            "all(is_node(taxonomy_tree, all_parents[j][0], all_parents[j][1]) "
            "for j in range(len(all_parents)) if all_parents[j] is not None)",
        ],
        "reverse_hier.reverse()": [
            "len(reverse_hier) == len(taxonomy_tree.hierarchy)",
            "all(taxonomy_tree.hierarchy[i] == reverse_hier[len(reverse_hier) - 1 - i] "
            "for i in range(len(reverse_hier)))",
        ],
        # the group key of the current parent differs from the keys of all parents visited before
        # (all_parents is duplicate free, A-GRP)
        "if not len(children) > 1:": [
            # parents visited before are at the same level or deeper (all_parents is ordered by level)
            "implies(parent is not None, all(implies(all_parents[j] is not None, "
            "lidx(taxonomy_tree, all_parents[j][0]) >= lidx(taxonomy_tree, parent[0])) for j in range(_i0)))",
            "all(implies(all_parents[j] is not None, parent != all_parents[j]) for j in range(_i0))",
            f"all(implies(all_parents[j] is not None, parent_str != {key('all_parents[j]')}) for j in range(_i0))",
        ],
    },
)


# =====================================================================================================
# write_query_markers_to_h5  (C08.c, C04.g, C07.c): per group, `reference` and `query` index the same
# gene NAMES, co-sorted by reference index.  Because the reference indices of distinct genes are
# distinct, the strictly increasing array with the element set {ref index of g | g in list} is
# unique: the arrays written depend on the SET of genes only, not on the order in which the list
# (built from a set by the caller) enumerates them, nor on the column order of the query.
# h5py is abstracted: ghost dictionaries written_ref / written_query record what
# `create_group(k).create_dataset('reference' | 'query', data=...)` is given (ext: MCH5File).
# =====================================================================================================
def _post_group(k, ML='marker_lookup', R='reference_gene_names', Qn='query_gene_names'):
    """group_ok = GROUP_OK_DEF in pyvc/ext/marker_cache.py: same length as the list, valid indices
    paired by gene name, exactly the listed genes, strictly increasing reference indices"""
    return [
        f"{k} in written_ref and {k} in written_query",
        f"group_ok({ML}[{k}], {R}, {Qn}, written_ref[{k}], written_query[{k}])",
    ]


def _N2I(d, names):
    return [
        f"all({names}[i] in {d} and {d}[{names}[i]] == i for i in range(len({names})))",
        f"all(0 <= {d}[g] < len({names}) and {names}[{d}[g]] == g for g in {d})",
    ]


def _post_arrays(ML='marker_lookup', R='reference_gene_names', Qn='query_gene_names'):
    lst = f"{ML}[parent_grp]"
    n = f"len({lst})"
    return [
        f"len(these_reference) == {n} and len(these_query) == {n}",
        f"all(0 <= these_reference[i] < len({R}) and 0 <= these_query[i] < len({Qn}) "
        f"and {R}[these_reference[i]] == {Qn}[these_query[i]] for i in range({n}))",
        f"all({R}[these_reference[i]] in {lst} for i in range({n}))",
        f"all(any({R}[these_reference[i]] == g for i in range({n})) for g in {lst})",
        "sorted_strict(these_reference)",
    ]


_WR, _WQ, _WT = {}, {}, {}


def _call_write(marker_lookup, reference_gene_names, query_gene_names, output_cache_path):
    """native: run the real function, read the file back into the ghost dictionaries"""
    import h5py
    from cell_type_mapper.type_assignment.marker_cache_v2 import write_query_markers_to_h5
    _WR.clear(), _WQ.clear(), _WT.clear()
    write_query_markers_to_h5(marker_lookup=marker_lookup, reference_gene_names=reference_gene_names,
                              query_gene_names=query_gene_names, output_cache_path=output_cache_path)
    with h5py.File(output_cache_path, 'r') as f:
        for k in marker_lookup:
            _WR[k] = f[k]['reference'][()]
            _WQ[k] = f[k]['query'][()]
        for k in ('all_query_markers', 'all_reference_markers'):
            _WT[k] = f[k][()]


def _gen_write(rng, size):
    import os
    import tempfile
    ref = ['r_only'] + GENES[:rng.randint(1, len(GENES))]
    rng.shuffle(ref)
    usable = [g for g in ref if g != 'r_only' and rng.random() < 0.8]
    query = list(usable) + (['q_only'] if rng.random() < 0.5 else [])
    rng.shuffle(query)
    keys = ['None', 'class/A', 'class/B', 'subclass/x'][:rng.randint(1, 4)]
    table = {}
    for k in keys:
        s = [g for g in usable if rng.random() < 0.5]
        rng.shuffle(s)                   # the caller builds the list from a set: arbitrary order
        table[k] = s
    d = tempfile.gettempdir()
    return dict(marker_lookup=table, reference_gene_names=ref, query_gene_names=query,
                output_cache_path=os.path.join(d, f'mc_native_write_{os.getpid()}_{rng.randrange(8)}.h5'))


contract(
    M + 'write_query_markers_to_h5',
    properties=['C08', 'C04', 'C07'],
    mode='slice',
    tracked=['marker_lookup', 'reference_gene_names', 'query_gene_names', 'query_name_to_int',
             'reference_name_to_int', 'these_reference', 'these_query', 'sorted_dex', 'out_grp',
             'cache_file', 'parent_grp', 'gene', 'written_ref', 'written_query',
             'query_genes', 'reference_genes'],
    unexpected_exceptions='allowed',
    ghost=dict(vars=dict(written_ref='Dict[Name,Arr[Int]]', written_query='Dict[Name,Arr[Int]]'),
               mutators=('create_dataset',)),
    native=dict(gen=_gen_write, call=_call_write, env=dict(written_ref=_WR, written_query=_WQ)),
    params=dict(marker_lookup='Dict[Name,List[Name]]', reference_gene_names='List[Name]',
                query_gene_names='List[Name]', output_cache_path='Opaque'),
    locals=dict(these_reference='List[Int]', these_query='List[Int]', query_genes='Set[Int]',
                reference_genes='Set[Int]'),
    requires=[
        # what create_marker_cache_from_specified_markers guarantees: gene names are unique in both
        # data sets, every listed gene is in both, a group lists a gene once (it comes from a set)
        "dupfree(reference_gene_names)", "dupfree(query_gene_names)",
        "all(dupfree(marker_lookup[k]) for k in marker_lookup)",
        "all(g in reference_gene_names and g in query_gene_names for k in marker_lookup for g in marker_lookup[k])",
    ],
    ensures=[f"all({c} for k in marker_lookup)" for c in _post_group('k')],
    loops={
        # 2: groups already written satisfy the post-condition (dict order is arbitrary)
        2: [f"all({c} for k in _seen)" for c in _post_group('k')],
        # 3: position a of the two lists holds the reference / query column of the a-th gene
        3: ["len(these_reference) == _i and len(these_query) == _i",
            "all(these_reference[a] == reference_name_to_int[_it[a]] and "
            "these_query[a] == query_name_to_int[_it[a]] for a in range(_i))"],
    },
    inline_asserts={
        # name -> column index: total on the gene list, inverse of indexing (names are unique)
        "query_name_to_int = ": _N2I('query_name_to_int', 'query_gene_names'),
        "reference_name_to_int = ": _N2I('reference_name_to_int', 'reference_gene_names'),
        # distinct genes have distinct reference columns
        "these_reference = np.array(these_reference)": [
            "ghost pre_ref = these_reference",
            "all(pre_ref[a] != pre_ref[b] for a in range(len(pre_ref)) for b in range(len(pre_ref)) if a != b)",
        ],
        "these_reference = these_reference[sorted_dex]": [
            "len(these_reference) == len(pre_ref)",
            "all(these_reference[i] == pre_ref[sorted_dex[i]] for i in range(len(pre_ref)))",
            "all(these_reference[i] <= these_reference[j] for i in range(len(pre_ref)) for j in range(len(pre_ref)) if i < j)",
            "all(these_reference[i] != these_reference[j] for i in range(len(pre_ref)) for j in range(len(pre_ref)) if i < j)",
            "sorted_strict(these_reference)",
        ],
        # after the co-sort: the two arrays of the current group
        "if len(these_reference) > 0:": _post_arrays() + [
            "group_ok(marker_lookup[parent_grp], reference_gene_names, query_gene_names, "
            "these_reference, these_query)"],
    },
)


# =====================================================================================================
# create_marker_cache_from_specified_markers  (C08.b, C04.g, C17.c; slice around the error logic)
# VL (ghost) = the table returned by validate_marker_lookup.  With a tree given, the "No markers at
# parent node" error is unreachable (validate_marker_lookup has already guaranteed a usable gene at
# every consulted parent; other groups are exempt since the S-11 fix): the proof shows it by not
# listing that condition in `raises`.
# =====================================================================================================
_VL = {}
NOT_META = "k != 'metadata' and k != 'log'"


def _call_create(marker_lookup, reference_gene_names, query_gene_names, output_cache_path,
                 taxonomy_tree, log, min_markers):
    """native: run the real function, read the file back; VL is recomputed with the (separately
    verified) validate_marker_lookup"""
    import h5py
    import warnings
    from cell_type_mapper.type_assignment import marker_cache_v2 as m
    _WR.clear(), _WQ.clear(), _VL.clear()
    with warnings.catch_warnings():
        warnings.simplefilter('ignore')
        m.create_marker_cache_from_specified_markers(
            marker_lookup=marker_lookup, reference_gene_names=reference_gene_names,
            query_gene_names=query_gene_names, output_cache_path=output_cache_path,
            taxonomy_tree=taxonomy_tree, log=log, min_markers=min_markers)
        _VL.update(m.validate_marker_lookup(marker_lookup, query_gene_names, taxonomy_tree,
                                            min_markers=min_markers))
    with h5py.File(output_cache_path, 'r') as f:
        for k in _VL:
            if k in ('metadata', 'log'):
                continue
            _WR[k] = f[k]['reference'][()]
            _WQ[k] = f[k]['query'][()]


def _gen_create(rng, size):
    import os
    import tempfile
    g = _gen_validate(rng, size)
    genes = sorted({x for v in g['marker_lookup'].values() for x in v} | set(g['query_gene_names']))
    ref = [x for x in genes if x != 'q_only' and (x != 'ref_only' or True)]
    if rng.random() < 0.25 and ref:          # a marker unknown to the reference
        ref.remove(rng.choice(ref))
    ref.append('r_extra')
    rng.shuffle(ref)
    if rng.random() < 0.3:
        g['marker_lookup']['metadata'] = ['whatever']
    out = dict(marker_lookup=g['marker_lookup'], reference_gene_names=ref,
               query_gene_names=g['query_gene_names'],
               output_cache_path=os.path.join(tempfile.gettempdir(),
                                              f'mc_native_create_{os.getpid()}_{rng.randrange(8)}.h5'),
               taxonomy_tree=g['taxonomy_tree'], log=None, min_markers=g['min_markers'])
    return out


_VALIDATE_RAISES = "any(" + bad('p', 'marker_lookup', 'query_gene_names') + f" for p in {AP})"
_UNKNOWN_ANY = "any(g not in reference_gene_names for k in marker_lookup for g in marker_lookup[k])"
# a group that validate_marker_lookup returns untouched: not the key of a consulted parent
_UNKNOWN_UNTOUCHED = (
    "any(g not in reference_gene_names for k in marker_lookup if " + NOT_META + " and "
    f"all(k != {key('p')} for p in {AP} if p is not None and {multi('p')}) for g in marker_lookup[k])")

contract(
    M + 'create_marker_cache_from_specified_markers',
    properties=['C08', 'C04', 'C17'],
    mode='slice',
    tracked=['marker_lookup', 'reference_gene_names', 'query_gene_names', 'taxonomy_tree', 'log',
             'min_markers', 'query_gene_set', 'reference_gene_set', 'final_marker_lookup',
             'missing_reference_markers', 'parent_node', 'marker_set', 'these_markers',
             'consulted_parents', 'is_consulted', 'parent', 'parent_str', 'children', 'msg',
             'written_ref', 'written_query'],
    unexpected_exceptions='allowed',     # abstracted statements (messages, warnings) may raise
    ghost=dict(vars=dict(written_ref='Dict[Name,Arr[Int]]', written_query='Dict[Name,Arr[Int]]')),
    native=dict(gen=_gen_create, call=_call_create, env=dict(written_ref=_WR, written_query=_WQ, VL=_VL)),
    assumptions=[A_GRP, "the taxonomy_tree=None mode (no validation) is not covered: _run_mapping "
                        "always passes the tree"],
    params=dict(marker_lookup='Dict[Name,List[Name]]', reference_gene_names='List[Name]',
                query_gene_names='List[Name]', output_cache_path='Opaque', taxonomy_tree='MCTree',
                log='Opt[MCLog]', min_markers='Int'),
    locals=dict(consulted_parents='Opt[Set[Name]]', final_marker_lookup='Dict[Name,List[Name]]',
                missing_reference_markers='Set[Name]', missing_query_markers='Set[Name]',
                marker_set='Set[Name]'),
    requires=VALID_TREE + ["dupfree(reference_gene_names)", "dupfree(query_gene_names)"],
    raises={'RuntimeError': _VALIDATE_RAISES + " or " + _UNKNOWN_ANY},
    must_raise=[_VALIDATE_RAISES, _UNKNOWN_UNTOUCHED],
    ensures=(
        # VL is the validated table (the clauses of validate_marker_lookup, end to end) ...
        ensures_validate("marker_lookup", "query_gene_names", "VL", "max(1, min_markers)") + [
            # ... every group of it (bar 'metadata' / 'log') is written: exactly its genes that are
            # in the query, paired by name, co-sorted by reference index
            f"all(k in written_ref and k in written_query for k in VL if {NOT_META})",
            f"all(stored_ok(VL[k], reference_gene_names, query_gene_names, written_ref[k], written_query[k]) "
            f"for k in VL if {NOT_META})",
            # ... and every marker kept is known to the reference
            f"all(g in reference_gene_names for k in VL if {NOT_META} for g in VL[k])",
        ]),
    loops={
        # 0: every member of consulted_parents is the key of a parent with more than one child
        0: ["consulted_parents is not None",
            "all((k == 'None' and " + ROOT_MULTI + ") or any((taxonomy_tree.all_parents[j] is not None and len(taxonomy_tree.children(taxonomy_tree.all_parents[j][0], taxonomy_tree.all_parents[j][1])) > 1) and k == "
            + key('taxonomy_tree.all_parents[j]') + " for j in range(_i)) for k in consulted_parents)"],
        # 1: groups visited so far (dict order is arbitrary)
        1: ["all(k in _seen and " + NOT_META + " for k in final_marker_lookup)",
            "all(k in final_marker_lookup for k in _seen if " + NOT_META + ")",
            "all(kept_ok(marker_lookup[k], query_gene_names, final_marker_lookup[k]) for k in final_marker_lookup)",
            # missing_reference_markers = the markers seen so far that the reference does not know
            "all(g in missing_reference_markers for k in _seen if " + NOT_META
            + " for g in marker_lookup[k] if g not in reference_gene_names)",
            "all(g not in reference_gene_names and any(g in marker_lookup[k] for k in _seen) "
            "for g in missing_reference_markers)"],
    },
    inline_asserts={
        "marker_lookup = validate_marker_lookup(": ["ghost VL = marker_lookup"],
        # what is kept for the group: its genes that are in the query, each once
        "these_markers = list(marker_set.intersection(": [
            "dupfree(these_markers)",
            "all(g in marker_lookup[parent_node] and g in query_gene_names for g in these_markers)",
            "all(g in these_markers for g in marker_lookup[parent_node] if g in query_gene_names)",
            "kept_ok(marker_lookup[parent_node], query_gene_names, these_markers)",
            "len(these_markers) == ncommon(marker_lookup[parent_node], query_gene_names)",
        ],
        # a consulted parent has a usable gene (validate_marker_lookup): the error below is dead
        "is_consulted = ": [
            "implies(is_consulted, ncommon(marker_lookup[parent_node], query_gene_names) >= 1)",
        ],
        # after the loop: nothing unknown to the reference was seen, or the error is due
        "for parent_node in marker_lookup:": [
            "all(k in final_marker_lookup for k in marker_lookup if " + NOT_META + ")",
            "implies(len(missing_reference_markers) == 0, all(g in reference_gene_names "
            "for k in marker_lookup if " + NOT_META + " for g in marker_lookup[k]))",
        ],
        "if len(missing_reference_markers) > 0:": [
            "all(g in reference_gene_names for k in marker_lookup if " + NOT_META + " for g in marker_lookup[k])",
            "all(g in reference_gene_names and g in query_gene_names "
            "for k in final_marker_lookup for g in final_marker_lookup[k])",
            "all(dupfree(final_marker_lookup[k]) for k in final_marker_lookup)",
        ],
        "write_query_markers_to_h5(": [
            "all(k in written_ref and k in written_query for k in final_marker_lookup)",
            "all(stored_ok(marker_lookup[k], reference_gene_names, query_gene_names, written_ref[k], "
            "written_query[k]) for k in final_marker_lookup)",
        ],
    },
)


# =====================================================================================================
# serialize_markers  (C08.d, C15.d): the marker table reported in the output is read back from the
# cache that was used: for a parent with >= 2 children the names of the reference genes at the
# stored `reference` indices (in that order), [] for every other parent; one entry per parent.
# BOUNDED (native execution only): the body is h5py / json reading, outside the symbolic subset.
# =====================================================================================================
def _gen_serialize(rng, size):
    """a real cache written by create_marker_cache_from_specified_markers for a random valid case"""
    import warnings
    from cell_type_mapper.type_assignment.marker_cache_v2 import create_marker_cache_from_specified_markers
    for _ in range(200):
        g = _gen_create(rng, size)
        g['output_cache_path'] = g['output_cache_path'].replace('mc_native_create_', 'mc_native_ser_')
        try:
            with warnings.catch_warnings():
                warnings.simplefilter('ignore')
                create_marker_cache_from_specified_markers(**g)
        except RuntimeError:
            continue
        return dict(marker_cache_path=g['output_cache_path'], taxonomy_tree=g['taxonomy_tree'])
    raise RuntimeError("no valid case generated")


_NAMES_AT = "[h5_names(marker_cache_path)[i] for i in h5_ref(marker_cache_path, {k})]"

contract(
    M + 'serialize_markers',
    properties=['C08', 'C15'],
    mode='bounded',
    native=dict(gen=_gen_serialize, weight=1, call=_quiet(M + 'serialize_markers'),
                bound="random taxonomies with <= 4 levels, <= 6 nodes per level, <= 6 genes; caches "
                      "written by the real create_marker_cache_from_specified_markers"),
    params=dict(marker_cache_path='Opaque', taxonomy_tree='MCTree'),
    returns='Dict[Name,List[Name]]',
    requires=VALID_TREE,
    ensures=[
        f"len(result) == len({AP}) and 'None' in result",
        f"all({key('p')} in result for p in {AP} if p is not None)",
        f"all(result[{key('p')}] == " + _NAMES_AT.format(k=key('p')) + f" for p in {AP} if p is not None and {multi('p')})",
        f"all(result[{key('p')}] == [] for p in {AP} if p is not None and not {multi('p')})",
        f"result['None'] == (" + _NAMES_AT.format(k="'None'") + f" if {ROOT_MULTI} else [])",
    ],
)


# =====================================================================================================
# bounded views (native execution only; never counted as proved)
# =====================================================================================================
def _reference_fallback(marker_lookup, query_gene_names, taxonomy_tree, min_markers):
    """independent reference implementation of C08.a written from the property text: the table
    that must be returned, or None when the run must end with an error"""
    mm = max(1, min_markers)
    Q = set(query_gene_names)
    out = {k: list(v) for k, v in marker_lookup.items()}
    error = False
    h = taxonomy_tree.hierarchy
    for p in taxonomy_tree.all_parents:
        kids = taxonomy_tree.children(None, None) if p is None else taxonomy_tree.children(p[0], p[1])
        if len(kids) < 2:
            continue                                   # a single child: no markers needed
        if p is None:
            if 'None' not in marker_lookup or not (set(marker_lookup['None']) & Q):
                error = True
            continue
        k = f'{p[0]}/{p[1]}'
        own = set(marker_lookup.get(k, []))
        if len(own & Q) >= mm:
            continue                                   # enough own markers: untouched
        pool, added = set(own), False
        anc = taxonomy_tree.parents(p[0], p[1])
        for lv in reversed(h[:h.index(p[0])]):         # nearest ancestor first
            ak = f'{lv}/{anc[lv]}'
            if ak in marker_lookup:
                pool |= set(marker_lookup[ak])
                added = True
                if len(pool & Q) >= mm:
                    break
        if len(pool & Q) < mm and 'None' in marker_lookup:   # finally the root
            pool |= set(marker_lookup['None'])
            added = True
        out[k] = sorted(pool & Q) if added else list(marker_lookup.get(k, []))
        if not (set(out[k]) & Q):
            error = True
    return None if error else out


def _call_validate_or_none(**kw):
    try:
        return _quiet(M + 'validate_marker_lookup')(**kw)
    except RuntimeError:
        return None


contract(
    M + 'validate_marker_lookup#reference',
    properties=['C08'], mode='bounded',
    native=dict(enumerate=_enum_validate, gen=_gen_validate, call=_call_validate_or_none,
                env=dict(reference_fallback=_reference_fallback),
                bound="exhaustive: 8 tree shapes with <= 3 levels, genes {g0,g1,g2}, every list in "
                      "{absent, [], [g0], [g1], [g0,g1], [g2]} for up to 4 consulted parents, every "
                      "subset of the genes as query, min_markers in {1, 2}  (5968 cases)"),
    params=dict(marker_lookup='Dict[Name,List[Name]]', query_gene_names='List[Name]',
                taxonomy_tree='MCTree', log='Opt[MCLog]', min_markers='Int'),
    returns='Opt[Dict[Name,List[Name]]]',
    requires=VALID_TREE,
    ensures=["result == reference_fallback(marker_lookup, query_gene_names, taxonomy_tree, min_markers)"],
)


def _expected_all(marker_lookup, names):
    return sorted({names.index(g) for k in marker_lookup for g in marker_lookup[k]})


contract(
    M + 'write_query_markers_to_h5#all_markers',
    properties=['C08', 'C07'], mode='bounded',
    native=dict(gen=_gen_write, call=_call_write,
                env=dict(written_top=_WT, expected_all=_expected_all),
                bound="random: <= 7 reference genes, <= 4 groups"),
    params=dict(marker_lookup='Dict[Name,List[Name]]', reference_gene_names='List[Name]',
                query_gene_names='List[Name]', output_cache_path='Opaque'),
    requires=["dupfree(reference_gene_names)", "dupfree(query_gene_names)",
              "all(g in reference_gene_names and g in query_gene_names for k in marker_lookup for g in marker_lookup[k])"],
    ensures=[
        # the union of the marker columns of all groups, sorted (used to down-select the query genes)
        "list(written_top['all_query_markers']) == expected_all(marker_lookup, query_gene_names)",
        "list(written_top['all_reference_markers']) == expected_all(marker_lookup, reference_gene_names)",
    ],
)
