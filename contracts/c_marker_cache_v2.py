"""cell_type_mapper.type_assignment.marker_cache_v2  (C08.a-d, C04.g, C07.c, C17.c)

The taxonomy is seen through the caller-side record `MCTree` (pyvc/ext/marker_cache.py): the
properties `hierarchy` / `all_parents` as fields, `children` / `parents` as trusted functions whose
only assumed facts are `wf_mctree(tree)` (checked natively on every generated tree; the tree
functions themselves are proved in c_taxonomy_*.py).
"""
from pyvc.contracts import contract
import pyvc.ext.marker_cache  # noqa: F401  (records MCTree / MCLog, spec functions)

M = 'cell_type_mapper.type_assignment.marker_cache_v2.'

VALID_TREE = [
    "wf_mctree(taxonomy_tree)",
    # A-GRP: '{level}/{node}' is unambiguous (no level name contains '/'); see the report
    "grp_unambiguous(taxonomy_tree)",
]


# ---- vocabulary of the validate_marker_lookup clauses -------------------------------------------
def multi(p):
    """p (a non-root entry of all_parents) has more than one child"""
    return f"len(taxonomy_tree.children({p}[0], {p}[1])) > 1"


def key(p):
    return f"grp({p}[0], {p}[1])"


ROOT_MULTI = "len(taxonomy_tree.children(None, None)) > 1"
AP = "taxonomy_tree.all_parents"


def anc(p):
    return f"taxonomy_tree.parents({p}[0], {p}[1])"


def root_bad(ML0, Q):
    """the root has several children and is missing / empty / without overlap with the query"""
    return f"({ROOT_MULTI} and ('None' not in {ML0} or ncommon({ML0}['None'], {Q}) == 0))"


def no_usable(p, ML0, Q):
    """parent p ends with no usable gene: neither its own list, nor the list of any ancestor, nor
    the root's list has a gene of the query (with min_markers >= 1 the fallback only stops early
    when it has found one)"""
    akey = f"grp(L, {anc(p)}[L])"
    return (f"(({key(p)} not in {ML0} or ncommon({ML0}[{key(p)}], {Q}) == 0) "
            f"and all(implies(L in {anc(p)} and {akey} in {ML0}, ncommon({ML0}[{akey}], {Q}) == 0) "
            f"for L in taxonomy_tree.hierarchy) "
            f"and implies('None' in {ML0}, ncommon({ML0}['None'], {Q}) == 0))")


def bad(p, ML0, Q):
    return (f"(({p} is None and {root_bad(ML0, Q)}) or "
            f"({p} is not None and {multi(p)} and {no_usable(p, ML0, Q)}))")


def ensures_validate(ML0, Q, R):
    """clauses over the input table ML0, the query gene list Q and the returned table R"""
    consulted = f"(p is not None and {multi('p')})"      # the parents whose list may be patched
    enough = f"({key('p')} in {ML0} and ncommon({ML0}[{key('p')}], {Q}) >= min_markers)"
    return [
        # the input table is not modified; every group of the input is still there
        f"all(k in {R} for k in {ML0})",
        # groups that are not consulted (not a parent of this tree, single-child parents, the
        # root) are returned as they are, and nothing else is added
        f"all(implies(all(implies({consulted}, k != {key('p')}) for p in {AP}), "
        f"k in {ML0} and mc_same({R}[k], {ML0}[k])) for k in {R})",
        # every parent with more than one child has a group ...
        f"all(implies({consulted}, {key('p')} in {R}) for p in {AP})",
        # ... which is the listed one, untouched, when enough of its markers are in the query
        f"all(implies({consulted} and {enough}, mc_same({R}[{key('p')}], {ML0}[{key('p')}])) for p in {AP})",
    ]


contract(
    M + 'validate_marker_lookup',
    properties=['C08', 'C17'],
    params=dict(marker_lookup='Dict[Name,List[Name]]', query_gene_names='List[Name]',
                taxonomy_tree='MCTree', log='Opt[MCLog]', min_markers='Int'),
    returns='Dict[Name,List[Name]]',
    locals=dict(patched_with='List[Name]'),
    requires=VALID_TREE + ["min_markers >= 1"],
    raises={'RuntimeError': ('iff', "any(" + bad('p', 'marker_lookup', 'query_gene_names')
                             + f" for p in {AP})")},
    ensures=ensures_validate("marker_lookup", "query_gene_names", "result"),
    loops={
        0: [
            "all(k in marker_lookup for k in old(marker_lookup))",
            # keys added so far belong to consulted parents already visited
            "all(implies(k not in old(marker_lookup), "
            f"any(all_parents[j] is not None and {multi('all_parents[j]')} and k == {key('all_parents[j]')} "
            "for j in range(_i))) for k in marker_lookup)",
            # groups of everything that is not a consulted parent already visited are untouched
            f"all(implies(all(implies(all_parents[j] is not None and {multi('all_parents[j]')}, "
            f"k != {key('all_parents[j]')}) for j in range(_i)), "
            "k in old(marker_lookup) and mc_same(marker_lookup[k], old(marker_lookup)[k])) for k in marker_lookup)",
            # visited consulted parents have a group; untouched when enough
            f"all(implies(all_parents[j] is not None and {multi('all_parents[j]')}, "
            f"{key('all_parents[j]')} in marker_lookup) for j in range(_i))",
            f"all(implies(all_parents[j] is not None and {multi('all_parents[j]')} "
            f"and {key('all_parents[j]')} in old(marker_lookup) "
            f"and ncommon(old(marker_lookup)[{key('all_parents[j]')}], old(query_gene_names)) >= min_markers, "
            f"mc_same(marker_lookup[{key('all_parents[j]')}], old(marker_lookup)[{key('all_parents[j]')}])) "
            "for j in range(_i))",
            # an error message has been recorded  <=>  a parent visited so far is bad
            "iff(len(error_msg) > 0, any(" + bad('all_parents[j]', 'old(marker_lookup)', 'old(query_gene_names)')
            + " for j in range(_i)))",
        ],
        1: [
            # no gene of the query so far  <=>  none in the own list nor in any ancestor list added
            "iff(len(query_gene_names.intersection(new_markers)) == 0, "
            "len(query_gene_names.intersection(markers)) == 0 and "
            "all(implies(reverse_hier[j] in ancestors and grp(reverse_hier[j], ancestors[reverse_hier[j]]) in marker_lookup, "
            "ncommon(marker_lookup[grp(reverse_hier[j], ancestors[reverse_hier[j]])], old(query_gene_names)) == 0) "
            "for j in range(_i)))",
            "iff(len(patched_with) > 0, any(reverse_hier[j] in ancestors and "
            "grp(reverse_hier[j], ancestors[reverse_hier[j]]) in marker_lookup for j in range(_i)))",
            "implies(len(patched_with) == 0, mc_same(new_markers, markers))",
        ],
    },
    inline_asserts={
        # the groups of the ancestors have not been visited yet: they still hold the input lists
        "ancestors = taxonomy_tree.parents(": [
            "all(implies(L in ancestors, grp(L, ancestors[L]) != parent_str and "
            "all(implies(all_parents[j] is not None, grp(L, ancestors[L]) != " + key('all_parents[j]') + ") "
            "for j in range(_i0))) for L in taxonomy_tree.hierarchy)",
            "all(implies(L in ancestors, iff(grp(L, ancestors[L]) in marker_lookup, grp(L, ancestors[L]) in old(marker_lookup)) "
            "and implies(grp(L, ancestors[L]) in marker_lookup, "
            "mc_same(marker_lookup[grp(L, ancestors[L])], old(marker_lookup)[grp(L, ancestors[L])]))) "
            "for L in taxonomy_tree.hierarchy)",
            "iff('None' in marker_lookup, 'None' in old(marker_lookup)) and "
            "implies('None' in marker_lookup, mc_same(marker_lookup['None'], old(marker_lookup)['None']))",
        ],
        # after the ancestors and, if still needed, the root have been added
        "if len(query_gene_names.intersection(new_markers)) < min_markers:": [
            "iff(len(query_gene_names.intersection(new_markers)) == 0, "
            + no_usable('parent', 'old(marker_lookup)', 'old(query_gene_names)') + ")",
            "ghost pool = new_markers",
        ],
        "if len(patched_with) > 0:": [
            "iff(len(query_gene_names.intersection(set(marker_lookup[parent_str]))) == 0, "
            "len(query_gene_names.intersection(pool)) == 0)",
        ],
        "all_parents.reverse()": [
            "len(all_parents) == len(taxonomy_tree.all_parents)",
            "all(taxonomy_tree.all_parents[i] == all_parents[len(all_parents) - 1 - i] "
            "for i in range(len(all_parents)))",
        ],
        "reverse_hier.reverse()": [
            "len(reverse_hier) == len(taxonomy_tree.hierarchy)",
            "all(taxonomy_tree.hierarchy[i] == reverse_hier[len(reverse_hier) - 1 - i] "
            "for i in range(len(reverse_hier)))",
        ],
        # the group key of the current parent differs from the keys of all parents visited before
        # (all_parents is duplicate free, A-GRP)
        "if not len(children) > 1:": [
            # parents visited before are at the same level or deeper (all_parents is ordered by level)
            "implies(parent is not None, all(implies(all_parents[j] is not None, "
            "lidx(taxonomy_tree, all_parents[j][0]) >= lidx(taxonomy_tree, parent[0])) for j in range(_i0)))",
            "all(implies(all_parents[j] is not None, parent != all_parents[j]) for j in range(_i0))",
            f"all(implies(all_parents[j] is not None, parent_str != {key('all_parents[j]')}) for j in range(_i0))",
        ],
    },
)
