"""cell_type_mapper.diff_exp.precompute_from_anndata  (C09.a/b, C04.d, C18.a)

View `#split` of `_precompute_summary_stats_from_h5ad_and_lookup` (slice): the work-splitting
loop, the removal of empty work lists, the dispatch loop and the merge loop.

Vocabulary of the invariants
  L   = data_path_list (after the optional copy: the list the split loop iterates)
  D   = path_to_cells  (file -> number of rows, only files that overlap the lookup)
  psum(L, D, j)        = rows of the overlapping files among L[:j]   (pyvc/ext/precompute.py)
  GOFF(c) / GEND(c)    = first / one-past-last row of chunk c = (path, r0, r1) in the row space
                         obtained by concatenating the overlapping files in list order
  M                    = number of non-empty work lists (they are the first M)

Partition statement (C09.a), asserted before the first worker is created and kept by the dispatch
loop: the chunks, read work list by work list, are consecutive intervals of that row space,
starting at 0 and ending at n_total_cells; every chunk lies inside its file; no list is empty.
Consecutive intervals from 0 to n_total tile [0, n_total): every (file, row) is in exactly one
chunk (lemma L of DESIGN C09.d; psum is strictly monotone over overlapping files).
"""
from pyvc.contracts import contract
from pyvc.types import record

M_ = 'cell_type_mapper.diff_exp.precompute_from_anndata.'

CHUNK = 'Tuple[Name,Int,Int]'
L = 'data_path_list'
D = 'path_to_cells'
W = 'work_load'
M = '(i_worker + (0 if this_n_cells == 0 else 1))'


def GOFF(c):
    return f"(psum({L}, {D}, index_of({L}, {c}[0])) + {c}[1])"


def GEND(c):
    return f"(psum({L}, {D}, index_of({L}, {c}[0])) + {c}[2])"


def LAST(w):
    return f"{W}[{w}][len({W}[{w}]) - 1]"


def tiling(pos, upto='n_processors'):
    """the partition facts for the chunks handed out so far (`pos` = rows handed out)"""
    return [
        f"0 <= {M} <= len({W})",
        # the non-empty lists are exactly the first M
        f"all(len({W}[w]) >= 1 for w in range({M}))",
        f"all(len({W}[w]) == 0 for w in range({M}, len({W})))",
        # every chunk is a non-empty row range of an overlapping file of L
        f"all({W}[w][k][0] in {D} and 0 <= {W}[w][k][1] and {W}[w][k][1] < {W}[w][k][2] "
        f"and {W}[w][k][2] <= {D}[{W}[w][k][0]] "
        f"and 0 <= index_of({L}, {W}[w][k][0]) and index_of({L}, {W}[w][k][0]) < len({L}) "
        f"and {L}[index_of({L}, {W}[w][k][0])] == {W}[w][k][0] "
        f"for w in range({M}) for k in range(len({W}[w])))",
        # consecutive inside a list ...
        f"all({GEND(f'{W}[w][k]')} == {GOFF(f'{W}[w][k + 1]')} "
        f"for w in range({M}) for k in range(len({W}[w]) - 1))",
        # ... and from the end of a list to the start of the next
        f"all({GEND(LAST('w'))} == {GOFF(f'{W}[w + 1][0]')} for w in range({M} - 1))",
        # first chunk starts at row 0, last chunk ends at the current position
        f"implies({M} >= 1, {GOFF(f'{W}[0][0]')} == 0)",
        f"implies({M} >= 1, {GEND(LAST(f'{M} - 1'))} == {pos})",
        f"implies({M} == 0, {pos} == 0)",
    ]


SCALARS = [
    f"len({W}) == n_processors",
    "0 <= i_worker and i_worker < n_processors",
    "0 <= this_n_cells and this_n_cells <= n_per",
    f"implies(i_worker < len({W}), iff(this_n_cells == 0, len({W}[i_worker]) == 0))",
]

POS4 = f"psum({L}, {D}, _i4)"
POS5 = f"(psum({L}, {D}, _i4) + (r0 if r0 < n_cells else n_cells))"

FACTS_D = [
    f"all({D}[k] >= 0 for k in {D})",
    f"dupfree({L})",
    f"n_total_cells == psum({L}, {D}, len({L}))",
    "n_per >= 0 and n_per * n_processors >= n_total_cells",
]

FINAL = tiling('n_total_cells')

record('Proc', pid='Int', exitcode='Opt[Int]')

contract(
    M_ + '_process_chunk_spec',
    properties=['C09'], trusted=True,
    params=dict(chunk_specification_list=f'List[{CHUNK}]', rows_at_a_time='Int', buffer_path='Name'),
    returns='None',
    note="placeholder frame contract (does not modify the work list it is given)",
)

contract(
    M_ + '_precompute_summary_stats_from_h5ad_and_lookup#split',
    properties=['C09', 'C04'],
    mode='slice',
    tracked=['data_path_list', 'data_path', 'cell_name_list', 'desired_cells', 'n_overlap', 'n_cells', 'path_to_cells',
             'n_total_cells', 'new_data_path_list', 'new_path', 'buffer_dir', 'n_per', 'n_processors',
             'work_load', 'i_worker', 'this_n_cells', 'r0', 'r1', 'rows_at_a_time', 'to_pop', 'ii',
             'buffer_path_list', 'buffer_path', 'work_spec', 'p', 'tmp_created', 'started'],
    unexpected_exceptions='allowed',
    params=dict(data_path_list='List[Name]', rows_at_a_time='Int', n_processors='Int',
                buffer_dir='Opt[Name]'),
    locals=dict(path_to_cells='Dict[Name,Int]', new_data_path_list='List[Name]', n_cells='Int',
                n_overlap='Int', data_path='Name', new_path='Name', desired_cells='Set[Name]',
                work_load=f'List[List[{CHUNK}]]', to_pop='List[Int]', buffer_path_list='List[Name]',
                buffer_path='Name'),
    ghost=dict(vars={'tmp_created': 'List[Name]', 'started': 'Set[Int]'}, mutators=['mkstemp_clean']),
    assumptions=['A-H5AD: obs/var names of an input file are a function of its path during the run',
                 'A-TMP: mkstemp_clean never returns the same path twice',
                 'A-PATH: pathlib.Path(x) names the same file as x'],
    requires=[
        # valid configuration: at least one worker, positive chunk size, a split into distinct files
        "n_processors >= 1", "rows_at_a_time >= 1", "dupfree(data_path_list)",
    ],
    ensures=[],
    inline_asserts={
        'cell_name_list = list(': ["ghost D0 = path_to_cells", "ghost N0 = new_data_path_list"],
        'if n_overlap > 0': [
            f"lemma_psum_agree({L}, D0, {L}, {D}, _i)",
            f"lemma_psum_agree(N0, D0, new_data_path_list, {D}, len(N0))"],
        'n_per = np.ceil(': ["n_per >= 0", "n_per * n_processors >= n_total_cells"],
        'buffer_path_list = []': FINAL + [f"len({W}) == {M}", "len(started) == 0"],
    },
    loops={
        2: [f"all({D}[k] >= 0 for k in {D})", "len(started) == 0",
            "len(tmp_created) == len(new_data_path_list)",
            "all(new_data_path_list[j] == tmp_created[j] for j in range(len(new_data_path_list)))",
            # no copy: keys are among the files already visited
            f"implies(buffer_dir is None, len(new_data_path_list) == 0 and "
            f"n_total_cells == psum({L}, {D}, _i) and "
            f"all(implies({L}[j] in {D}, j < _i) for j in range(len({L}))))",
            # copy: keys are exactly the copies made so far
            f"implies(buffer_dir is not None, dupfree(new_data_path_list) and "
            f"n_total_cells == psum(new_data_path_list, {D}, len(new_data_path_list)) and "
            f"all(p in {D} for p in new_data_path_list) and "
            f"all(any(new_data_path_list[j] == k for j in range(len(new_data_path_list))) for k in {D}))",
            ],
        3: [f"len({W}) == ii", f"all(len({W}[w]) == 0 for w in range(len({W})))", "0 <= ii"],
        4: FACTS_D + SCALARS + [f"i_worker * (n_per + 1) + this_n_cells <= {POS4}",
                                f"{POS4} <= n_total_cells"] + tiling(POS4),
        5: FACTS_D + SCALARS + [f"i_worker * (n_per + 1) + this_n_cells <= {POS5}", "0 <= r0",
                                # the file being split ends inside the row space
                                f"psum({L}, {D}, _i4) + n_cells <= n_total_cells", "0 <= n_cells",
                                f"psum({L}, {D}, _i4) >= 0"] + tiling(POS5),
        6: [f"len(to_pop) == (ii - {M} if ii > {M} else 0)", "0 <= ii",
            f"all(to_pop[j] == {M} + j for j in range(len(to_pop)))"],
        7: [f"len(_it) == n_processors - {M}",
            f"all({M} <= _it[j] and _it[j] < n_processors for j in range(len(_it)))",
            "all(_it[a] > _it[b] for a in range(len(_it)) for b in range(len(_it)) if a < b)",
            f"len({W}) == n_processors - _i",
            f"implies(_i < len(_it), _it[_i] < len({W}))",
            ] + FINAL,
        8: FINAL + [f"len({W}) == {M}", "len(buffer_path_list) == _i",
                    "len(tmp_created) == len(new_data_path_list) + len(buffer_path_list)",
                    "all(buffer_path_list[j] == tmp_created[len(new_data_path_list) + j] "
                    "for j in range(len(buffer_path_list)))"],
        11: ["_it == buffer_path_list", f"len(_it) == len({W})",
             "all(_it[j] == tmp_created[len(new_data_path_list) + j] for j in range(len(_it)))",
             "dupfree(_it)"],
    },
)
