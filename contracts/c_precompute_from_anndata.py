"""cell_type_mapper.diff_exp.precompute_from_anndata  (C09.a/b, C04.d, C18.a)

View `#split` of `_precompute_summary_stats_from_h5ad_and_lookup` (slice): the work-splitting
loop, the removal of empty work lists, the dispatch loop and the merge loop.

Vocabulary of the invariants
  L   = data_path_list (after the optional copy: the list the split loop iterates)
  D   = path_to_cells  (file -> number of rows, only files that overlap the lookup)
  psum(L, D, j)        = rows of the overlapping files among L[:j]   (pyvc/ext/precompute.py)
  GOFF(c) / GEND(c)    = first / one-past-last row of chunk c = (path, r0, r1) in the row space
                         obtained by concatenating the overlapping files in list order
  M                    = number of non-empty work lists (they are the first M)

Partition statement (C09.a), asserted before the first worker is created and kept by the dispatch
loop: the chunks, read work list by work list, are consecutive intervals of that row space,
starting at 0 and ending at n_total_cells; every chunk lies inside its file; no list is empty.
Consecutive intervals from 0 to n_total tile [0, n_total): every (file, row) is in exactly one
chunk (lemma L of DESIGN C09.d; psum is strictly monotone over overlapping files).
"""
from pyvc.contracts import contract
from pyvc.types import record

M_ = 'cell_type_mapper.diff_exp.precompute_from_anndata.'

CHUNK = 'Tuple[Name,Int,Int]'
L = 'data_path_list'
D = 'path_to_cells'
W = 'work_load'
M = '(i_worker + (0 if this_n_cells == 0 else 1))'


def GOFF(c):
    return f"(psum({L}, {D}, index_of({L}, {c}[0])) + {c}[1])"


def GEND(c):
    return f"(psum({L}, {D}, index_of({L}, {c}[0])) + {c}[2])"


def LAST(w):
    return f"{W}[{w}][len({W}[{w}]) - 1]"


def tiling_m(pos):
    """the partition facts, stated with M = number of non-empty lists (cleanup, dispatch, final)"""
    return [
        f"0 <= {M} <= len({W})",
        # the non-empty lists are exactly the first M
        f"all(len({W}[w]) >= 1 for w in range({M}))",
        f"all(len({W}[w]) == 0 for w in range({M}, len({W})))",
        # every chunk is a non-empty row range of an overlapping file of L
        f"all({W}[w][k][0] in {D} and 0 <= {W}[w][k][1] and {W}[w][k][1] < {W}[w][k][2] "
        f"and {W}[w][k][2] <= {D}[{W}[w][k][0]] "
        f"for w in range({M}) for k in range(len({W}[w])))",
        f"all(0 <= index_of({L}, {W}[w][k][0]) and index_of({L}, {W}[w][k][0]) < len({L}) "
        f"and {L}[index_of({L}, {W}[w][k][0])] == {W}[w][k][0] "
        f"for w in range({M}) for k in range(len({W}[w])))",
        # consecutive inside a list ...
        f"all({GEND(f'{W}[w][k]')} == {GOFF(f'{W}[w][k + 1]')} "
        f"for w in range({M}) for k in range(len({W}[w]) - 1))",
        # ... and from the end of a list to the start of the next
        f"all({GEND(LAST('w'))} == {GOFF(f'{W}[w + 1][0]')} for w in range({M} - 1))",
        # first chunk starts at row 0, last chunk ends at the current position
        f"implies({M} >= 1, {GOFF(f'{W}[0][0]')} == 0)",
        f"implies({M} >= 1, {GEND(LAST(f'{M} - 1'))} == {pos})",
        f"implies({M} == 0, {pos} == 0)",
    ]


def tiling_iw(pos):
    """the same facts inside the split loops, stated with i_worker (lists 0..i_worker are in
    use, the last of them may still be empty)"""
    return [
        f"all(len({W}[w]) >= 1 for w in range(i_worker))",
        f"all(len({W}[w]) == 0 for w in range(i_worker + 1, len({W})))",
        f"all({W}[w][k][0] in {D} and 0 <= {W}[w][k][1] and {W}[w][k][1] < {W}[w][k][2] "
        f"and {W}[w][k][2] <= {D}[{W}[w][k][0]] "
        f"for w in range(i_worker + 1) for k in range(len({W}[w])))",
        f"all(0 <= index_of({L}, {W}[w][k][0]) and index_of({L}, {W}[w][k][0]) < len({L}) "
        f"and {L}[index_of({L}, {W}[w][k][0])] == {W}[w][k][0] "
        f"for w in range(i_worker + 1) for k in range(len({W}[w])))",
        f"all({GEND(f'{W}[w][k]')} == {GOFF(f'{W}[w][k + 1]')} "
        f"for w in range(i_worker + 1) for k in range(len({W}[w]) - 1))",
        f"all(implies(len({W}[w + 1]) >= 1, {GEND(LAST('w'))} == {GOFF(f'{W}[w + 1][0]')}) "
        f"for w in range(i_worker))",
        f"implies(len({W}[0]) >= 1, {GOFF(f'{W}[0][0]')} == 0)",
        f"implies(len({W}[i_worker]) >= 1, {GEND(LAST('i_worker'))} == {pos})",
        f"implies(len({W}[i_worker]) == 0 and i_worker >= 1, {GEND(LAST('i_worker - 1'))} == {pos})",
        f"implies(len({W}[i_worker]) == 0 and i_worker == 0, {pos} == 0)",
    ]


SCALARS = [
    f"len({W}) == n_processors",
    "0 <= i_worker and i_worker < n_processors",
    "0 <= this_n_cells and this_n_cells <= n_per",
    f"implies(i_worker < len({W}), iff(this_n_cells == 0, len({W}[i_worker]) == 0))",
]

POS4 = f"psum({L}, {D}, _i4)"
POS5 = f"(psum({L}, {D}, _i4) + (r0 if r0 < n_cells else n_cells))"

FACTS_D = [
    f"all({D}[k] >= 0 for k in {D})",
    f"dupfree({L})",
    f"n_total_cells == psum({L}, {D}, len({L}))",
    "n_per >= 0 and n_per * n_processors >= n_total_cells",
]

FINAL = tiling_m('n_total_cells')

record('Proc', pid='Int', exitcode='Opt[Int]')

SPECS = 'chunk_specification_list'
SPEC_OK = (f"all(0 <= {SPECS}[q][1] and {SPECS}[q][1] <= {SPECS}[q][2] and "
           f"{SPECS}[q][2] <= len(h5ad_names({SPECS}[q][0], 'obs')) for q in range(len({SPECS})))")

contract(
    M_ + '_process_chunk_spec',
    properties=['C09'],
    mode='slice',
    tracked=[SPECS, 'chunk_spec', 'iterator', 'iterator_path', 'cell_name_list', 'chunk',
             'cell_name_to_output_row', 'bad_row_idx', 'n_clusters', 'rows_at_a_time'],
    unexpected_exceptions='allowed',
    params=dict(chunk_specification_list=f'List[{CHUNK}]', rows_at_a_time='Int',
                cell_name_to_output_row='Dict[Name,Int]', bad_row_idx='Int', n_clusters='Int',
                buffer_path='Name'),
    locals=dict(iterator='Opt[PcRowIter]', iterator_path='Opt[Name]', cell_name_list='List[Name]'),
    returns='None',
    requires=[
        # every work item is a row range of its file
        SPEC_OK,
        # the lookup maps cells to rows of the buffers; the sentinel is not such a row
        "all(0 <= cell_name_to_output_row[k] and cell_name_to_output_row[k] < n_clusters "
        "for k in cell_name_to_output_row)",
        "bad_row_idx < 0 or bad_row_idx >= n_clusters", "n_clusters >= 0",
    ],
    ensures=[f"{SPECS} == old({SPECS})"],
    loops={
        # the cached iterator and obs names belong to the file of the work item being processed
        0: [f"{SPECS} == old({SPECS})",
            "implies(iterator is not None, iterator_path is not None and bound('cell_name_list') and "
            "iterator.h5ad_path == iterator_path and "
            "iterator.n_rows == len(h5ad_names(some(iterator_path), 'obs')) and "
            "cell_name_list == h5ad_names(some(iterator_path), 'obs'))"],
    },
    inline_asserts={
        # the chunk handed to _process_chunk is rows r0:r1 of the file named by the work item,
        # together with the obs names of that same file
        'chunk = iterator.get_chunk(': [
            "chunk[1] == chunk_spec[1] and chunk[2] == chunk_spec[2]",
            "iterator_path == chunk_spec[0]",
            "len(cell_name_list) == len(h5ad_names(chunk_spec[0], 'obs'))",
            "all(cell_name_list[i] == h5ad_names(chunk_spec[0], 'obs')[i] for i in range(len(cell_name_list)))",
            "cell_name_list == h5ad_names(chunk_spec[0], 'obs')"],
    },
)

NDL = 'new_data_path_list'

LOOP2 = {
    # no copy: keys of D are among the files already visited, nothing is created
    False: [f"all({D}[k] >= 0 for k in {D})", "len(started) == 0",
            f"all({D}[k] == len(h5ad_names(k, 'obs')) for k in {D})",
            f"len({NDL}) == 0", "len(tmp_created) == 0",
            f"n_total_cells == psum({L}, {D}, _i)",
            f"all(implies({L}[j] in {D}, j < _i) for j in range(len({L})))"],
    # copy: D is keyed by the copies made so far, which are the temporary files created so far
    True: [f"all({D}[k] >= 0 for k in {D})", "len(started) == 0",
           f"all({D}[k] == len(h5ad_names(k, 'obs')) for k in {D})",
           f"len(tmp_created) == len({NDL})",
           f"all({NDL}[j] == tmp_created[j] for j in range(len({NDL})))",
           f"dupfree({NDL})",
           f"n_total_cells == psum({NDL}, {D}, len({NDL}))",
           f"all({NDL}[j] in {D} for j in range(len({NDL})))"],
}

LEMMA2 = {
    False: [f"lemma_psum_agree({L}, D0, {L}, {D}, _i)"],
    True: [f"lemma_psum_agree(N0, D0, {NDL}, {D}, len(N0))"],
}

for copy in (False, True):
    contract(
        M_ + '_precompute_summary_stats_from_h5ad_and_lookup#split' + ('_copy' if copy else ''),
        properties=['C09', 'C04', 'C18'],
        mode='slice',
        tracked=['data_path_list', 'data_path', 'cell_name_list', 'desired_cells', 'n_overlap', 'n_cells',
                 'path_to_cells', 'n_total_cells', 'new_data_path_list', 'new_path', 'buffer_dir', 'n_per',
                 'n_processors', 'work_load', 'i_worker', 'this_n_cells', 'r0', 'r1', 'rows_at_a_time',
                 'to_pop', 'ii', 'buffer_path_list', 'buffer_path', 'work_spec', 'p', 'tmp_created',
                 'started', 'cell_name_to_output_row', 'cell_name_to_cluster_name', 'cluster_to_output_row',
                 'cell_name', 'n_clusters', 'bad_row_idx'],
        unexpected_exceptions='allowed',
        params=dict(data_path_list='List[Name]', rows_at_a_time='Int', n_processors='Int',
                    buffer_dir='Opt[Name]', cell_name_to_cluster_name='Dict[Name,Name]',
                    cluster_to_output_row='Dict[Name,Int]'),
        locals=dict(path_to_cells='Dict[Name,Int]', new_data_path_list='List[Name]', n_cells='Int',
                    n_overlap='Int', data_path='Name', new_path='Name', desired_cells='Set[Name]',
                    work_load=f'List[List[{CHUNK}]]', to_pop='List[Int]', buffer_path_list='List[Name]',
                    buffer_path='Name', cell_name_to_output_row='Dict[Name,Int]'),
        ghost=dict(vars={'tmp_created': 'List[Name]', 'started': 'Set[Int]'}, mutators=['mkstemp_clean'],
                   # path pruning: the path condition is full of quantified invariants, on which the
                   # feasibility probe only times out (dead branches are decided by ground facts)
                   feasible_ms=60),
        assumptions=['A-H5AD: obs/var names of an input file are a function of its path during the run',
                     'A-TMP: mkstemp_clean never returns the same path twice',
                     'A-PATH: pathlib.Path(x) names the same file as x'],
        requires=[
            # valid configuration: at least one worker, positive chunk size, a split into distinct
            # files; the two views (data copied to a fast scratch directory or not) cover every call
            "n_processors >= 1", "rows_at_a_time >= 1", "dupfree(data_path_list)",
            "buffer_dir is not None" if copy else "buffer_dir is None",
            # guaranteed by the callers (precompute_summary_stats_from_h5ad_and_tree / _list_and_tree):
            # every cell's cluster has an output row; rows are the indices 0 .. n_clusters-1
            "all(cell_name_to_cluster_name[c] in cluster_to_output_row for c in cell_name_to_cluster_name)",
            "all(0 <= cluster_to_output_row[k] and cluster_to_output_row[k] < len(cluster_to_output_row) "
            "for k in cluster_to_output_row)",
        ],
        ensures=[],
        inline_asserts={
            'cell_name_list = list(': ["ghost D0 = path_to_cells", "ghost N0 = new_data_path_list"],
            'if n_overlap > 0': LEMMA2[copy],
            'n_per = np.ceil(': ["n_per >= 0", "n_per * n_processors >= n_total_cells"],
            # C09.a index bound: the worker index stays in range when it advances (the one
            # non-linear step: (i_worker+1)*(n_per+1) <= rows handed out <= n_total <= n_per*n_processors)
            'i_worker += 1': ["i_worker * (n_per + 1) <= n_per * n_processors and i_worker < n_processors"],
            # C09.a / C04.d: the work lists are final before the first buffer / worker is created
            'buffer_path_list = []': FINAL + [f"len({W}) == {M}", "len(started) == 0"],
            # C18.a (writer side of the interface): every cell named by the lookup is accumulated into
            # the row of its cluster in the table that is written as `cluster_to_row`
            # (stated after the drain loop, i.e. at the call of _create_empty_stats_file)
            'while len(process_list) > 0': [
                "all(k in cell_name_to_output_row and cell_name_to_output_row[k] == "
                "cluster_to_output_row[cell_name_to_cluster_name[k]] for k in cell_name_to_cluster_name)",
                "n_clusters == len(cluster_to_output_row)"],
        },
        loops={
            # C09.b: the cell -> buffer row lookup only holds rows of the buffers
            1: ["all(0 <= cell_name_to_output_row[k] and cell_name_to_output_row[k] < n_clusters "
                "for k in cell_name_to_output_row)",
                # C18.a: the buffer row of a cell is the row that the file's own cluster_to_row table
                # (= cluster_to_output_row, handed unchanged to _create_empty_stats_file) gives its cluster
                "all(k in cell_name_to_cluster_name and cell_name_to_output_row[k] == "
                "cluster_to_output_row[cell_name_to_cluster_name[k]] for k in cell_name_to_output_row)",
                "all(k in cell_name_to_output_row for k in _seen)"],
            2: LOOP2[copy],
            3: [f"len({W}) == ii", f"all(len({W}[w]) == 0 for w in range(len({W})))", "0 <= ii"],
            4: FACTS_D + SCALARS + [f"i_worker * (n_per + 1) + this_n_cells <= {POS4}",
                                    f"{POS4} <= n_total_cells"] + tiling_iw(POS4) + FINAL[0:3],
            5: FACTS_D + SCALARS + [f"i_worker * (n_per + 1) + this_n_cells <= {POS5}", "0 <= r0",
                                    # the file being split ends inside the row space
                                    f"psum({L}, {D}, _i4) + n_cells <= n_total_cells", "0 <= n_cells",
                                    f"psum({L}, {D}, _i4) >= 0"] + tiling_iw(POS5) + FINAL[0:3],
            6: FINAL[0:3] + [f"len(to_pop) == (ii - {M} if ii > {M} else 0)", "0 <= ii",
                f"all(to_pop[j] == {M} + j for j in range(len(to_pop)))"],
            7: [f"len(_it) == n_processors - {M}",
                f"all({M} <= _it[j] and _it[j] < n_processors for j in range(len(_it)))",
                "all(_it[a] > _it[b] for a in range(len(_it)) for b in range(len(_it)) if a < b)",
                f"len({W}) == n_processors - _i",
                f"implies(_i < len(_it), _it[_i] < len({W}))",
                ] + FINAL,
            8: FINAL + [f"len({W}) == {M}", "len(buffer_path_list) == _i",
                        f"len(tmp_created) == len({NDL}) + len(buffer_path_list)",
                        f"all(buffer_path_list[j] == tmp_created[len({NDL}) + j] "
                        "for j in range(len(buffer_path_list)))",
                        "dupfree(tmp_created)"],
            # C04.d: the merge loop walks buffer_path_list itself, which lists the buffers in
            # creation order, one per work list, all distinct
            11: ["_it == buffer_path_list", f"len(_it) == len({W})",
                 f"all(_it[j] == tmp_created[len({NDL}) + j] for j in range(len(_it)))",
                 "dupfree(_it)"],
        },
    )


# ---------------------------------------------------------------------------------------------
# C09.b  _process_chunk: row -> cluster row
# ---------------------------------------------------------------------------------------------
LOOKUP = 'cell_name_to_output_row'
NAMES = 'cell_name_list'
LABEL = (f"({LOOKUP}[{NAMES}[r0 + i]] if {NAMES}[r0 + i] in {LOOKUP} else bad_row_idx)")


def _gen_process_chunk(rng, size):
    import numpy as np
    n_clusters = rng.randint(1, 4)
    n_file = rng.randint(1, size + 3)
    names = [f"c{i}" for i in range(n_file)]
    lookup = {nm: rng.randint(0, n_clusters - 1) for nm in names if rng.random() < 0.7}
    r0 = rng.randint(0, n_file - 1)
    r1 = rng.randint(r0 + 1, n_file)
    n_genes = rng.randint(1, 3)
    data = np.array([[float(rng.randint(0, 4)) for _ in range(n_genes)] for _ in range(r1 - r0)])
    # buffers already hold the contribution of earlier chunks (non-zero), so `+=` differs from `=`
    buf = {'n_cells': np.array([rng.randint(0, 3) for _ in range(n_clusters)], dtype=int)}
    for k, dt in (('sum', float), ('sumsq', float), ('gt0', int), ('gt1', int), ('ge1', int)):
        buf[k] = np.array([[rng.randint(0, 3) for _ in range(n_genes)] for _ in range(n_clusters)],
                          dtype=dt).reshape(n_clusters, n_genes)
    return dict(chunk=(data, r0, r1), gene_names=[f"g{i}" for i in range(n_genes)],
                cell_name_to_output_row=lookup, cell_name_list=names, bad_row_idx=-999,
                normalization='log2CPM', n_clusters=n_clusters, buffer_dict=buf)


contract(
    M_ + '_process_chunk',
    properties=['C09'],
    mode='slice',
    tracked=['chunk', 'r0', 'r1', 'cluster_chunk', 'unq_cluster', 'valid', NAMES, LOOKUP,
             'bad_row_idx', 'n_clusters'],
    unexpected_exceptions='allowed',
    params=dict(chunk='Tuple[Opaque,Int,Int]', cell_name_to_output_row='Dict[Name,Int]',
                cell_name_list='List[Name]', bad_row_idx='Int', n_clusters='Int'),
    requires=[
        # the chunk is a row range of the file whose obs names are cell_name_list
        f"0 <= chunk[1] and chunk[1] <= chunk[2] and chunk[2] <= len({NAMES})",
        # the lookup maps cells to rows of the buffers; the sentinel is not such a row
        f"all(0 <= {LOOKUP}[k] and {LOOKUP}[k] < n_clusters for k in {LOOKUP})",
        "bad_row_idx < 0 or bad_row_idx >= n_clusters",
    ],
    ensures=[],
    inline_asserts={
        'cluster_chunk = np.array(': [
            "len(cluster_chunk) == r1 - r0",
            f"all(cluster_chunk[i] == {LABEL} for i in range(r1 - r0))"],
        'valid = np.sort(valid)': [
            # the rows handed to the accumulation are exactly the rows labelled unq_cluster, once each
            "sorted_strict(valid)",
            "all(0 <= valid[j] and valid[j] < r1 - r0 and cluster_chunk[valid[j]] == unq_cluster "
            "for j in range(len(valid)))",
            "all(implies(cluster_chunk[i] == unq_cluster, any(valid[j] == i for j in range(len(valid)))) "
            "for i in range(r1 - r0))",
            # ... i.e. cells named by the lookup whose row is unq_cluster; the sentinel never gets here
            "unq_cluster != bad_row_idx",
            "0 <= unq_cluster and unq_cluster < n_clusters",
            f"all({NAMES}[r0 + valid[j]] in {LOOKUP} and {LOOKUP}[{NAMES}[r0 + valid[j]]] == unq_cluster "
            "for j in range(len(valid)))",
            f"all(implies({NAMES}[r0 + i] in {LOOKUP} and {LOOKUP}[{NAMES}[r0 + i]] == unq_cluster, "
            "any(valid[j] == i for j in range(len(valid)))) for i in range(r1 - r0))",
        ],
    },
    loops={
        # every label occurring in the chunk is visited, each once (np.unique is strictly increasing)
        0: ["sorted_strict(_it)",
            "all(any(_it[j] == cluster_chunk[i] for j in range(len(_it))) for i in range(len(cluster_chunk)))",
            "len(cluster_chunk) == r1 - r0",
            f"all(cluster_chunk[i] == {LABEL} for i in range(r1 - r0))"],
    },
    native=dict(gen=_gen_process_chunk),
)


ROWS_OF_C = ("[i for i in range(chunk[1], chunk[2]) if cell_name_list[i] in cell_name_to_output_row "
             "and cell_name_to_output_row[cell_name_list[i]] == c]")

contract(
    M_ + '_process_chunk#effect',
    properties=['C09'],
    mode='bounded',
    params=dict(chunk='Tuple[Opaque,Int,Int]', gene_names='List[Name]', cell_name_to_output_row='Dict[Name,Int]',
                cell_name_list='List[Name]', bad_row_idx='Int', normalization='Name', n_clusters='Int',
                buffer_dict='Opaque'),
    requires=[
        f"0 <= chunk[1] and chunk[1] <= chunk[2] and chunk[2] <= len({NAMES})",
        f"all(0 <= {LOOKUP}[k] and {LOOKUP}[k] < n_clusters for k in {LOOKUP})",
        "bad_row_idx < 0 or bad_row_idx >= n_clusters",
    ],
    ensures=[
        # C09.b on the real buffers: every labelled row is added to its cluster's row, the others to none
        f"all(buffer_dict['n_cells'][c] == old(buffer_dict)['n_cells'][c] + len({ROWS_OF_C}) "
        "for c in range(n_clusters))",
        f"all(abs(buffer_dict['sum'][c, g] - old(buffer_dict)['sum'][c, g] - "
        f"sum(chunk[0][i - chunk[1], g] for i in {ROWS_OF_C})) < 1e-9 "
        "for c in range(n_clusters) for g in range(len(gene_names)))",
        f"all(buffer_dict['gt0'][c, g] == old(buffer_dict)['gt0'][c, g] + "
        f"len([i for i in {ROWS_OF_C} if chunk[0][i - chunk[1], g] > 0]) "
        "for c in range(n_clusters) for g in range(len(gene_names)))",
    ],
    native=dict(gen=_gen_process_chunk, bound='files <= 7 cells, <= 3 clusters, <= 3 genes; dense log2CPM chunk',
                env=dict(sum=sum, abs=abs, len=len, range=range)),
)
