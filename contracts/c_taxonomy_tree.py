"""cell_type_mapper.taxonomy.taxonomy_tree.TaxonomyTree  (C10, C17.a, C01.e)

The object is the record `TaxTree`: `_data` (the blob, see c_taxonomy_utils) and
`_child_to_parent`.  Class invariant INV = wf_tree(self._data) and
`_child_to_parent[H[k]][c] == p  <=>  c in _data[H[k-1]][p]` (established by __init__ through
validate_taxonomy_tree / get_child_to_parent; see S-9 / S-10 for the two clauses of wf_tree the
validator does not enforce).
"""
import itertools

from pyvc.contracts import contract
from pyvc.types import record
from contracts.c_taxonomy_utils import (wf_tree, c2p_clauses, enum_trees, gen_tree, REF_ENV, BOUND,
                                        _with_random, ref_children_chain, ref_leaves, ref_wf,
                                        KEYS_OK, V_)

record('TaxTree', _data='Tree', _child_to_parent='Dict[Name,Dict[Name,Name]]')

M = 'cell_type_mapper.taxonomy.taxonomy_tree.TaxonomyTree.'
D = "self._data"
HS = "self._data['hierarchy']"
INV_TREE = [c.replace(V_, D) for c in KEYS_OK] + wf_tree(D)      # the part about the blob alone
INV = INV_TREE + c2p_clauses(D, "self._child_to_parent", '1', total=True)


def inv_of(obj):
    """the class invariant, stated of the object expression `obj`"""
    return [c.replace('self.', obj + '.') for c in INV]


def _mk(tree):
    from cell_type_mapper.taxonomy.taxonomy_tree import TaxonomyTree
    import warnings
    class _Tree(TaxonomyTree):
        def __repr__(self):
            return f"TaxonomyTree({self._data!r})"
    with warnings.catch_warnings():
        warnings.simplefilter('ignore')
        return _Tree(data=tree)


def _inv_native(self):
    """class invariant, by brute force (native layer)"""
    t = self._data
    if not ref_wf(t):
        return False
    H = t['hierarchy']
    want = {}
    for up, dn in zip(H[:-1], H[1:]):
        want[dn] = {c: p for p in t[up] for c in t[up][p]}
    return self._child_to_parent == want


def _desc_nodes(t, level, node, target):
    return set(ref_children_chain(t, level, node, target))


BOUND4 = BOUND.replace('<= 5 leaves', '<= 4 leaves')     # proved functions: native cross-check only
TREE_ENV = dict(REF_ENV, inv=_inv_native, desc_nodes=_desc_nodes, isinstance=isinstance, dict=dict,
                any=any, all=all, range=range, zip=zip)


# ---------------------------------------------------------------------------------------------
# _drop_level / flatten  (C10 "preserve the leaf set and each leaf's ancestor", C17.a)
# ---------------------------------------------------------------------------------------------
def _enum_drop(size, max_leaves=5):
    for t in enum_trees(max_leaves=max_leaves):
        obj = _mk(t)
        for lvl in list(t['hierarchy']) + ['not_a_level']:
            for allow in (False, True):
                yield dict(self=obj, level_to_drop=lvl, allow_leaf=allow)


def _gen_drop(rng, size):
    t = gen_tree(rng, size + 2)
    return dict(self=_mk(t), level_to_drop=rng.choice(t['hierarchy'] + ['zz']), allow_leaf=rng.random() < 0.5)


RH = "result._data['hierarchy']"
contract(
    M + '_drop_level',
    properties=['C10', 'C17'],
    mode='bounded', self_type='TaxTree',
    native=dict(enumerate=_with_random(_enum_drop, _gen_drop), env=TREE_ENV, bound=BOUND, max_enumerated=400000),
    params=dict(self='TaxTree', level_to_drop='Name', allow_leaf='Bool'),
    returns='TaxTree',
    requires=["inv(self)"],
    raises={'RuntimeError': ('iff', f"len({HS}) == 1 or level_to_drop not in {HS} or "
                                    f"(level_to_drop == {HS}[-1] and not allow_leaf)")},
    ensures=[
        "inv(result)",
        f"{RH} == [l for l in {HS} if l != level_to_drop]",
        "self._data == old(self._data) and self._child_to_parent == old(self._child_to_parent)",
        # nodes of every remaining level are the same
        f"all(set(result._data[l]) == set({D}[l]) for l in {RH})",
        # structural equality with the tree obtained by composing the child relation across the
        # dropped level: children at the next remaining level = descendants at that level
        f"all(sorted(result._data[{RH}[k]][n]) == sorted(desc_nodes({D}, {RH}[k], n, {RH}[k + 1])) "
        f"for k in range(len({RH}) - 1) for n in result._data[{RH}[k]])",
        # leaf level kept: same leaves with the same rows, same leaves below every remaining node
        f"level_to_drop == {HS}[-1] or (result._data[{RH}[-1]] == {D}[{HS}[-1]] and "
        f"all(set(ref_leaves(result._data, l, n)) == set(ref_leaves({D}, l, n)) for l in {RH} for n in {D}[l]))",
        # leaf level dropped: the new leaves own exactly the rows of the leaves they had
        f"level_to_drop != {HS}[-1] or all(sorted(result._data[{RH}[-1]][n]) == "
        f"sorted(r for c in {D}[{HS}[-2]][n] for r in {D}[{HS}[-1]][c]) for n in {D}[{HS}[-2]])",
    ],
)


def _enum_drop4(size):
    return _enum_drop(size, max_leaves=4)


def _enum_self(size):
    for t in enum_trees(max_leaves=4):
        yield dict(self=_mk(t))


contract(
    M + 'flatten',
    properties=['C10', 'C17'], self_type='TaxTree',
    native=dict(enumerate=_with_random(_enum_self, lambda rng, size: dict(self=_mk(gen_tree(rng, size + 2)))),
                env=TREE_ENV, bound=BOUND4),
    params=dict(self='TaxTree'),
    returns='TaxTree',
    requires=INV,
    ensures=inv_of('result') + [
        # one level: the leaves, with their rows; every coarser level is gone; self untouched
        f"{RH} == [{HS}[-1]]",
        f"result._data[{HS}[-1]] == {D}[{HS}[-1]]",
        f"all(l == {HS}[-1] or l not in result._data for l in {HS})",
        "self._data == old(self._data) and self._child_to_parent == old(self._child_to_parent)",
    ],
    loops={0: [f"new_data['hierarchy'] == [{HS}[-1]]",
               f"all(iff(l in new_data, all(l != {HS}[j] for j in range(_i))) for l in {D})",
               f"all(l in {D} for l in new_data)",
               f"all(new_data[l] == {D}[l] for l in new_data if l != 'hierarchy' and l != 'metadata')"]},
)


# ---------------------------------------------------------------------------------------------
# accessors: hierarchy / leaf_level / children / parents   (C10 "parent and child queries are
# mutually inverse")
# ---------------------------------------------------------------------------------------------
contract(M + 'hierarchy', properties=['C10'], self_type='TaxTree', params=dict(self='TaxTree'),
         returns='List[Name]', ensures=[f"result == {HS}", "self._data == old(self._data)"],
         native=dict(enumerate=_enum_self, call=lambda self: self.hierarchy, env=TREE_ENV, bound=BOUND4))

contract(M + 'leaf_level', properties=['C10'], self_type='TaxTree', params=dict(self='TaxTree'),
         returns='Name', requires=[f"len({HS}) >= 1"], ensures=[f"result == {HS}[-1]"],
         native=dict(enumerate=_enum_self, call=lambda self: self.leaf_level, env=TREE_ENV, bound=BOUND4))


def _enum_node_of(size):
    for t in enum_trees(max_leaves=4):
        obj = _mk(t)
        for lvl in t['hierarchy']:
            for n in list(t[lvl]) + ['nope']:
                yield dict(self=obj, level=lvl, node=n)
        yield dict(self=obj, level='nolevel', node='x0')
        yield dict(self=obj, level=None, node=None)


def _gen_node_of(rng, size):
    t = gen_tree(rng, size + 2)
    lvl = rng.choice(t['hierarchy'])
    return dict(self=_mk(t), level=lvl, node=rng.choice(list(t[lvl])))


# children(level, node): the listed children, in the listed order; RuntimeError for an unknown
# level / node.  (level, node) = (None, None) = the top-level nodes is exercised natively only:
# the symbolic types are plain names.
contract(
    M + 'children',
    properties=['C10', 'C17'], self_type='TaxTree',
    native=dict(enumerate=_with_random(_enum_node_of, _gen_node_of), env=TREE_ENV, bound=BOUND4),
    params=dict(self='TaxTree', level='Name', node='Name'),
    returns='List[Name]',
    # typing restriction of the blob model: 'hierarchy' is not a level (natively
    # children('hierarchy', <level name>) dies with TypeError instead of RuntimeError)
    requires=wf_tree(D, ('levels',)) + ["level != 'hierarchy'"],
    raises={'RuntimeError': ('iff', f"not (level is None and node is None) and "
                                    f"(level not in {D} or node not in {D}[level])")},
    ensures=[f"(level is None and node is None) or result == {D}[level][node]",
             f"not (level is None and node is None) or (dupfree(result) and "
             f"all(n in {D}[{HS}[0]] for n in result) and all(n in result for n in {D}[{HS}[0]]))",
             "self._data == old(self._data)"],
)


def _imp(a, b):
    return f"(not ({a}) or ({b}))"


_AT = f"{HS}[k] == level"      # k = index of `level`
_KJ = f"for k in range(len({HS})) for j in range(len({HS}))"
PARENTS_POST = [
    # the ancestors are given for exactly the levels above `level` ...
    f"all({_imp(_AT + ' and j < k', f'{HS}[j] in result and result[{HS}[j]] in {D}[{HS}[j]]')} {_KJ})",
    f"all(any({_AT} and j < k and l == {HS}[j] {_KJ}) for l in result)",
    # ... and form the chain of parents: inverse of children()
    f"all({_imp(_AT + ' and k >= 1', f'node in {D}[{HS}[k - 1]][result[{HS}[k - 1]]]')} for k in range(len({HS})))",
    f"all({_imp(_AT + ' and j + 1 < k', f'first_index({D}[{HS}[j]][result[{HS}[j]]], result[{HS}[j + 1]]) < len({D}[{HS}[j]][result[{HS}[j]]])')} {_KJ})",
]
_HI = "some(hierarchy_idx)"
_PL = "parent_level_idx"

contract(
    M + 'parents',
    properties=['C10', 'C01'], self_type='TaxTree',
    native=dict(enumerate=_with_random(lambda size: (a for a in _enum_node_of(size)
                                                     if a['level'] in a['self']._data['hierarchy']
                                                     and a['node'] in a['self']._data[a['level']]),
                                       _gen_node_of), env=TREE_ENV, bound=BOUND4),
    params=dict(self='TaxTree', level='Name', node='Name'),
    returns='Dict[Name,Name]',
    locals=dict(hierarchy_idx='Opt[Int]', this='Dict[Name,Name]'),
    # the part of the class invariant that is used: level names, and the child -> parent table
    requires=wf_tree(D, ('levels',)) + c2p_clauses(D, "self._child_to_parent", '1', total=True)
    + [f"level in {HS}", f"node in {D}[level]"],
    ensures=PARENTS_POST + ["self._data == old(self._data)"],
    loops={
        0: [f"all({HS}[j] != level for j in range(idx))", "hierarchy_idx is None"],
        1: [f"hierarchy_idx is not None and 0 <= {_HI} < len({HS}) and {HS}[{_HI}] == level",
            f"-1 <= {_PL} < {_HI}",
            f"len(this) == {_HI} - 1 - {_PL}",
            f"all({HS}[j] in this and this[{HS}[j]] in {D}[{HS}[j]] for j in range({_PL} + 1, {_HI}))",
            f"all(any(l == {HS}[j] for j in range({_PL} + 1, {_HI})) for l in this)",
            f"implies({_PL} + 1 < {_HI}, first_index({D}[{HS}[{_HI} - 1]][this[{HS}[{_HI} - 1]]], node) < "
            f"len({D}[{HS}[{_HI} - 1]][this[{HS}[{_HI} - 1]]]))",
            f"all(first_index({D}[{HS}[j]][this[{HS}[j]]], this[{HS}[j + 1]]) < len({D}[{HS}[j]][this[{HS}[j]]]) "
            f"for j in range({_PL} + 1, {_HI} - 1))"],
    },
)


# ---------------------------------------------------------------------------------------------
# constructor: establishes the class invariant or raises
# ---------------------------------------------------------------------------------------------
from pyvc.ext.taxonomy import register_constructor   # noqa: E402
from contracts.c_taxonomy_utils import KEYS_OK, NODES_STR, WF_V, V_, _neg, mutate_tree   # noqa: E402


def _sub(clauses, old, new):
    return [c.replace(old, new) for c in clauses]


def _gen_init(rng, size):
    from cell_type_mapper.taxonomy.taxonomy_tree import TaxonomyTree
    return dict(self=TaxonomyTree.__new__(TaxonomyTree), data=mutate_tree(rng, gen_tree(rng, size)))


contract(
    M + '__init__',
    properties=['C10', 'C01', 'C17'], self_type='TaxTree',
    native=dict(gen=_gen_init, env=TREE_ENV),
    params=dict(self='TaxTree', data='Tree'),
    returns='None', mutates=['self'], returns_alias='self',    # alias: value of `TaxonomyTree(...)`
    requires=["'hierarchy' not in data or 'hierarchy' not in data['hierarchy']"],
    # the stored blob is a copy of the argument and the class invariant holds (the two clauses of
    # wf_tree that validate_taxonomy_tree cannot establish - S-9, S-10 - are inherited from its
    # contract, where they are reported)
    ensures=["self._data == data", "data == old(data)"] + INV,
    raises={'RuntimeError': "'hierarchy' not in data or " + _neg(_sub(KEYS_OK, V_, 'data'))
                            + " or not (" + NODES_STR.replace(V_, 'data') + ") or " + _neg(_sub(WF_V, V_, 'data'))},
)

register_constructor('TaxonomyTree', M + '__init__', 'TaxTree')


# ---------------------------------------------------------------------------------------------
# backfill_assignments  (C01 clause e)
# A cell is the hetero dict `Cell`: 'cell_id' plus level -> `Asg`; an `Asg` is the hetero dict with
# the fixed keys 'assignment' / 'directly_assigned' plus the other fields (numbers, runner_up_*
# lists), which are only copied or dropped: their values are opaque.
# ---------------------------------------------------------------------------------------------
from pyvc.ext.taxonomy import register_rec_keys, register_rec_pop    # noqa: E402

record('Asg', assignment='Name', directly_assigned='Bool', _rest='Dict[Name,Opaque]')
record('Cell', cell_id='Name', _rest='Dict[Name,Asg]')
register_rec_keys('Asg')
register_rec_pop('Asg')

A_ = "assignments"
OA = "old(assignments)"
FIX = "('assignment', 'directly_assigned')"


def _inferred_parts(cell, m, c2p="self._child_to_parent"):
    """the facts saying that cell[H[m]] is inferred from cell[H[m + 1]]"""
    up, dn = f"{cell}[{HS}[{m}]]", f"{cell}[{HS}[{m} + 1]]"
    return [f"{up}['assignment'] == {c2p}[{HS}[{m} + 1]][{dn}['assignment']] and "
            f"{up}['directly_assigned'] == False",
            # runner_up_* removed, nothing invented, every other field copied
            f"all(f in {FIX} or (not f.startswith('runner_up') and f in {dn}) for f in {up})",
            f"all(f in {FIX} or f.startswith('runner_up') or (f in {up} and {up}[f] == {dn}[f]) for f in {dn})"]


def _inferred(cell, m):
    return " and ".join(_inferred_parts(cell, m))


BACKFILL_POST = [
    f"len(result) == len({OA})",
    f"all(result[c]['cell_id'] == {OA}[c]['cell_id'] for c in range(len(result)))",
    # every level of the stored tree is present afterwards, nothing else is added
    f"all({HS}[m] in result[c] for c in range(len(result)) for m in range(len({HS})))",
    f"all(l in {OA}[c] or l in {HS} for c in range(len(result)) for l in result[c])",
    # what was there is untouched
    f"all(result[c][l] == {OA}[c][l] for c in range(len(result)) for l in {OA}[c] if l != 'cell_id')",
    # what was missing is inferred from the level below
    f"all({HS}[m] in {OA}[c] or (m + 1 < len({HS}) and {_inferred('result[c]', 'm')}) "
    f"for c in range(len(result)) for m in range(len({HS})))",
]


BACKFILL_MODE = 'full'
_N = f"len({HS})"


def _backfill_inv(lo):
    """state of the cells when, for cell c, the levels H[m], m >= lo (an expression in c), are done"""
    A, O = A_, OA
    cm = f"for c in range(len({A})) for m in range({lo}, {_N})"
    return [
        f"len({A}) == len({O})",
        f"all({A}[c]['cell_id'] == {O}[c]['cell_id'] for c in range(len({A})))",
        f"all({HS}[m] in {A}[c] for c in range(len({A})) for m in range({lo}, {_N}))",
        f"all(l in {O}[c] or any(l == {HS}[m] for m in range({lo}, {_N})) for c in range(len({A})) for l in {A}[c])",
        f"all(l in {A}[c] and {A}[c][l] == {O}[c][l] for c in range(len({A})) for l in {O}[c] if l != 'cell_id')",
    ] + [
        f"all({HS}[m] in {O}[c] or ({part}) for c in range(len({A})) for m in range({lo}, {_N} - 1))"
        for part in _inferred_parts(A + '[c]', 'm')
    ] + [
        f"all({A}[c][{HS}[m]]['assignment'] in {D}[{HS}[m]] for c in range(len({A})) "
        f"for m in range({_N}) if {HS}[m] in {A}[c])",
    ]


_REV = [f"len(reverse_hierarchy) == {_N}",
        f"all(reverse_hierarchy[j] == {HS}[{_N} - 1 - j] for j in range({_N}))"]
_HERE = [f"0 <= _i0 < {_N} - 1", f"child_level == {HS}[{_N} - 1 - _i0]", f"parent_level == {HS}[{_N} - 2 - _i0]"]
_SRC = "cell[child_level]"
BACKFILL_LOOPS = {
    0: _REV + _backfill_inv(f"{_N} - 1 - _i"),
    1: _HERE + _backfill_inv(f"{_N} - 1 - _i0 - (1 if c < _i else 0)"),
    2: [f"child_level in cell and parent_level not in cell",
        f"new_data['assignment'] == {_SRC}['assignment'] and new_data['directly_assigned'] == {_SRC}['directly_assigned']",
        "dupfree(new_keys)",
        "all(new_keys[j] in new_data for j in range(_i, len(new_keys)))",
        f"all(first_index(new_keys, f) < len(new_keys) for f in {_SRC})",
        f"all(f in {_SRC} and (f in {FIX} or new_data[f] == {_SRC}[f]) for f in new_data)",
        f"all(f in {FIX} or iff(f in new_data, not (f.startswith('runner_up') and first_index(new_keys, f) < _i)) "
        f"for f in {_SRC})"],
}


def _gen_cells(rng, t, subsets=None):
    H = t['hierarchy']
    leaves = list(t[H[-1]])
    parent = {}
    for up, dn in zip(H[:-1], H[1:]):
        for p, kids in t[up].items():
            for k in kids:
                parent[(dn, k)] = p
    cells = []
    for i in range(rng.randint(0, 4)):
        node = rng.choice(leaves)
        cell = {'cell_id': f"cell{i}"}
        for k in range(len(H) - 1, -1, -1):
            if k == len(H) - 1 or rng.random() < 0.5:
                asg = {'assignment': node, 'directly_assigned': True,
                       'bootstrapping_probability': rng.random(), 'avg_correlation': rng.random()}
                if rng.random() < 0.7:
                    asg.update(runner_up_assignment=['q'], runner_up_correlation=[0.1], runner_up_probability=[0.2])
                if rng.random() < 0.3:
                    asg['aggregate_probability'] = rng.random()
                cell[H[k]] = asg
            if k > 0:
                node = parent[(H[k], node)]
        cells.append(cell)
    return cells


def _enum_backfill(size):
    import random
    rng = random.Random(3)
    for t in enum_trees(max_leaves=4):
        H = t['hierarchy']
        obj = _mk(t)
        for mask in itertools.product((False, True), repeat=len(H) - 1):
            cells = []
            for j, leaf in enumerate(t[H[-1]]):
                full = _gen_cells(random.Random(j), t)
                base = {'cell_id': f"c{j}"}
                # walk up from this leaf
                node = leaf
                for k in range(len(H) - 1, -1, -1):
                    if k == len(H) - 1 or mask[k]:
                        base[H[k]] = {'assignment': node, 'directly_assigned': True, 'avg_correlation': 0.5,
                                      'runner_up_assignment': [], 'runner_up_probability': []} \
                            if (j + k) % 2 == 0 else {'assignment': node, 'directly_assigned': True,
                                                      'bootstrapping_probability': 1.0}
                    if k > 0:
                        node = [p for p, kids in t[H[k - 1]].items() if node in kids][0]
                cells.append(base)
            yield dict(self=obj, assignments=cells)


def _gen_backfill(rng, size):
    t = gen_tree(rng, size + 2)
    return dict(self=_mk(t), assignments=_gen_cells(rng, t))


contract(
    M + 'backfill_assignments',
    properties=['C01', 'C17', 'C03'], self_type='TaxTree',
    mode=BACKFILL_MODE, loops=BACKFILL_LOOPS, locals=dict(new_keys='List[Name]'),
    native=dict(enumerate=_with_random(_enum_backfill, _gen_backfill, n_random=1500), env=TREE_ENV,
                bound="every tree shape with <= 3 levels and <= 4 leaves x every subset of coarser levels present, one cell per leaf; plus 1500 random"),
    params=dict(self='TaxTree', assignments='List[Cell]'),
    returns='List[Cell]', returns_alias='assignments', mutates=['assignments'],
    # of the class invariant only the level names and the child -> parent table are used
    requires=wf_tree(D, ('levels',)) + [c for c in c2p_clauses(D, "self._child_to_parent", '1', total=True)
                                       if 'for i in range' not in c] + [
        f"all({HS}[m] != 'cell_id' for m in range(len({HS})))",
        # what callers guarantee (C01.d): every cell carries the leaf level, and every level it
        # carries names a node of that level
        f"all({HS}[-1] in {A_}[c] for c in range(len({A_})))",
        f"all({A_}[c][{HS}[m]]['assignment'] in {D}[{HS}[m]] for c in range(len({A_})) "
        f"for m in range(len({HS})) if {HS}[m] in {A_}[c])",
    ],
    ensures=BACKFILL_POST + ["self._data == old(self._data) and self._child_to_parent == old(self._child_to_parent)"],
)


# second view of the constructor: a well-formed blob is accepted (no exception) and the class
# invariant holds.  Callers that build a blob (flatten, _drop_level) use this view so that every
# clause of wf_tree(new blob) is a separate, named obligation at the call.
contract(
    M + '__init__#wf',
    properties=['C10', 'C17'], self_type='TaxTree',
    params=dict(self='TaxTree', data='Tree'),
    returns='None', mutates=['self'], returns_alias='self',
    requires=_sub(KEYS_OK, V_, 'data') + _sub(WF_V, V_, 'data'),
    ensures=["self._data == data", "data == old(data)"] + INV,
)


# ---------------------------------------------------------------------------------------------
# _drop_level, proved by cases (views of the same body; together they cover every input):
#   #guards : the three refusals (flat tree, unknown level, leaf level without allow_leaf)
#   #top    : level_to_drop == H[0]
#   #middle : level_to_drop == H[k], 0 < k < len(H) - 1
#   #leaf   : level_to_drop == H[-1] with allow_leaf
# Structural post-condition (determines the leaf sets and ancestors at the remaining levels, which
# the bounded base contract above checks explicitly): the hierarchy loses exactly that level, every
# node table except the one just above the dropped level is identical, and a node just above lists
# - once each - exactly the children of its children (`owner_index(d, ks, x) < len(ks)`: x is listed
# in d[k] for one of the keys k of ks; `first_index(xs, x) < len(xs)`: x in xs).
# ---------------------------------------------------------------------------------------------
L_ = "level_to_drop"
RD = "result._data"
DROP_GUARD = f"len({HS}) == 1 or {L_} not in {HS} or ({L_} == {HS}[-1] and not allow_leaf)"
_ATK = f"{HS}[k] == {L_}"
DROP_POST = inv_of('result') + [
    f"len({RH}) == len({HS}) - 1",
    f"all({_imp(_ATK + ' and j < k', f'{RH}[j] == {HS}[j]')} {_KJ})",
    f"all({_imp(_ATK + ' and k <= j and j + 1 < len(' + HS + ')', f'{RH}[j] == {HS}[j + 1]')} {_KJ})",
    # every node table except the one just above the dropped level is identical
    f"all({_imp(f'{HS}[m] != {L_} and not (m + 1 < len({HS}) and {HS}[m + 1] == {L_})', f'{RD}[{HS}[m]] == {D}[{HS}[m]]')} "
    f"for m in range(len({HS})))",
    "self._data == old(self._data) and self._child_to_parent == old(self._child_to_parent)",
]
_UP = f"{D}[{HS}[k - 1]]"
_RUP = f"{RD}[{HS}[k - 1]]"
_GK = f"{D}[{L_}][{_UP}[n][i]]"         # children of the i-th child of n
_KK = f"for k in range(1, len({HS})) if {_ATK}"
DROP_POST_ABOVE = [
    # the level just above: same nodes; each lists exactly the children of its children, once
    f"all(n in {_RUP} {_KK} for n in {_UP})", f"all(n in {_UP} {_KK} for n in {_RUP})",
    f"all(dupfree({_RUP}[n]) {_KK} for n in {_UP})",
    f"all(first_index({_RUP}[n], {_GK}[j]) < len({_RUP}[n]) "
    f"{_KK} for n in {_UP} for i in range(len({_UP}[n])) for j in range(len({_GK})))",
    f"all(owner_index({D}[{L_}], {_UP}[n], {_RUP}[n][q]) < len({_UP}[n]) "
    f"{_KK} for n in {_UP} for q in range(len({_RUP}[n])))",
]

# loop 0 (search of the level index) also records what the copy looks like after the metadata
# bookkeeping: same hierarchy, same node tables
_DROP_LOOP0 = [f"all({HS}[j] != {L_} for j in range(_i))", "level_idx == -1",
               f"new_data['hierarchy'] == {HS}",
               f"all(l in new_data for l in {D})", f"all(l in {D} for l in new_data)",
               f"all(new_data[l] == {D}[l] for l in {D} if l != 'hierarchy' and l != 'metadata')"]


_DROP_COMMON = dict(
    properties=['C10', 'C17'], self_type='TaxTree',
    params=dict(self='TaxTree', level_to_drop='Name', allow_leaf='Bool'),
    returns='TaxTree', ghost=dict(ctor_view='wf'),
    locals=dict(new_parent='Dict[Name,List[Name]]'),
)

contract(
    M + '_drop_level#guards', **_DROP_COMMON,
    native=dict(enumerate=_enum_drop4, env=TREE_ENV, bound=BOUND4, max_enumerated=400000),
    requires=INV_TREE + [DROP_GUARD],
    raises={'RuntimeError': ('iff', DROP_GUARD)},
    ensures=["False"],
)

contract(
    M + '_drop_level#top', **_DROP_COMMON,
    native=dict(enumerate=_enum_drop4, env=TREE_ENV, bound=BOUND4, max_enumerated=400000),
    requires=INV_TREE + [f"len({HS}) >= 2", f"{L_} == {HS}[0]"],
    ensures=DROP_POST,
    loops={0: _DROP_LOOP0},
)


def _drop_loops():
    PL = f"{D}[parent_level]"
    DL = f"{D}[{L_}]"
    done = lambda n: [     # noqa: E731   facts about a finished node n of the level above
        f"dupfree(new_parent[{n}])",
        f"all(first_index(new_parent[{n}], {DL}[{PL}[{n}][i]][j]) < len(new_parent[{n}]) "
        f"for i in range(len({PL}[{n}])) for j in range(len({DL}[{PL}[{n}][i]])))",
        f"all(owner_index({DL}, {PL}[{n}], new_parent[{n}][q]) < len({PL}[{n}]) for q in range(len(new_parent[{n}])))",
    ]
    seen = "_seen1"
    all_seen = [f"all(n in new_parent for n in {seen})", f"all(n in {seen} for n in new_parent)"] + \
               [f"all({c} for n in {seen})" for c in done('n')]
    return {
        0: _DROP_LOOP0,
        1: [c.replace('_seen1', '_seen') for c in all_seen],
        2: [all_seen[0], f"all(n in {seen} or n == node for n in new_parent)"] + all_seen[2:] + [
            f"node in {PL} and node not in {seen} and node in new_parent",
            f"len(_it) == len({PL}[node]) and all(_it[i] == {PL}[node][i] for i in range(len(_it)))",
            "dupfree(new_parent[node])",
            f"all(first_index(new_parent[node], {DL}[{PL}[node][i]][j]) < len(new_parent[node]) "
            f"for i in range(_i) for j in range(len({DL}[{PL}[node][i]])))",
            f"all(owner_index({DL}, {PL}[node], new_parent[node][q]) < _i for q in range(len(new_parent[node])))",
        ],
    }


contract(
    M + '_drop_level#middle', **_DROP_COMMON,
    # proved (104 obligations) but one of them - "every node has a parent" for the levels not touched
    # by the drop - needs the 4x retry (~60 s) in two runs out of three: kept as a bounded check
    mode='bounded',
    native=dict(enumerate=_enum_drop, env=TREE_ENV, bound=BOUND, max_enumerated=400000),
    requires=INV_TREE + [f"any({HS}[k] == {L_} for k in range(1, len({HS}) - 1))"],
    ensures=DROP_POST + DROP_POST_ABOVE,
    loops=_drop_loops(),
)

contract(
    M + '_drop_level#leaf', **_DROP_COMMON,
    native=dict(enumerate=_enum_drop4, env=TREE_ENV, bound=BOUND4, max_enumerated=400000),
    requires=INV_TREE + [f"len({HS}) >= 2", f"{L_} == {HS}[-1]", "allow_leaf"],
    ensures=DROP_POST + DROP_POST_ABOVE,
    loops=_drop_loops(),
)


# ---------------------------------------------------------------------------------------------
# C10 ("serialising then re-reading preserves ..."): the constructors that read a tree from a file
# return the tree that is in the file NOW.  Bounded: random trees written, one after the other, to the
# SAME path (a history: what was read from that path earlier must not matter) and read back through
# from_precomputed_stats / from_json_file / from_str.
# ---------------------------------------------------------------------------------------------
_REREAD_DIR = []


def _reread_dir():
    import atexit
    import shutil
    import tempfile
    if not _REREAD_DIR:
        d = tempfile.mkdtemp(prefix='verif_reread_', dir='/tmp')
        _REREAD_DIR.append(d)
        atexit.register(shutil.rmtree, d, True)
    return _REREAD_DIR[0]


def _reread(tree, how):
    """write `tree` (a valid tree dict) to the one path used for `how`, read it back"""
    import json
    import os
    import warnings
    import h5py
    from cell_type_mapper.taxonomy.taxonomy_tree import TaxonomyTree
    d = _reread_dir()
    with warnings.catch_warnings():
        warnings.simplefilter('ignore')
        text = json.dumps(tree)          # written as it is: the reader has to validate what it reads
        if how == 'stats':
            p = os.path.join(d, f'stats_{os.getpid()}.h5')
            with h5py.File(p, 'w') as f:
                f.create_dataset('taxonomy_tree', data=text.encode('utf-8'))
            back = TaxonomyTree.from_precomputed_stats(p)
        elif how == 'json':
            p = os.path.join(d, f'tree_{os.getpid()}.json')
            with open(p, 'w') as f:
                f.write(text)
            back = TaxonomyTree.from_json_file(p)
        else:
            back = TaxonomyTree.from_str(text)
    return json.loads(back.to_str())


def _gen_reread(rng, size):
    import copy
    import warnings
    from cell_type_mapper.taxonomy.taxonomy_tree import TaxonomyTree
    for _ in range(200):
        t = gen_tree(rng, size + 2)
        if rng.random() < 0.4:
            t = mutate_tree(rng, t)          # one-edit malformed variants: the readers must refuse them
        try:
            with warnings.catch_warnings():
                warnings.simplefilter('ignore')
                TaxonomyTree(data=copy.deepcopy(t))
            ok = True
        except RuntimeError:
            ok = False
        except Exception:      # noqa  (blobs outside the typing restriction of the validator's contract)
            continue
        try:
            wf = bool(REF_ENV['ref_wf'](t))
        except Exception:      # noqa  (no 'hierarchy' entry etc.: outside this contract)
            continue
        if ok == wf:
            return dict(tree=t, how=rng.choice(['stats', 'stats', 'json', 'str']))
    return dict(tree=gen_tree(rng, 2, n_levels=1), how='str')


contract(
    M + 'from_precomputed_stats#reread',
    properties=['C10'], mode='bounded',
    native=dict(call=_reread, gen=_gen_reread, env=dict(REF_ENV, json=__import__('json')),
                bound='random valid and one-edit malformed trees (<= 5 levels) written one after the other to the same HDF5 / JSON path and '
                      'read back (from_precomputed_stats, from_json_file, from_str)'),
    params=dict(tree='Opaque', how='Name'),
    returns='Opaque',
    ensures=[
        "result['hierarchy'] == tree['hierarchy']",
        "all(dict((n, list(result[l][n])) for n in result[l]) == dict((n, list(tree[l][n])) for n in tree[l]) "
        "for l in tree['hierarchy'])",
    ],
    # a tree that is not a strict tree is refused by every reader, exactly as by the constructor
    raises={'RuntimeError': ('iff', "not ref_wf(tree)")},
)


# ---------------------------------------------------------------------------------------------
# C04 / C10: the serialised taxonomy is a function of the tree, not of the iteration order of the sets
# that a tree built from label columns holds as children lists (which follows PYTHONHASHSEED): sets are
# written as sorted lists.
# ---------------------------------------------------------------------------------------------
def _to_str_from_labels(obs_records, column_hierarchy):
    import copy
    import json
    import warnings
    from cell_type_mapper.taxonomy.utils import get_taxonomy_tree
    from cell_type_mapper.taxonomy.taxonomy_tree import TaxonomyTree
    with warnings.catch_warnings():
        warnings.simplefilter('ignore')
        tree = TaxonomyTree(data=get_taxonomy_tree(copy.deepcopy(obs_records), list(column_hierarchy)))
        return json.loads(tree.to_str())


def _gen_valid_labels(rng, size):
    from contracts.c_taxonomy_utils import _gen_label_table, ref_label_tree
    for _ in range(100):
        g = _gen_label_table(rng, size)
        if ref_label_tree(g['obs_records'], g['column_hierarchy']):
            return g
    return dict(obs_records=[{'L0': 'a'}], column_hierarchy=['L0'])


contract(
    M + 'to_str#canonical',
    properties=['C04', 'C10'], mode='bounded',
    native=dict(call=_to_str_from_labels, gen=_gen_valid_labels, env=dict(sorted=sorted, list=list, set=set, str=str),
                bound='random label tables (<= 4 levels, <= 12 cells) -> get_taxonomy_tree -> TaxonomyTree.to_str'),
    params=dict(obs_records='Opaque', column_hierarchy='List[Name]'),
    returns='Opaque',
    ensures=[
        "result['hierarchy'] == column_hierarchy",
        # children built as sets are written in sorted order (a canonical text)
        "all(list(result[column_hierarchy[k]][p]) == sorted(set(result[column_hierarchy[k]][p])) "
        "for k in range(len(column_hierarchy) - 1) for p in result[column_hierarchy[k]])",
    ],
)
