"""cell_type_mapper.validation.validate_h5ad  (C16.c / C16.d)

`_validate_h5ad` is a 250-line plumbing function (h5py, anndata, pandas).  The slice tracks the
paths, the obs index, the cell-id census and the `write_to_new_path` / `mapped_var` / `cast_to_int`
decision variables and proves, on the real AST:

  * duplicate cell ids in obs  =>  RuntimeError (normal return only for duplicate-free ids);
    the census loop really counts (loop invariants), the message loop really finds a count > 1
  * duplicate or empty gene names => RuntimeError, through the trusted + natively checked contract of
    `_check_input_gene_names` (numpy unique / pandas body)
  * a new file is produced (copy_h5_excluding_data reached) only when the layer is not X, or the gene
    names change, or rounding is needed; otherwise the result is (None, ..) and the only file
    operation on the output path is the removal of a stale file
  * frame (D-8, fixed by b03bb4a): whenever `valid_h5ad_path` is given, the path that is written /
    unlinked differs from the input path

Paths are abstract identifiers (A-PATH: Path(x) is x; resolve() is a function of the path).  Two
genes mapping to one identifier (`len(mapped_var) != len(set(...))`, pandas) is covered by
bounded/c16.py (`duplicates`), as are the file contents.
"""
from pyvc.contracts import contract

V = 'cell_type_mapper.validation.validate_h5ad.'
U = 'cell_type_mapper.validation.utils.'

# DataFrame / DfIndex records: contracts/c_output_utils.py (loaded before this module)
import contracts.c_output_utils  # noqa: F401,E402


def _gen_var_df(rng, size):
    import pandas as pd
    from cell_type_mapper.cli.cli_log import CommandLog
    pool = ['g1', 'g2', 'g3', 'Xkr4', '', 'ENSG001', 'a,b']
    n = rng.randint(1, size + 2)
    names = [rng.choice(pool) for _ in range(n)] if rng.random() < 0.5 else rng.sample(pool, min(n, len(pool)))
    df = pd.DataFrame({'gene': names, 'x': list(range(len(names)))}).set_index('gene')
    return dict(var_df=df, log=(CommandLog() if rng.random() < 0.3 else None))


contract(
    V + '_check_input_gene_names',
    properties=['C16'], trusted=True,
    native=dict(gen=_gen_var_df),
    params=dict(var_df='DataFrame', log='Opaque'),
    returns='None',
    raises={'RuntimeError': ('iff', "not dupfree(var_df.index.values) or "
                                    "any(var_df.index.values[i] == '' for i in range(len(var_df.index.values)))")},
    ensures=[],
    note="np.unique(return_counts=True) / np.where / pandas index: outside the prover; the exact raise "
         "condition is checked natively (log.error raises RuntimeError as well)",
)

contract(
    U + 'map_gene_ids_in_var',
    properties=['C16'], trusted=True,
    params=dict(var_df='DataFrame', gene_id_mapper='Opaque', log='Opaque'),
    returns='Tuple[Opt[DataFrame],Int]', raises={'RuntimeError': True}, ensures=[],
    note="pandas body around GeneIdMapper.map_gene_identifiers (proved, c_gene_id_mapper.py); returns "
         "(None, 0) iff no name changes - checked on files by bounded/c16.py",
)

contract(
    U + 'is_x_integers',
    properties=['C16'], trusted=True,
    params=dict(h5ad_path='Name', layer='Name'), returns='Bool',
    raises={'RuntimeError': True, 'ValueError': True}, ensures=[],
    note="h5py dispatch to _is_dense_x_integers / _is_sparse_x_integers (slices proved, c_validation_utils.py)",
)

# The dispatch itself is small enough for a view: whichever helper is called receives, by keyword, the
# tolerance 1e-10 - the helpers' own defaults differ (1e-10 dense, 1e-6 sparse) and their contracts
# (c_validation_utils.py) are parametric in eps, so "X is taken for integers only if every value is
# within 1e-10 of one" needs this link (seeded change C16_9 dropped the keyword).  On a return path
# the argument of the helper that was not called is an arbitrary value (arg_of), hence the `or`.
contract(
    U + 'is_x_integers#eps',
    properties=['C16'], mode='slice', unexpected_exceptions='allowed',
    tracked=['encoding_type'],
    params={},
    ghost=dict(capture_calls=['_is_dense_x_integers', '_is_sparse_x_integers'],
               only_kinds=['ensures']),
    ensures=["arg_of('_is_dense_x_integers', 'eps') == 1e-10 or arg_of('_is_sparse_x_integers', 'eps') == 1e-10"],
    min_obligations=1,
)

OBS = "df_index(h5ad_path, 'obs')"
VAR = "df_index(h5ad_path, 'var')"
NEEDS_CHANGE = "(layer != 'X' or MV is not None or CI)"

contract(
    V + '_validate_h5ad',
    # C19 (inputs untouched): the clauses "an output path that names the input file is refused" and
    # "the written path differs from the input path" are the validation stage's share of it
    properties=['C16', 'C19'], mode='slice', unexpected_exceptions='allowed',
    tracked=['h5ad_path', 'original_h5ad_path', 'new_h5ad_path', 'valid_h5ad_path', 'output_dir',
             'obs_original', 'var_original', 'cell_id_census', 'cell_id', 'msg', 'write_to_new_path',
             'mapped_var', 'cast_to_int', 'is_int', 'round_to_int', 'layer', 'output_path', 'x_minmax'],
    params=dict(h5ad_path='Name', gene_id_mapper='Opaque', log='Opaque', expected_max='Opaque',
                tmp_dir='Opaque', layer='Name', round_to_int='Bool', output_dir='Opt[Name]',
                valid_h5ad_path='Opt[Name]'),
    locals=dict(cell_id_census='Dict[Name,Int]', new_h5ad_path='Name', msg='Name'),
    returns='Tuple[Opt[Name],Opaque]',
    raises={'RuntimeError': True,
            # only a layer without any value (S-13 fixed for sparse layers; left: a dense layer with an
            # empty shape) makes get_minmax_x_from_h5ad return (None, None) and the comparison raise
            'TypeError': "not x_has_values(h5ad_path, layer)"},
    must_raise=[
        # duplicate cell identifiers are rejected
        f"not dupfree({OBS})",
        # duplicate or empty gene names are rejected
        f"not dupfree({VAR})",
        f"any({VAR}[i] == '' for i in range(len({VAR})))",
        # exactly one of valid_h5ad_path / output_dir
        "valid_h5ad_path is None and output_dir is None",
        "valid_h5ad_path is not None and output_dir is not None",
        # D-8: the output path must not alias the input
        "valid_h5ad_path is not None and valid_h5ad_path == h5ad_path",
    ],
    inline_asserts={
        "mapped_var, n_unmapped_genes = map_gene_ids_in_var(": ["ghost MV = mapped_var", "ghost CI = cast_to_int"],
        # a new file is written only when a change is needed, and never onto the input
        "copy_h5_excluding_data(": [
            "write_to_new_path", f"{NEEDS_CHANGE}",
            "implies(valid_h5ad_path is not None, new_h5ad_path != original_h5ad_path)"],
        # the only other operation on the output path: removal of a stale file when nothing changes
        "new_h5ad_path.unlink()": [
            "not write_to_new_path", f"not {NEEDS_CHANGE}",
            "implies(valid_h5ad_path is not None, new_h5ad_path != original_h5ad_path)"],
    },
    ensures=[
        # no change needed <=> no path returned
        f"iff(result[0] is None, not {NEEDS_CHANGE})",
        "implies(result[0] is not None and valid_h5ad_path is not None, result[0] == valid_h5ad_path)",
        "implies(result[0] is not None and valid_h5ad_path is not None, result[0] != h5ad_path)",
    ],
    loops={
        # census: keys = ids seen so far, every count >= 1
        0: ["all(_it[j] in cell_id_census for j in range(_i))",
            "all(any(_it[j] == k for j in range(_i)) for k in cell_id_census)",
            "all(cell_id_census[k] >= 1 for k in cell_id_census)",
            # an id met twice has a count > 1 (stated per pair: no existential to find) ...
            "all(implies(a < b and _it[a] == _it[b], cell_id_census[_it[a]] > 1) "
            "for a in range(_i) for b in range(_i))",
            # ... and a count > 1 comes from an id met twice
            "all(implies(cell_id_census[k] > 1, any(a < b and _it[a] == k and _it[b] == k "
            "for a in range(_i) for b in range(_i))) for k in cell_id_census)"],
        # message: non-empty iff a count > 1 was met
        1: ["len(msg) >= 0",
            "iff(len(msg) > 0, any(cell_id_census[k] > 1 for k in _seen))"],
    },
)
