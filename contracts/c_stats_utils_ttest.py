"""cell_type_mapper.utils.stats_utils - Welch test wrapper and Holm correction  (C11.d, C11.e)

Proved from the argsort / maximum.accumulate axioms: shape, range, positivity, "corrected >= raw",
untouched entries of the restricted variant.  The *equality* with the Holm step-down definition
(running maximum of sorted p * (m - rank + 1), clipped at 1) and the agreement of the restricted
variant with the full correction below the threshold need counting ranks; they are BOUNDED here:
exhaustive over all p-vectors on a grid, m <= 5 (views `#holm`).
"""
import itertools

from pyvc.contracts import contract

M = 'cell_type_mapper.utils.stats_utils.'


# ---- independent reference implementations (native side of the bounded views) ------------------
def holm_reference(p, padding=0):
    """Holm-Bonferroni step-down, written from the definition: sort ascending; the k-th smallest
    (k = 1..m) is multiplied by (M - k + 1) with M = m + padding hypotheses; adjusted values are
    made monotone by a running maximum and clipped at 1"""
    m = len(p)
    order = sorted(range(m), key=lambda i: p[i])
    out = [0.0] * m
    running = 0.0
    for k, i in enumerate(order, start=1):
        running = max(running, p[i] * (m + padding - k + 1))
        out[i] = min(1.0, running)
    return out


def _close(a, b, tol=1e-12):
    return len(a) == len(b) and all(abs(float(x) - float(y)) <= tol for x, y in zip(a, b))


def _holm_full_ok(ttest_metric, padding, result):
    return _close(holm_reference(list(ttest_metric), padding), list(result))


def _approx_agrees(ttest_metric, p_th, result):
    """below the threshold (in either) the restricted correction equals the full one; elsewhere
    both are >= p_th"""
    full = holm_reference(list(ttest_metric))
    for f, r in zip(full, result):
        if f < p_th or r < p_th:
            if abs(f - r) > 1e-12:
                return False
    return True


P_GRID = [0.0005, 0.002, 0.004, 0.01, 0.03, 0.2, 0.6, 1.0]


def _enum_p(size):
    for m in range(0, 6):
        for vec in itertools.product(P_GRID, repeat=m) if m <= 4 else \
                itertools.product([0.0005, 0.004, 0.01, 0.03, 0.6], repeat=m):
            yield vec


def _enum_correct(size):
    import numpy as np
    for vec in _enum_p(size):
        for padding in (0, 2):
            yield dict(ttest_metric=np.array(vec, dtype=float), padding=padding)


def _enum_approx(size):
    import numpy as np
    for vec in _enum_p(size):
        for p_th in (0.01, 0.05):
            yield dict(ttest_metric=np.array(vec, dtype=float), p_th=p_th)


def _gen_p(rng, size):
    import numpy as np
    n = rng.randint(0, size + 3)
    return np.array([rng.choice(P_GRID) for _ in range(n)], dtype=float)


# ---- correct_ttest -----------------------------------------------------------------------------
contract(
    M + 'correct_ttest',
    properties=['C11'],
    native=dict(gen=lambda rng, size: dict(ttest_metric=_gen_p(rng, size), padding=rng.choice([0, 0, 1, 3]))),
    params=dict(ttest_metric='Arr[Real]', padding='Int'),
    returns='Arr[Real]',
    requires=["padding >= 0"],
    inline_asserts={
        "t_denom = ": ["all(t_denom[k] >= 1 for k in range(n_p))"],
        "corrected_p = ": ["all(implies(ttest_metric[sorted_t[k]] >= 0, corrected_p[k] >= ttest_metric[sorted_t[k]]) "
                           "for k in range(n_p))"],
        "ordered_p[sorted_t] = ": ["all(ordered_p[sorted_t[k]] == corrected_p[k] for k in range(n_p))",
                                   "all(implies(ttest_metric[g] >= 0, ordered_p[g] >= ttest_metric[g]) "
                                   "for g in range(n_p))"],
    },
    ensures=[
        "len(result) == len(ttest_metric)",
        "all(result[g] <= 1.0 for g in range(len(result)))",
        # a corrected value is never below the raw one (multipliers are >= 1), up to the clip at 1
        "all(implies(ttest_metric[g] >= 0, result[g] >= min(1.0, ttest_metric[g])) for g in range(len(result)))",
        "all(implies(ttest_metric[g] > 0, result[g] > 0) for g in range(len(result)))",
        # (the Bonferroni upper bound result <= (m + padding) * p needs non-linear reasoning that is not
        # stable in z3; it follows from the exact Holm equality checked exhaustively in the view #holm)
        # the input is not modified
        "same(ttest_metric, old(ttest_metric))",
    ],
)

contract(
    M + 'correct_ttest#holm',
    properties=['C11'], mode='bounded',
    native=dict(enumerate=_enum_correct, env=dict(holm_ok=_holm_full_ok), max_enumerated=400000,
                bound='all p-vectors over an 8-value grid, m <= 4 (5-value grid for m = 5), padding in {0,2}'),
    params=dict(ttest_metric='Arr[Real]', padding='Int'),
    returns='Arr[Real]',
    ensures=["holm_ok(ttest_metric, padding, result)"],
)

# ---- approx_correct_ttest ------------------------------------------------------------------------
contract(
    M + 'approx_correct_ttest',
    properties=['C11'],
    native=dict(gen=lambda rng, size: dict(ttest_metric=_gen_p(rng, size), p_th=rng.choice([0.01, 0.05, 0.5]))),
    params=dict(ttest_metric='Arr[Real]', p_th='Real'),
    returns='Arr[Real]',
    ensures=[
        "len(result) == len(ttest_metric)",
        # p-values at or above the threshold are left alone (they fail the cut either way) ...
        "all(implies(ttest_metric[g] >= p_th, result[g] == ttest_metric[g]) for g in range(len(result)))",
        # ... the others are corrected upwards
        "all(implies(ttest_metric[g] < p_th and ttest_metric[g] >= 0, result[g] >= min(1.0, ttest_metric[g])) "
        "for g in range(len(result)))",
        # hence: corrected value below the threshold => raw value below the threshold
        "all(implies(result[g] < p_th and ttest_metric[g] >= 0 and p_th <= 1.0, ttest_metric[g] < p_th) "
        "for g in range(len(result)))",
        "all(implies(ttest_metric[g] > 0, result[g] > 0) for g in range(len(result)))",
        "all(implies(ttest_metric[g] <= 1.0, result[g] <= 1.0) for g in range(len(result)))",
        "same(ttest_metric, old(ttest_metric))",
    ],
)

contract(
    M + 'approx_correct_ttest#holm',
    properties=['C11'], mode='bounded',
    native=dict(enumerate=_enum_approx, env=dict(agrees=_approx_agrees), max_enumerated=400000,
                bound='all p-vectors over an 8-value grid, m <= 4 (5-value grid for m = 5), p_th in {0.01,0.05}'),
    params=dict(ttest_metric='Arr[Real]', p_th='Real'),
    returns='Arr[Real]',
    ensures=["agrees(ttest_metric, p_th, result)"],
)


# ---- welch_t_test (scipy CDF: trusted, natively checked) -------------------------------------------
def _gen_welch(rng, size):
    import numpy as np
    n = rng.randint(0, size + 3)
    def arr(grid):
        return np.array([rng.choice(grid) for _ in range(n)], dtype=float)
    bt = rng.choice([None, None, 2.5, 0.5])
    return dict(mean1=arr([0.0, 1.0, 2.0, 5.0]), var1=arr([0.0, 0.0, 0.5, 2.0]), n1=rng.choice([1, 2, 3, 10, 500]),
                mean2=arr([0.0, 1.0, 2.0, 5.0]), var2=arr([0.0, 0.0, 0.5, 2.0]), n2=rng.choice([1, 2, 3, 10, 500]),
                boring_t=bt, big_nu=rng.choice([None, 5.0, 10000.0]) if bt is not None else None)


contract(
    M + 'welch_t_test',
    properties=['C11'], trusted=True,
    native=dict(gen=_gen_welch),
    params=dict(mean1='Arr[Real]', var1='Arr[Real]', n1='Int', mean2='Arr[Real]', var2='Arr[Real]',
                n2='Int', boring_t='Opt[Real]', big_nu='Opt[Real]'),
    returns='Tuple[Arr[Real],Arr[Real],Arr[Real]]',
    requires=["len(mean1) == len(var1) and len(mean1) == len(mean2) and len(mean1) == len(var2)"],
    ensures=[
        # one two-sided p-value per gene, inside (0, 1] (the CDF is clipped away from 0 and 1;
        # NaN statistics - zero variance, one cell - become CDF 0.5, p = 1)
        "len(result[2]) == len(mean1)",
        "all(0 < result[2][g] <= 1 for g in range(len(mean1)))",
    ],
    note="body is scipy.stats t / normal CDF evaluation; the Welch statistic itself is compared with an "
         "independent recomputation in bounded/c11.py",
)
