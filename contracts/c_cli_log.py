"""cell_type_mapper.cli.cli_log.CommandLog.write_log (C20: the separate log file).

What reaches the file: ghost `unsafe_writes` counts `write` calls whose text is not sanitised;
`sanitized` is established only by cloud_utils.sanitize_paths, is inherited by the elements of a
sanitised container and by text built from sanitised text and literals."""
from pyvc.contracts import contract
from pyvc.types import record

record('CLog', _log='Opaque', t0='Opaque', _aliases=dict(log='_log'))

contract(
    'cell_type_mapper.cli.cli_log.CommandLog.write_log',
    properties=['C20'], self_type='CLog',
    mode='slice', unexpected_exceptions='allowed',
    tracked=['self', 'to_write', 'cloud_safe', 'line', 'out_file'],
    params=dict(cloud_safe='Bool'),
    ghost=dict(vars=dict(unsafe_writes='Int'), mutators=['write']),
    ensures=["implies(cloud_safe, unsafe_writes == 0)"],
    loops={0: ["implies(cloud_safe, unsafe_writes == 0)", "implies(cloud_safe, sanitized(to_write))"]},
    min_obligations=2,
)
