"""cell_type_mapper.utils.distance_utils  (C02.e, C06.b)

`pcorr(B, r, Q, q)` is the specification-level Pearson correlation between row r of B and row
q of Q (0 when either row is constant - the convention of `_subtract_mean_and_normalize_cpu`).
It is uninterpreted in proofs and recomputed directly with numpy in the native layer.

Proved: the arg-max bookkeeping of `_correlation_nearest_neighbors_cpu` over the contract of
`correlation_dot`.  Bounded (native recomputation on small matrices): the numerical kernels
`_correlation_dot_cpu`, `_subtract_mean_and_normalize_cpu` (float rounding is outside A-REAL).
The dispatchers (`correlation_nearest_neighbors`, `correlation_dot`) are trusted to take the CPU
path: torch is absent in the verified configuration (assumption `GPU/torch code paths are not
verified`).
"""
from pyvc.contracts import contract, REGISTRY
import pyvc.ext.election as _ext

_ext.install()

M = 'cell_type_mapper.utils.distance_utils.'
TOL = 1e-9


def _gen_pair(rng, size, rows_min=1):
    import numpy as np
    n_genes = rng.randint(1, size + 1) if rng.random() < 0.7 else rng.choice([3, 5, 6, 7, 10, 11])
    n0 = rng.randint(rows_min, size)
    n1 = rng.randint(0, size)

    def row():
        kind = rng.random()
        if kind < 0.1:
            return [float(rng.randint(0, 3))] * n_genes          # constant row
        if kind < 0.25:
            # constant row of a value that is not exactly representable (log2(CPM+1) of equal counts):
            # mean and second moment carry rounding error, the correlation must still be exactly 0
            import math
            return [rng.choice([0.1, 0.7, math.log2(3.0), math.log2(1.0 + 1.0e6 / 7.0), 13.287712379549449])] * n_genes
        return [float(rng.randint(0, 6)) for _ in range(n_genes)]
    a = np.array([row() for _ in range(n0)], dtype=float).reshape(n0, n_genes)
    b = np.array([row() for _ in range(n1)], dtype=float).reshape(n1, n_genes)
    if rng.random() < 0.3 and n1 > 0 and n0 > 0:
        b[0, :] = a[rng.randrange(n0), :] * 2.0 + 1.0             # perfectly correlated pair
    return a, b


NN_ENSURES = [
    "len(result[0]) == query_array.shape[0] and len(result[1]) == query_array.shape[0]",
    "all(0 <= result[0][q] < baseline_array.shape[0] for q in range(query_array.shape[0]))",
    # the neighbour is an arg-max of the correlation over the baseline rows, the value returned is
    # that correlation
    "all(pcorr(baseline_array, result[0][q], query_array, q) >= pcorr(baseline_array, r, query_array, q) - tol() "
    "for q in range(query_array.shape[0]) for r in range(baseline_array.shape[0]))",
    "all(close(result[1][q], pcorr(baseline_array, result[0][q], query_array, q)) "
    "for q in range(query_array.shape[0]))",
]
NN_REQUIRES = ["baseline_array.shape[1] == query_array.shape[1]", "baseline_array.shape[0] >= 1",
               "return_correlation == True"]

contract(
    M + 'correlation_nearest_neighbors',
    properties=['C02', 'C06'], trusted=True,
    params=dict(baseline_array='Arr2[Real]', query_array='Arr2[Real]', return_correlation='Bool',
                gpu_index='Int', timers='Opt[Opaque]'),
    returns='Tuple[Arr[Int],Arr[Real]]',
    requires=NN_REQUIRES, ensures=NN_ENSURES,
    note="dispatcher: CPU path (_correlation_nearest_neighbors_cpu, verified below) when torch is absent; "
         "the GPU path is not verified",
)


_NN_CALLS = [0]


def _gen_nn(rng, size):
    _NN_CALLS[0] += 1
    if _NN_CALLS[0] % 140 == 7:
        # a query block larger than any plausible internal batch size (10 000 / 2**14 rows): the
        # result for row q must not depend on how the rows are batched
        import numpy as np
        n1 = rng.choice([10001, 10007, 16385, 20011])
        a = np.array([[0., 1., 2., 5.], [3., 1., 0., 0.], [1., 4., 1., 2.]])
        b = np.array([[float((q * 7 + g * 3) % 5 + (g == q % 4)) for g in range(4)] for q in range(n1)])
        return dict(baseline_array=a, query_array=b, return_correlation=True)
    a, b = _gen_pair(rng, size)
    return dict(baseline_array=a, query_array=b, return_correlation=True)


contract(
    M + 'correlation_dot',
    properties=['C02'], trusted=True,
    params=dict(arr0='Arr2[Real]', arr1='Arr2[Real]', gpu_index='Int', timers='Opt[Opaque]'),
    returns='Arr2[Real]',
    requires=["arr0.shape[1] == arr1.shape[1]"],
    ensures=["result.shape[0] == arr0.shape[0] and result.shape[1] == arr1.shape[0]",
             "all(close(result[r, q], pcorr(arr0, r, arr1, q)) for r in range(arr0.shape[0]) "
             "for q in range(arr1.shape[0]))"],
    note="dispatcher: CPU path (_correlation_dot_cpu, bounded below) when torch is absent",
)

contract(
    M + '_correlation_nearest_neighbors_cpu',
    properties=['C02', 'C06'],
    native=dict(gen=_gen_nn, env=dict(TOL=TOL)),
    params=dict(baseline_array='Arr2[Real]', query_array='Arr2[Real]', return_correlation='Bool'),
    returns='Tuple[Arr[Int],Arr[Real]]',
    requires=NN_REQUIRES, ensures=NN_ENSURES,
)


def _gen_dot(rng, size):
    a, b = _gen_pair(rng, size, rows_min=0)
    return dict(arr0=a, arr1=b)


contract(
    M + '_correlation_dot_cpu',
    properties=['C02', 'C06'], mode='bounded',
    native=dict(gen=_gen_dot, bound='matrices up to 4 x 4, integer-valued entries, constant rows included',
                weight=2),
    params=dict(arr0='Arr2[Real]', arr1='Arr2[Real]'),
    returns='Arr2[Real]',
    requires=["arr0.shape[1] == arr1.shape[1]", "arr0.shape[1] >= 1"],
    ensures=["result.shape[0] == arr0.shape[0] and result.shape[1] == arr1.shape[0]",
             "all(close(result[r, q], pcorr(arr0, r, arr1, q)) for r in range(arr0.shape[0]) "
             "for q in range(arr1.shape[0]))",
             # C06.b: column q of the result depends on row q of arr1 (and arr0) only
             "all(abs(result[r, q]) <= 1 + 1e-9 for r in range(arr0.shape[0]) for q in range(arr1.shape[0]))"],
    note="numerical kernel (np.mean / np.sqrt / np.dot): compared natively with a direct Pearson recomputation",
)


def _gen_norm(rng, size):
    a, _ = _gen_pair(rng, size, rows_min=0)
    return dict(data=a, do_transpose=rng.random() < 0.5)


contract(
    M + '_subtract_mean_and_normalize_cpu',
    properties=['C02', 'C06'], mode='bounded',
    native=dict(gen=_gen_norm, bound='matrices up to 4 x 11, integer-valued entries; constant rows of integers and of values that are not exactly representable'),
    params=dict(data='Arr2[Real]', do_transpose='Bool'),
    returns='Arr2[Real]',
    requires=["data.shape[1] >= 1"],
    ensures=[
        "implies(not do_transpose, result.shape[0] == data.shape[0] and result.shape[1] == data.shape[1])",
        "implies(do_transpose, result.shape[0] == data.shape[1] and result.shape[1] == data.shape[0])",
        # entry (i, g) = (x - mean_i) / ||x_i - mean_i||, the norm replaced by 1 for a constant row
        "all(close(result[g, i] if do_transpose else result[i, g], znorm(data, i, g)) "
        "for i in range(data.shape[0]) for g in range(data.shape[1]))",
        # the input is not modified
        "all(data[i, g] == old(data)[i, g] for i in range(data.shape[0]) for g in range(data.shape[1]))",
    ],
)
