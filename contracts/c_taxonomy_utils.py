"""cell_type_mapper.taxonomy.utils  (C10; C12 leaf pairs)

The taxonomy blob is the heterogeneous dict `Tree`: fixed key 'hierarchy' (ordered level names)
plus one entry per level, level -> node -> list of children (leaf level: list of reference rows;
rows are identifiers, only compared).  `wf_tree` (DESIGN.md section 3) is spelled out clause by
clause in WF below; positional forms (`t[l][p][i]`) are used instead of `c in t[l][p]` wherever a
witness would otherwise have to be guessed by the solver.
"""
from pyvc.contracts import contract
from pyvc.types import record

record('Tree', _rest='Dict[Name,Dict[Name,List[Name]]]', hierarchy='List[Name]')

M = 'cell_type_mapper.taxonomy.utils.'


def wf_tree(t, parts=('levels', 'child_exists', 'has_parent', 'one_parent', 'once', 'rows')):
    """clauses of wf_tree(t) as contract text; `parts` selects them"""
    H = f"{t}['hierarchy']"
    # parent-side clauses are indexed by the parent level (k, k + 1), the child-side clause by
    # the child level (k - 1, k): the solver then finds the instance from the level it holds
    up = f"{t}[{H}[k]]"
    dn = f"{t}[{H}[k + 1]]"
    pairs = f"for k in range(len({H}) - 1)"
    cup = f"{t}[{H}[kp]]"
    cdn = f"{t}[{H}[k]]"
    cpairs = f"for k in range(1, len({H})) for kp in range(len({H})) if kp + 1 == k"
    out = {
        'levels': [
            f"len({H}) >= 1", f"dupfree({H})",
            f"all({H}[k] != 'hierarchy' and {H}[k] in {t} for k in range(len({H})))",
        ],
        # every listed child exists at the next level
        'child_exists': [f"all({up}[p][i] in {dn} {pairs} for p in {up} for i in range(len({up}[p])))"],
        # every node of the next level is listed by some parent
        # (membership written with first_index: `first_index(xs, x) < len(xs)` is `x in xs`; the two
        # levels of the pair are named by two indices so that neither is an arithmetic term, and
        # the redundant conjunct `H[kp] in t` makes the parent level a ground term of the goal)
        'has_parent': [f"all({H}[kp] in {t} and any(first_index({cup}[p], c) < len({cup}[p]) for p in {cup}) "
                       f"{cpairs} for c in {cdn})"],
        # ... by exactly one parent
        'one_parent': [f"all(implies({up}[p][i] == {up}[q][j], p == q) {pairs} "
                       f"for p in {up} for q in {up} for i in range(len({up}[p])) for j in range(len({up}[q])))"],
        # ... exactly once in that parent's list
        'once': [f"all(dupfree({up}[p]) {pairs} for p in {up})"],
        # no row belongs to two leaves (nor twice to one)
        'rows': [f"all(implies({t}[{H}[-1]][a][i] == {t}[{H}[-1]][b][j], a == b and i == j) "
                 f"for a in {t}[{H}[-1]] for b in {t}[{H}[-1]] "
                 f"for i in range(len({t}[{H}[-1]][a])) for j in range(len({t}[{H}[-1]][b])))"],
    }
    res = []
    for p in parts:
        res += out[p]
    return res


# ---------------------------------------------------------------------------------------------
# native generators: random well-formed trees and one-edit malformed variants
# ---------------------------------------------------------------------------------------------
def gen_tree(rng, size, n_levels=None, rows=True):
    n_levels = n_levels or rng.choice([1, 2, 2, 3, 3, 3, 4, 4, 5])
    levels = [f"L{i}" for i in range(n_levels)]
    rng.shuffle(levels)                      # level names are not ordered like the hierarchy
    n_leaves = rng.randint(1, size + 2)
    counts = [n_leaves]
    for _ in range(n_levels - 1):
        counts.append(rng.randint(1, counts[-1]))
    counts.reverse()
    tree = {'hierarchy': list(levels)}
    if rng.random() < 0.4:
        # one pool of labels for all levels: the same label names unrelated nodes at different levels
        # (legal - names are unique within a level only)
        pool = [f"n{j}" for j in range(max(counts) + 1)]
        names = [rng.sample(pool, c) for c in counts]
    else:
        names = [[f"{'abcdefgh'[li]}{j}" for j in range(c)] for li, c in enumerate(counts)]
    for nm in names:
        rng.shuffle(nm)
    for li in range(n_levels - 1):
        par, chd = names[li], list(names[li + 1])
        rng.shuffle(chd)
        # every parent may be childless except that all children are distributed
        table = {p: [] for p in par}
        for c in chd:
            table[rng.choice(par)].append(c)
        tree[levels[li]] = table
    r = 0
    leaf = {}
    for c in names[-1]:
        k = rng.randint(0, 2) if rows else 0
        leaf[c] = list(range(r, r + k))
        r += k
    tree[levels[-1]] = leaf
    if rng.random() < 0.3:
        tree['metadata'] = {'factory': ['x']}
    return tree


def _gen_c2p(rng, size):
    return dict(tree_data=gen_tree(rng, size))


T_ = 'tree_data'
H_ = "tree_data['hierarchy']"

# result[H[k]][c] == p  <=>  c in t[H[k-1]][p]   (k = index of the child level)
C2P_COMPLETE = ("all({t}[{H}[k - 1]][p][i] in {r}[{H}[k]] and {r}[{H}[k]][{t}[{H}[k - 1]][p][i]] == p "
                "for k in range({lo}, len({H})) for p in {t}[{H}[k - 1]] "
                "for i in range(len({t}[{H}[k - 1]][p])))")
C2P_SOUND = ("all({r}[{H}[k]][c] in {t}[{H}[k - 1]] and c in {t}[{H}[k - 1]][{r}[{H}[k]][c]] "
             "for k in range({lo}, len({H})) for c in {r}[{H}[k]])")
C2P_TOTAL = ("all(c in {r}[{H}[k]] for k in range({lo}, len({H})) for c in {t}[{H}[k]])")
C2P_KEYS = ["all({H}[k] in {r} for k in range({lo}, len({H})))",
            "all(any(l == {H}[k] for k in range({lo}, len({H}))) for l in {r})"]


def c2p_clauses(t, r, lo, total=False):
    H = f"{t}['hierarchy']"
    cl = C2P_KEYS + [C2P_COMPLETE, C2P_SOUND] + ([C2P_TOTAL] if total else [])
    return [s.format(t=t, H=H, r=r, lo=lo) for s in cl]


def _c2p_loops():
    t, H, r = T_, H_, 'result'
    done = c2p_clauses(t, r, f"len({H}) - _i0")          # levels finished by the outer loop
    up = f"{t}[parent_level]"
    cur = f"{r}[child_level]"
    rev = ["len(reverse_hierarchy) == len(%s)" % H,
           "all(reverse_hierarchy[j] == %s[len(%s) - 1 - j] for j in range(len(%s)))" % (H, H, H)]
    here = ["child_level == %s[len(%s) - 1 - _i0]" % (H, H), "parent_level == %s[len(%s) - 2 - _i0]" % (H, H),
            "0 <= _i0 < len(%s) - 1" % H,
            f"child_level in {r}",
            f"all(l == child_level or any(l == {H}[k] for k in range(len({H}) - _i0, len({H}))) for l in {r})"]
    seen_complete = (f"all({up}[p][i] in {cur} and {cur}[{up}[p][i]] == p "
                     f"for p in _seen1 for i in range(len({up}[p])))")
    return {
        0: rev + c2p_clauses(t, r, f"len({H}) - _i"),
        1: done[:1] + done[2:] + here + [
            seen_complete,
            f"all({cur}[c] in _seen1 and c in {up}[{cur}[c]] for c in {cur})"],
        2: done[:1] + done[2:] + here + [
            "parent in %s and parent not in _seen1" % up,
            seen_complete,
            f"all({up}[parent][i] in {cur} and {cur}[{up}[parent][i]] == parent for i in range(_i))",
            f"all(({cur}[c] in _seen1 and c in {up}[{cur}[c]]) or "
            f"({cur}[c] == parent and any({up}[parent][i] == c for i in range(_i))) for c in {cur})"],
    }


contract(
    M + 'get_child_to_parent',
    properties=['C10', 'C01', 'C17'],
    native=dict(gen=_gen_c2p),
    params=dict(tree_data='Tree'),
    returns='Dict[Name,Dict[Name,Name]]',
    locals=dict(result='Dict[Name,Dict[Name,Name]]'),
    requires=wf_tree(T_, ('levels', 'has_parent', 'one_parent')),
    # (the last clause - every node below the top level has an entry - follows from the
    # "some parent lists it" clause of wf_tree; it is what makes parents() KeyError-free)
    ensures=c2p_clauses(T_, 'result', '1', total=True),
    loops=_c2p_loops(),
)


# ---------------------------------------------------------------------------------------------
# validate_taxonomy_tree: normal return <=> wf_tree
# ---------------------------------------------------------------------------------------------
from pyvc.ext.taxonomy import register_rec_keys, register_rec_pop   # noqa: E402

register_rec_keys('Tree')
register_rec_pop('Tree')

V_ = 'taxonomy_tree'
VH = "taxonomy_tree['hierarchy']"
BAD = "('metadata', 'name_mapper', 'hierarchy_mapper')"
# the level keys are exactly the hierarchy (the three bookkeeping keys aside)
KEYS_OK = [f"all({VH}[k] in {V_} and {VH}[k] not in {BAD} for k in range(len({VH})))",
           f"all(l == 'hierarchy' or l in {BAD} or l in {VH} for l in {V_})"]
NODES_STR = f"all(isinstance(n, str) for l in {V_} if l != 'hierarchy' for n in {V_}[l])"
WF_V = wf_tree(V_)


def _neg(clauses):
    return " or ".join(f"not ({c})" for c in clauses)


def _validate_loops():
    t, H = V_, VH
    up, cur = f"{t}[parent_level]", "child_to_parent[child_level]"
    keys = [f"all({H}[j] in child_to_parent for j in range(len({H})))"]
    pair_done = [c.replace(f"for k in range(len({H}) - 1)", "for k in range(_i)")
                  .replace(f"for k in range(1, len({H}))", "for k in range(1, _i + 1)")
                 for c in wf_tree(t, ('child_exists', 'has_parent', 'one_parent', 'once'))]
    empty_from = lambda lo: (f"implies(dupfree({H}), all(len(child_to_parent[{H}[j]]) == 0 "   # noqa: E731
                             f"for j in range({lo}, len({H}))))")
    seen_done = (f"all({up}[p][i] in child_set and {up}[p][i] in {cur} and {cur}[{up}[p][i]] == p "
                 f"for p in _seen6 for i in range(len({up}[p])))")
    leaf = f"{t}[leaf_level]"
    return {
        2: [f"all({H}[j] in child_to_parent and len(child_to_parent[{H}[j]]) == 0 for j in range(_i))"],
        3: keys + pair_done + [empty_from("_i + 1")],
        4: [f"all(any(first_index({up}[p], x) < len({up}[p]) for p in _seen) for x in with_parent)",
            f"all({up}[p][i] in with_parent for p in _seen for i in range(len({up}[p])))"],
        5: ["all(c in with_parent for c in _seen)"],
        6: keys + [empty_from("_i3 + 2"), seen_done, f"all(dupfree({up}[p]) for p in _seen)",
                   f"implies(dupfree({H}), all({cur}[c] in _seen and c in {up}[{cur}[c]] for c in {cur}))"],
        7: keys + [empty_from("_i3 + 2"), seen_done, f"all(dupfree({up}[p]) for p in _seen6)",
                   f"all({up}[this_parent][a] != {up}[this_parent][b] for a in range(_i) for b in range(_i) if a < b)",
                   f"all({up}[this_parent][i] in child_set and {up}[this_parent][i] in {cur} "
                   f"and {cur}[{up}[this_parent][i]] == this_parent for i in range(_i))",
                   f"implies(dupfree({H}), all(({cur}[c] in _seen6 and c in {up}[{cur}[c]]) or "
                   f"({cur}[c] == this_parent and any({up}[this_parent][i] == c for i in range(_i))) "
                   f"for c in {cur}))"],
        # all_rows holds exactly the rows of the leaves seen; it is duplicate-free iff no row is
        # listed twice among them
        8: [f"all(first_index(all_rows, {leaf}[a][i]) < len(all_rows) "
            f"for a in _seen for i in range(len({leaf}[a])))",
            f"all(any(first_index({leaf}[a], all_rows[q]) < len({leaf}[a]) for a in _seen) "
            f"for q in range(len(all_rows)))",
            f"implies(dupfree(all_rows), all(implies({leaf}[a][i] == {leaf}[b][j], a == b and i == j) "
            f"for a in _seen for b in _seen for i in range(len({leaf}[a])) for j in range(len({leaf}[b]))))",
            f"implies(all(implies({leaf}[a][i] == {leaf}[b][j], a == b and i == j) "
            f"for a in _seen for b in _seen for i in range(len({leaf}[a])) for j in range(len({leaf}[b]))), "
            f"dupfree(all_rows))"],
    }


def mutate_tree(rng, tree, findings=True):
    """one edit of a valid tree (may or may not keep it valid); findings=False leaves out the
    edits that reproduce S-9 / S-10 / the empty-hierarchy IndexError (reported at the validator)"""
    import copy
    t = copy.deepcopy(tree)
    H = t['hierarchy']
    kind = rng.choice(['none', 'none', 'drop_key', 'extra_key', 'dup_level', 'drop_child_node',
                       'orphan', 'second_parent', 'dup_child', 'dup_row', 'dup_row_same_leaf',
                       'no_hierarchy', 'int_node', 'bad_level', 'ghost_child', 'self_parent',
                       'empty_hierarchy'])
    if not findings and kind in ('self_parent', 'empty_hierarchy', 'dup_child', 'dup_level'):
        kind = 'none'
    if kind == 'self_parent':        # S-9 witness: a level named twice, every node its own parent
        return {'hierarchy': [H[-1], H[-1]], H[-1]: {n: [n] for n in t[H[-1]]}}
    if kind == 'empty_hierarchy':
        return {'hierarchy': []}
    lv = rng.choice(H)
    li = H.index(lv)
    nodes = list(t[lv].keys())
    nd = rng.choice(nodes)
    if kind == 'drop_key':
        t.pop(lv)
    elif kind == 'extra_key':
        t['zz'] = {}
    elif kind == 'dup_level':
        H.insert(rng.randint(0, len(H)), lv)
    elif kind == 'bad_level':
        H.append('metadata')
        t['metadata'] = {}
    elif kind == 'drop_child_node' and li > 0:
        t[lv].pop(nd)
    elif kind == 'orphan':
        t[lv]['orphan'] = []
    elif kind == 'ghost_child' and li < len(H) - 1:
        t[lv][nd].append('ghost')
    elif kind == 'second_parent' and li < len(H) - 1 and len(nodes) > 1:
        other = rng.choice([n for n in nodes if n != nd])
        if t[lv][other]:
            t[lv][nd].append(rng.choice(t[lv][other]))
    elif kind == 'dup_child' and li < len(H) - 1 and t[lv][nd]:
        t[lv][nd].insert(rng.randint(0, len(t[lv][nd])), rng.choice(t[lv][nd]))
    elif kind in ('dup_row', 'dup_row_same_leaf'):
        leaf = t[H[-1]]
        rows = [r for v in leaf.values() for r in v]
        if rows:
            k = rng.choice(list(leaf.keys()))
            if kind == 'dup_row_same_leaf':
                k = next(x for x in leaf if leaf[x])
                leaf[k].append(leaf[k][0])
            else:
                leaf[k].append(rng.choice(rows))
    elif kind == 'no_hierarchy':
        t.pop('hierarchy')
    elif kind == 'int_node':
        t[lv][7] = t[lv].pop(nd)
    return t


def _gen_validate(rng, size):
    return dict(taxonomy_tree=mutate_tree(rng, gen_tree(rng, size)))


contract(
    M + 'validate_taxonomy_tree',
    properties=['C10', 'C01'],
    native=dict(gen=_gen_validate, weight=3),
    params=dict(taxonomy_tree='Tree'),
    returns='None',
    locals=dict(child_to_parent='Dict[Name,Dict[Name,Name]]', with_parent='Set[Name]',
                all_rows='List[Name]', expected_keys='Set[Name]'),
    # typing restriction of the blob model: the entry under 'hierarchy' is the level list, so it
    # cannot also be a node table (natively such a blob dies with AttributeError, see report)
    requires=[f"'hierarchy' not in {V_} or 'hierarchy' not in {VH}"],
    # normal return => wf_tree; RuntimeError => not wf_tree  (together: accepted iff well formed)
    ensures=KEYS_OK + [NODES_STR] + WF_V,
    raises={'RuntimeError': f"'hierarchy' not in {V_} or " + _neg(KEYS_OK) + f" or not ({NODES_STR}) or "
                            + _neg(WF_V)},
    loops=_validate_loops(),
)


# ---------------------------------------------------------------------------------------------
# small-scope exhaustive enumeration: every tree shape with <= 3 levels and <= 5 leaves
# (shape = nested set partition of the leaves), in two namings (alphabetical order of the
# node names agreeing / disagreeing with the structural order), optionally with one childless
# internal node, rows 0..n-1 spread over the leaves
# ---------------------------------------------------------------------------------------------
def _set_partitions(items):
    items = list(items)
    if not items:
        yield []
        return
    first, rest = items[0], items[1:]
    for part in _set_partitions(rest):
        for i in range(len(part)):
            yield part[:i] + [[first] + part[i]] + part[i + 1:]
        yield [[first]] + part


def enum_trees(max_levels=3, max_leaves=5, childless=True):
    level_names = [['cluster'], ['class', 'cluster'], ['class', 'subclass', 'cluster'],
                   ['a', 'b', 'c', 'd']]
    for n_levels in range(1, max_levels + 1):
        H = level_names[n_levels - 1]
        for n in range(1, max_leaves + 1):
            for flip in (False, True):
                def nm(li, j, cnt):
                    j = cnt - 1 - j if flip else j
                    return f"{'xyzw'[li]}{j}"
                # groups[li] = list of blocks (lists of indices into level li+1)
                def rec(li, items):
                    """yield list of tables for levels li..0 given `items` node count at level li+1"""
                    if li < 0:
                        yield []
                        return
                    for part in _set_partitions(range(items)):
                        for upper in rec(li - 1, len(part)):
                            yield upper + [part]
                for tables in rec(n_levels - 2, n):
                    counts = [len(p) for p in tables] + [n]
                    variants = [None]
                    if childless and n_levels >= 2:
                        variants.append(0)
                    for extra in variants:
                        tree = {'hierarchy': list(H)}
                        for li, part in enumerate(tables):
                            tab = {}
                            for j, block in enumerate(part):
                                tab[nm(li, j, counts[li])] = [nm(li + 1, c, counts[li + 1]) for c in block]
                            if extra is not None and li == n_levels - 2:
                                tab['zz_childless'] = []
                            tree[H[li]] = tab
                        if extra is not None and n_levels >= 3:
                            # the childless node needs a parent one level up
                            up = tree[H[n_levels - 3]]
                            up[sorted(up)[0]].append('zz_childless')
                        leaf = {}
                        for j in range(n):
                            leaf[nm(n_levels - 1, j, n)] = [j] if j % 2 == 0 else [100 + j, 200 + j]
                        tree[H[-1]] = leaf
                        yield tree


# reference implementations used by the bounded clauses (independent of the code under test)
def ref_children_chain(tree, level, node, target_level):
    """nodes of target_level (at or below level) reachable from node, with multiplicity"""
    H = tree['hierarchy']
    k, kt = H.index(level), H.index(target_level)
    frontier = [node]
    for j in range(k, kt):
        frontier = [c for p in frontier for c in tree[H[j]][p]]
    return frontier


def ref_leaves(tree, level, node):
    return ref_children_chain(tree, level, node, tree['hierarchy'][-1])


def ref_wf(tree):
    """full wf_tree, by brute force"""
    H = tree['hierarchy']
    if len(H) < 1 or len(set(H)) != len(H) or 'hierarchy' in H:
        return False
    if set(tree) - {'metadata', 'name_mapper', 'hierarchy_mapper', 'hierarchy'} != set(H):
        return False
    for up, dn in zip(H[:-1], H[1:]):
        listed = [c for p in tree[up] for c in tree[up][p]]
        if len(listed) != len(set(listed)) or set(listed) != set(tree[dn]):
            return False
    rows = [r for leaf in tree[H[-1]] for r in tree[H[-1]][leaf]]
    return len(rows) == len(set(rows))


def ref_pairs(tree, parent_node):
    H = tree['hierarchy']
    if parent_node is None:
        kids, lvl = list(tree[H[0]]), H[0]
    elif parent_node[0] == H[-1]:
        return set()
    else:
        kids, lvl = list(tree[parent_node[0]][parent_node[1]]), H[H.index(parent_node[0]) + 1]
    out = set()
    for i, c1 in enumerate(kids):
        for c2 in kids[i + 1:]:
            for x in ref_leaves(tree, lvl, c1):
                for y in ref_leaves(tree, lvl, c2):
                    out.add((min(x, y), max(x, y)))
    return out


REF_ENV = dict(ref_leaves=ref_leaves, ref_children_chain=ref_children_chain, ref_wf=ref_wf,
               ref_pairs=ref_pairs, sorted=sorted, set=set, len=len, list=list, tuple=tuple, min=min, max=max)
BOUND = "every tree shape with <= 3 levels and <= 5 leaves (nested set partitions), 2 namings, optional childless node"


def _enum_nodes(size):
    for t in enum_trees():
        for lvl in t['hierarchy']:
            for node in t[lvl]:
                yield dict(tree=t, level=lvl, this_node=node)


def _gen_nodes(rng, size):
    t = gen_tree(rng, size + 2)
    lvl = rng.choice(t['hierarchy'])
    return dict(tree=t, level=lvl, this_node=rng.choice(list(t[lvl])))


def _with_random(enum, gen, n_random=400, seed=11):
    """small-scope exhaustive cases followed by seeded random larger ones"""
    def it(size):
        import random
        yield from enum(size)
        rng = random.Random(seed)
        for _ in range(n_random):
            yield gen(rng, 6)
    return it


def _child_level(tree, level):
    H = tree['hierarchy']
    return H[H.index(level) + 1]


def _leaves_fn(tree, level, node):
    from cell_type_mapper.taxonomy.utils import _get_leaves_from_tree
    return _get_leaves_from_tree(tree=tree, level=level, this_node=node)


LEAVES_ENV = dict(REF_ENV, child_level=_child_level, leaves_fn=_leaves_fn)

# _get_leaves_from_tree: duplicate free, exactly the leaves below the node, and the children's
# leaf lists partition it.  Bounded: the recursive contract needs an inductively defined
# descendant relation (see report); the same clauses are executed exhaustively instead.
contract(
    M + '_get_leaves_from_tree',
    properties=['C10', 'C12'],
    mode='bounded',
    native=dict(enumerate=_with_random(_enum_nodes, _gen_nodes), env=LEAVES_ENV, bound=BOUND,
                max_enumerated=400000),
    params=dict(tree='Tree', level='Name', this_node='Name'),
    returns='List[Name]',
    requires=["ref_wf(tree)", "level in tree['hierarchy']", "this_node in tree[level]"],
    ensures=[
        "dupfree(result)",
        "set(result) == set(ref_leaves(tree, level, this_node))",
        "len(result) == len(ref_leaves(tree, level, this_node))",
        "all(x in tree[tree['hierarchy'][-1]] for x in result)",
        # the children's leaf sets partition the node's leaf set
        "level == tree['hierarchy'][-1] or sorted(result) == sorted("
        "x for c in tree[level][this_node] for x in leaves_fn(tree, child_level(tree, level), c))",
        "tree == old(tree)",
    ],
)


def _enum_trees_kw(key):
    def it(size):
        for t in enum_trees():
            yield {key: t}
    return it


contract(
    M + 'convert_tree_to_leaves',
    properties=['C10', 'C12'],
    mode='bounded',
    native=dict(enumerate=_with_random(_enum_trees_kw('taxonomy_tree'),
                                       lambda rng, size: dict(taxonomy_tree=gen_tree(rng, size + 2))),
                env=LEAVES_ENV, bound=BOUND),
    params=dict(taxonomy_tree='Tree'),
    returns='Dict[Name,Dict[Name,List[Name]]]',
    requires=["ref_wf(taxonomy_tree)"],
    ensures=[
        "set(result) == set(taxonomy_tree['hierarchy'])",
        "all(set(result[l]) == set(taxonomy_tree[l]) for l in taxonomy_tree['hierarchy'])",
        "all(dupfree(result[l][n]) and set(result[l][n]) == set(ref_leaves(taxonomy_tree, l, n)) "
        "for l in taxonomy_tree['hierarchy'] for n in taxonomy_tree[l])",
        # at every level the leaf lists of the nodes partition the leaf set
        "all(sorted(x for n in result[l] for x in result[l][n]) == "
        "sorted(taxonomy_tree[taxonomy_tree['hierarchy'][-1]]) for l in taxonomy_tree['hierarchy'])",
        "taxonomy_tree == old(taxonomy_tree)",
    ],
)


def _parents_of(t):
    H = t['hierarchy']
    out = [None]
    for lvl in H:                       # leaf-level parents included: the result must be []
        for n in t[lvl]:
            out.append((lvl, n))
    return out


def _enum_parents(size):
    for t in enum_trees():
        for p in _parents_of(t):
            yield dict(taxonomy_tree=t, parent_node=p)


def _gen_parents(rng, size):
    t = gen_tree(rng, size + 2)
    return dict(taxonomy_tree=t, parent_node=rng.choice(_parents_of(t)))


# get_all_leaf_pairs (C10 last sentence, C12 "pairs to be discriminated"): exactly the unordered
# pairs of leaves lying under two different children of the parent, each listed once,
# alphabetised, labelled with the leaf level.  Needs the full wf_tree (S-10: with a repeated
# child the pairs are listed more than once).
contract(
    M + 'get_all_leaf_pairs',
    properties=['C10', 'C12'],
    mode='bounded',
    native=dict(enumerate=_with_random(_enum_parents, _gen_parents), env=LEAVES_ENV, bound=BOUND,
                max_enumerated=400000),
    params=dict(taxonomy_tree='Tree', parent_node='Opt[Tuple[Name,Name]]'),
    returns='List[Tuple[Name,Name,Name]]',
    requires=["ref_wf(taxonomy_tree)",
              "parent_node is None or (parent_node[0] in taxonomy_tree['hierarchy'] and "
              "parent_node[1] in taxonomy_tree[parent_node[0]])"],
    ensures=[
        "all(r[0] == taxonomy_tree['hierarchy'][-1] and r[1] < r[2] for r in result)",
        "dupfree(result)",
        "set((r[1], r[2]) for r in result) == ref_pairs(taxonomy_tree, parent_node)",
        "len(result) == len(ref_pairs(taxonomy_tree, parent_node))",
        "implies(parent_node is not None and parent_node[0] == taxonomy_tree['hierarchy'][-1], result == [])",
        "taxonomy_tree == old(taxonomy_tree)",
    ],
)


# ---------------------------------------------------------------------------------------------
# get_taxonomy_tree (C10, second sentence): "building it from per-cell label columns reproduces
# exactly the label combinations present" - and a label table that is not a tree (a label with two
# different parents) is refused.  Bounded: every label table with <= 3 levels, <= 4 cells and
# <= 2 labels per level, then seeded random larger tables (labels shared between levels included).
# ---------------------------------------------------------------------------------------------
def ref_label_tree(records, H):
    """the table is a tree: at every level below the top a label always comes with the same parent"""
    for up, dn in zip(H[:-1], H[1:]):
        seen = {}
        for r in records:
            if seen.setdefault(str(r[dn]), str(r[up])) != str(r[up]):
                return False
    return True


def ref_children(records, up, dn):
    out = {}
    for r in records:
        out.setdefault(str(r[up]), set()).add(str(r[dn]))
    return out


def ref_rows(records, leaf):
    out = {}
    for i, r in enumerate(records):
        out.setdefault(str(r[leaf]), []).append(i)
    return out


def _enum_label_tables(size):
    import itertools
    for n_levels in (1, 2, 3):
        H = ['class', 'subclass', 'cluster'][3 - n_levels:]
        labels = [['a', 'b'], ['a', 'c'], ['x', 'y']][3 - n_levels:]       # 'a' names nodes of two levels
        rows = list(itertools.product(*labels))
        for n_cells in range(1, 5):
            for combo in itertools.product(rows, repeat=n_cells):
                yield dict(obs_records=[dict(zip(H, c), other=7) for c in combo], column_hierarchy=list(H))


def _gen_label_table(rng, size):
    n_levels = rng.randint(1, 4)
    H = [f"L{i}" for i in range(n_levels)]
    rng.shuffle(H)
    shared = rng.random() < 0.5
    n_cells = rng.randint(1, 12)
    # start from a valid tree (child label -> parent label), then sometimes break one cell
    n_per = [rng.randint(1, 4) for _ in H]
    names = [[(f"n{j}" if shared else f"{'abcd'[li]}{j}") for j in range(n)] for li, n in enumerate(n_per)]
    parent_of = [None] + [{c: rng.choice(names[li - 1]) for c in names[li]} for li in range(1, n_levels)]
    recs = []
    for _ in range(n_cells):
        lab = [None] * n_levels
        lab[-1] = rng.choice(names[-1])
        for li in range(n_levels - 1, 0, -1):
            lab[li - 1] = parent_of[li][lab[li]]
        recs.append(lab)
    if n_levels > 1 and rng.random() < 0.45:
        i = rng.randrange(n_cells)
        li = rng.randrange(n_levels - 1)
        recs[i][li] = rng.choice(names[li])           # possibly another parent for the same lower labels
    if rng.random() < 0.2:
        recs = [[(int(x[1:]) if x[1:].isdigit() and not shared and rng.random() < 0.5 else x) for x in r] for r in recs]
    return dict(obs_records=[dict(zip(H, r)) for r in recs], column_hierarchy=list(H))


contract(
    M + 'get_taxonomy_tree',
    properties=['C10'],
    mode='bounded',
    native=dict(enumerate=_with_random(_enum_label_tables, _gen_label_table, n_random=1500),
                env=dict(REF_ENV, ref_label_tree=ref_label_tree, ref_children=ref_children, ref_rows=ref_rows,
                         str=str, dict=dict),
                bound="every label table with <= 3 levels, <= 4 cells, 2 labels per level (one label shared by two "
                      "levels); 1500 seeded random tables with <= 4 levels, <= 12 cells",
                max_enumerated=400000),
    params=dict(obs_records='List[Dict[Name,Name]]', column_hierarchy='List[Name]'),
    returns='Tree',
    requires=["dupfree(column_hierarchy)", "'hierarchy' not in column_hierarchy", "len(column_hierarchy) >= 1",
              "len(obs_records) >= 1"],
    ensures=[
        "result['hierarchy'] == column_hierarchy",
        # exactly the label combinations present: parent -> set of children, for every adjacent pair of levels
        "all(dict((p, set(result[column_hierarchy[k]][p])) for p in result[column_hierarchy[k]]) == "
        "ref_children(old(obs_records), column_hierarchy[k], column_hierarchy[k + 1]) "
        "for k in range(len(column_hierarchy) - 1))",
        # every cell is a row of the leaf it is labelled with, in file order
        "dict(result[column_hierarchy[-1]]) == ref_rows(old(obs_records), column_hierarchy[-1])",
        "ref_wf(result)",
    ],
    raises={'RuntimeError': ('iff', "not ref_label_tree(obs_records, column_hierarchy)")},
)
