"""cell_type_mapper.taxonomy.utils  (C10; C12 leaf pairs)

The taxonomy blob is the heterogeneous dict `Tree`: fixed key 'hierarchy' (ordered level names)
plus one entry per level, level -> node -> list of children (leaf level: list of reference rows;
rows are identifiers, only compared).  `wf_tree` (DESIGN.md section 3) is spelled out clause by
clause in WF below; positional forms (`t[l][p][i]`) are used instead of `c in t[l][p]` wherever a
witness would otherwise have to be guessed by the solver.
"""
from pyvc.contracts import contract
from pyvc.types import record

record('Tree', _rest='Dict[Name,Dict[Name,List[Name]]]', hierarchy='List[Name]')

M = 'cell_type_mapper.taxonomy.utils.'


def wf_tree(t, parts=('levels', 'child_exists', 'has_parent', 'one_parent', 'once', 'rows')):
    """clauses of wf_tree(t) as contract text; `parts` selects them"""
    H = f"{t}['hierarchy']"
    up = f"{t}[{H}[k]]"          # node table of the parent level of pair k
    dn = f"{t}[{H}[k + 1]]"      # node table of the child level of pair k
    pairs = f"for k in range(len({H}) - 1)"
    out = {
        'levels': [
            f"len({H}) >= 1", f"dupfree({H})",
            f"all({H}[k] != 'hierarchy' and {H}[k] in {t} for k in range(len({H})))",
        ],
        # every listed child exists at the next level
        'child_exists': [f"all({up}[p][i] in {dn} {pairs} for p in {up} for i in range(len({up}[p])))"],
        # every node of the next level is listed by some parent
        'has_parent': [f"all(any(c in {up}[p] for p in {up}) {pairs} for c in {dn})"],
        # ... by exactly one parent
        'one_parent': [f"all(implies({up}[p][i] == {up}[q][j], p == q) {pairs} "
                       f"for p in {up} for q in {up} for i in range(len({up}[p])) for j in range(len({up}[q])))"],
        # ... exactly once in that parent's list
        'once': [f"all(dupfree({up}[p]) {pairs} for p in {up})"],
        # no row belongs to two leaves (nor twice to one)
        'rows': [f"all(implies({t}[{H}[-1]][a][i] == {t}[{H}[-1]][b][j], a == b and i == j) "
                 f"for a in {t}[{H}[-1]] for b in {t}[{H}[-1]] "
                 f"for i in range(len({t}[{H}[-1]][a])) for j in range(len({t}[{H}[-1]][b])))"],
    }
    res = []
    for p in parts:
        res += out[p]
    return res


# ---------------------------------------------------------------------------------------------
# native generators: random well-formed trees and one-edit malformed variants
# ---------------------------------------------------------------------------------------------
def gen_tree(rng, size, n_levels=None, rows=True):
    n_levels = n_levels or rng.randint(1, 4)
    levels = [f"L{i}" for i in range(n_levels)]
    rng.shuffle(levels)                      # level names are not ordered like the hierarchy
    n_leaves = rng.randint(1, size + 2)
    counts = [n_leaves]
    for _ in range(n_levels - 1):
        counts.append(rng.randint(1, counts[-1]))
    counts.reverse()
    tree = {'hierarchy': list(levels)}
    names = [[f"{'abcdefgh'[li]}{j}" for j in range(c)] for li, c in enumerate(counts)]
    for nm in names:
        rng.shuffle(nm)
    for li in range(n_levels - 1):
        par, chd = names[li], list(names[li + 1])
        rng.shuffle(chd)
        # every parent may be childless except that all children are distributed
        table = {p: [] for p in par}
        for c in chd:
            table[rng.choice(par)].append(c)
        tree[levels[li]] = table
    r = 0
    leaf = {}
    for c in names[-1]:
        k = rng.randint(0, 2) if rows else 0
        leaf[c] = list(range(r, r + k))
        r += k
    tree[levels[-1]] = leaf
    if rng.random() < 0.3:
        tree['metadata'] = {'factory': ['x']}
    return tree


def _gen_c2p(rng, size):
    return dict(tree_data=gen_tree(rng, size))


T_ = 'tree_data'
H_ = "tree_data['hierarchy']"

# result[H[k]][c] == p  <=>  c in t[H[k-1]][p]   (k = index of the child level)
C2P_COMPLETE = ("all({t}[{H}[k - 1]][p][i] in {r}[{H}[k]] and {r}[{H}[k]][{t}[{H}[k - 1]][p][i]] == p "
                "for k in range({lo}, len({H})) for p in {t}[{H}[k - 1]] "
                "for i in range(len({t}[{H}[k - 1]][p])))")
C2P_SOUND = ("all({r}[{H}[k]][c] in {t}[{H}[k - 1]] and c in {t}[{H}[k - 1]][{r}[{H}[k]][c]] "
             "for k in range({lo}, len({H})) for c in {r}[{H}[k]])")
C2P_KEYS = ["all({H}[k] in {r} for k in range({lo}, len({H})))",
            "all(any(l == {H}[k] for k in range({lo}, len({H}))) for l in {r})"]


def c2p_clauses(t, r, lo):
    H = f"{t}['hierarchy']"
    return [s.format(t=t, H=H, r=r, lo=lo) for s in C2P_KEYS + [C2P_COMPLETE, C2P_SOUND]]


def _c2p_loops():
    t, H, r = T_, H_, 'result'
    done = c2p_clauses(t, r, f"len({H}) - _i0")          # levels finished by the outer loop
    up = f"{t}[parent_level]"
    cur = f"{r}[child_level]"
    rev = ["len(reverse_hierarchy) == len(%s)" % H,
           "all(reverse_hierarchy[j] == %s[len(%s) - 1 - j] for j in range(len(%s)))" % (H, H, H)]
    here = ["child_level == %s[len(%s) - 1 - _i0]" % (H, H), "parent_level == %s[len(%s) - 2 - _i0]" % (H, H),
            "0 <= _i0 < len(%s) - 1" % H,
            f"child_level in {r}",
            f"all(l == child_level or any(l == {H}[k] for k in range(len({H}) - _i0, len({H}))) for l in {r})"]
    seen_complete = (f"all({up}[p][i] in {cur} and {cur}[{up}[p][i]] == p "
                     f"for p in _seen1 for i in range(len({up}[p])))")
    return {
        0: rev + c2p_clauses(t, r, f"len({H}) - _i"),
        1: done[:1] + done[2:] + here + [
            seen_complete,
            f"all({cur}[c] in _seen1 and c in {up}[{cur}[c]] for c in {cur})"],
        2: done[:1] + done[2:] + here + [
            "parent in %s and parent not in _seen1" % up,
            seen_complete,
            f"all({up}[parent][i] in {cur} and {cur}[{up}[parent][i]] == parent for i in range(_i))",
            f"all(({cur}[c] in _seen1 and c in {up}[{cur}[c]]) or "
            f"({cur}[c] == parent and any({up}[parent][i] == c for i in range(_i))) for c in {cur})"],
    }


contract(
    M + 'get_child_to_parent',
    properties=['C10', 'C01', 'C17'],
    native=dict(gen=_gen_c2p),
    params=dict(tree_data='Tree'),
    returns='Dict[Name,Dict[Name,Name]]',
    locals=dict(result='Dict[Name,Dict[Name,Name]]'),
    requires=wf_tree(T_, ('levels', 'one_parent')),
    ensures=c2p_clauses(T_, 'result', '1'),
    loops=_c2p_loops(),
)


# ---------------------------------------------------------------------------------------------
# validate_taxonomy_tree: normal return <=> wf_tree
# ---------------------------------------------------------------------------------------------
from pyvc.ext.taxonomy import register_rec_keys   # noqa: E402

register_rec_keys('Tree')

V_ = 'taxonomy_tree'
VH = "taxonomy_tree['hierarchy']"
BAD = "('metadata', 'name_mapper', 'hierarchy_mapper')"
# the level keys are exactly the hierarchy (the three bookkeeping keys aside)
KEYS_OK = [f"all({VH}[k] in {V_} and {VH}[k] not in {BAD} for k in range(len({VH})))",
           f"all(l == 'hierarchy' or l in {BAD} or l in {VH} for l in {V_})"]
NODES_STR = f"all(isinstance(n, str) for l in {V_} if l != 'hierarchy' for n in {V_}[l])"
WF_V = wf_tree(V_)


def _neg(clauses):
    return " or ".join(f"not ({c})" for c in clauses)


def _validate_loops():
    t, H = V_, VH
    up, cur = f"{t}[parent_level]", "child_to_parent[child_level]"
    keys = [f"all({H}[j] in child_to_parent for j in range(len({H})))"]
    pair_done = [c.replace(f"for k in range(len({H}) - 1)", "for k in range(_i)")
                 for c in wf_tree(t, ('child_exists', 'has_parent', 'one_parent'))]
    empty_from = lambda lo: (f"implies(dupfree({H}), all(len(child_to_parent[{H}[j]]) == 0 "   # noqa: E731
                             f"for j in range({lo}, len({H}))))")
    seen_done = (f"all({up}[p][i] in child_set and {up}[p][i] in {cur} and {cur}[{up}[p][i]] == p "
                 f"for p in _seen6 for i in range(len({up}[p])))")
    leaf = f"{t}[leaf_level]"
    return {
        2: [f"all({H}[j] in child_to_parent and len(child_to_parent[{H}[j]]) == 0 for j in range(_i))"],
        3: keys + pair_done + [empty_from("_i + 1")],
        4: [f"all(any(x in {up}[p] for p in _seen) for x in with_parent)",
            f"all({up}[p][i] in with_parent for p in _seen for i in range(len({up}[p])))"],
        5: ["all(c in with_parent for c in _seen)"],
        6: keys + [empty_from("_i3 + 2"), seen_done,
                   f"implies(dupfree({H}), all({cur}[c] in _seen and c in {up}[{cur}[c]] for c in {cur}))"],
        7: keys + [empty_from("_i3 + 2"), seen_done,
                   f"all({up}[this_parent][i] in child_set and {up}[this_parent][i] in {cur} "
                   f"and {cur}[{up}[this_parent][i]] == this_parent for i in range(_i))",
                   f"implies(dupfree({H}), all(({cur}[c] in _seen6 and c in {up}[{cur}[c]]) or "
                   f"({cur}[c] == this_parent and any({up}[this_parent][i] == c for i in range(_i))) "
                   f"for c in {cur}))"],
        # all_rows holds exactly the rows of the leaves seen; it is duplicate-free iff no row is
        # listed twice among them
        8: [f"all(first_index(all_rows, {leaf}[a][i]) < len(all_rows) "
            f"for a in _seen for i in range(len({leaf}[a])))",
            f"all(any(first_index({leaf}[a], all_rows[q]) < len({leaf}[a]) for a in _seen) "
            f"for q in range(len(all_rows)))",
            f"implies(dupfree(all_rows), all(implies({leaf}[a][i] == {leaf}[b][j], a == b and i == j) "
            f"for a in _seen for b in _seen for i in range(len({leaf}[a])) for j in range(len({leaf}[b]))))",
            f"implies(all(implies({leaf}[a][i] == {leaf}[b][j], a == b and i == j) "
            f"for a in _seen for b in _seen for i in range(len({leaf}[a])) for j in range(len({leaf}[b]))), "
            f"dupfree(all_rows))"],
    }


def mutate_tree(rng, tree):
    """one edit of a valid tree (may or may not keep it valid)"""
    import copy
    t = copy.deepcopy(tree)
    H = t['hierarchy']
    kind = rng.choice(['none', 'none', 'drop_key', 'extra_key', 'dup_level', 'drop_child_node',
                       'orphan', 'second_parent', 'dup_child', 'dup_row', 'dup_row_same_leaf',
                       'no_hierarchy', 'int_node', 'bad_level', 'ghost_child'])
    lv = rng.choice(H)
    li = H.index(lv)
    nodes = list(t[lv].keys())
    nd = rng.choice(nodes)
    if kind == 'drop_key':
        t.pop(lv)
    elif kind == 'extra_key':
        t['zz'] = {}
    elif kind == 'dup_level':
        H.insert(rng.randint(0, len(H)), lv)
    elif kind == 'bad_level':
        H.append('metadata')
        t['metadata'] = {}
    elif kind == 'drop_child_node' and li > 0:
        t[lv].pop(nd)
    elif kind == 'orphan':
        t[lv]['orphan'] = []
    elif kind == 'ghost_child' and li < len(H) - 1:
        t[lv][nd].append('ghost')
    elif kind == 'second_parent' and li < len(H) - 1 and len(nodes) > 1:
        other = rng.choice([n for n in nodes if n != nd])
        if t[lv][other]:
            t[lv][nd].append(rng.choice(t[lv][other]))
    elif kind == 'dup_child' and li < len(H) - 1 and t[lv][nd]:
        t[lv][nd].insert(rng.randint(0, len(t[lv][nd])), rng.choice(t[lv][nd]))
    elif kind in ('dup_row', 'dup_row_same_leaf'):
        leaf = t[H[-1]]
        rows = [r for v in leaf.values() for r in v]
        if rows:
            k = rng.choice(list(leaf.keys()))
            if kind == 'dup_row_same_leaf':
                k = next(x for x in leaf if leaf[x])
                leaf[k].append(leaf[k][0])
            else:
                leaf[k].append(rng.choice(rows))
    elif kind == 'no_hierarchy':
        t.pop('hierarchy')
    elif kind == 'int_node':
        t[lv][7] = t[lv].pop(nd)
    return t


def _gen_validate(rng, size):
    return dict(taxonomy_tree=mutate_tree(rng, gen_tree(rng, size)))


contract(
    M + 'validate_taxonomy_tree',
    properties=['C10', 'C01'],
    native=dict(gen=_gen_validate, weight=3),
    params=dict(taxonomy_tree='Tree'),
    returns='None',
    locals=dict(child_to_parent='Dict[Name,Dict[Name,Name]]', with_parent='Set[Name]',
                all_rows='List[Name]', expected_keys='Set[Name]'),
    # typing restriction of the blob model: the entry under 'hierarchy' is the level list, so it
    # cannot also be a node table (natively such a blob dies with AttributeError, see report)
    requires=[f"'hierarchy' not in {V_} or 'hierarchy' not in {VH}"],
    ensures=KEYS_OK + WF_V,
    raises={'RuntimeError': ('iff', f"'hierarchy' not in {V_} or " + _neg(KEYS_OK) + f" or not ({NODES_STR}) or "
                             + _neg(WF_V))},
    loops=_validate_loops(),
)
