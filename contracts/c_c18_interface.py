"""C18 "the stages compose": reader side of the statistics file and identification by NAME.

Writer side (already proved, c_precompute_from_anndata.py `...#split`): every cell is accumulated
into row `cluster_to_output_row[cluster of the cell]` of the buffers, and that very table is what
`_create_empty_stats_file` stores as the JSON dataset `cluster_to_row`; rows are 0 .. n_clusters-1.

Reader side (this file), on the real functions:

  read_raw_precomputed_stats   cluster_stats[leaf][k] is row cluster_to_row[leaf] of dataset k of the
                               file, gene_names is its col_names                      (slice, proved)
  aggregate_stats              n_cells / mean of a population of leaves                (slice, proved)
  read_precomputed_stats       'level/node' -> aggregate of as_leaves[level][node]     (slice, proved)
  get_leaf_means               rows = sorted leaf names, columns = the file's genes    (slice, proved)

The file is the record `c18_file(path)` (pyvc/ext/c18.py, assumptions A-STATSFILE / A-JSON).
"""
from pyvc.contracts import contract
from pyvc.types import record
import pyvc.ext.c18 as _x   # noqa: F401   (records C18File, spec function c18_file)

SU = 'cell_type_mapper.diff_exp.score_utils.'
MT = 'cell_type_mapper.type_assignment.matching.'


F = "c18_file(precomputed_stats_path)"
ROW = f"{F}['cluster_to_row']"

# a statistics file as the precompute stage writes it (writer contract + _create_empty_stats_file):
# every leaf's row is a row of every stored dataset
STAT_KEYS = ('sum', 'sumsq', 'gt0', 'gt1', 'ge1')

VALID_FILE = [
    f"all(0 <= {ROW}[leaf] and {ROW}[leaf] < len({F}['n_cells']) for leaf in {ROW})",
] + [f"'{k}' not in {F} or {F}['{k}'].shape[0] == len({F}['n_cells'])" for k in STAT_KEYS]


def _raw_ensures(res):
    cs = f"{res}['cluster_stats']"
    out = [
        # genes are identified by the file's own column names, in file order
        f"{res}['gene_names'] == {F}['col_names']",
        # one entry per leaf named by the file's cluster_to_row table
        f"all(leaf in {cs} for leaf in {ROW})",
        # n_cells of a leaf = entry cluster_to_row[leaf] of the stored 'n_cells'
        f"all({cs}[leaf]['n_cells'] == {F}['n_cells'][{ROW}[leaf]] for leaf in {ROW})",
        # 'sum' is always there on a normal return
        f"all('sum' in {cs}[leaf] for leaf in {ROW})",
    ]
    for k in STAT_KEYS:
        # every stored per-gene statistic of a leaf = row cluster_to_row[leaf] of the stored matrix
        out.append(
            f"all('{k}' not in {F} or ('{k}' in {cs}[leaf] and len({cs}[leaf]['{k}']) == {F}['{k}'].shape[1] and "
            f"all({cs}[leaf]['{k}'][g] == {F}['{k}'][{ROW}[leaf], g] for g in range({F}['{k}'].shape[1]))) "
            f"for leaf in {ROW})")
    return out


NAMES6 = ('n_cells',) + STAT_KEYS

_TMP = []


def _tmp_dir():
    import atexit
    import shutil
    import tempfile
    if not _TMP:
        d = tempfile.mkdtemp(prefix='pyvc_c18_', dir='/tmp')
        _TMP.append(d)
        atexit.register(shutil.rmtree, d, ignore_errors=True)
    return _TMP[0]


def write_stats_file(rng, leaves, genes, keys=NAMES6, tree=None):
    """a statistics file with the layout of _create_empty_stats_file: rows in shuffled order, values
    that identify (dataset, row, column); returns its path"""
    import json
    import os
    import h5py
    import numpy as np
    rows = list(range(len(leaves)))
    rng.shuffle(rows)
    path = os.path.join(_tmp_dir(), f"stats_{os.getpid()}_{rng.randrange(10**9)}.h5")
    with h5py.File(path, 'w') as f:
        f.create_dataset('col_names', data=json.dumps(list(genes)).encode('utf-8'))
        f.create_dataset('cluster_to_row', data=json.dumps(dict(zip(leaves, rows))).encode('utf-8'))
        if tree is not None:
            f.create_dataset('taxonomy_tree', data=json.dumps(tree).encode('utf-8'))
        n_cells = np.array([rng.choice([0, 1, 1, 2, 3, 5]) for _ in leaves], dtype=int)
        f.create_dataset('n_cells', data=n_cells)
        for q, k in enumerate(STAT_KEYS):
            if k not in keys:
                continue
            if k in ('sum', 'sumsq'):
                m = np.array([[(q + 1) * 100.0 + 10.0 * r + c + rng.choice([0.0, 0.5, 0.25])
                               for c in range(len(genes))] for r in range(len(leaves))], dtype=float)
            else:
                m = np.array([[rng.randint(0, 9) for c in range(len(genes))] for r in range(len(leaves))], dtype=int)
            f.create_dataset(k, data=m.reshape(len(leaves), len(genes)))
    return path


def _gen_read_raw(rng, size):
    leaves = [f"cl{i}" for i in range(rng.randint(1, size + 2))]
    rng.shuffle(leaves)
    genes = [f"g{i}" for i in range(rng.randint(1, size + 1))]
    rng.shuffle(genes)
    fms = rng.random() < 0.5
    keys = list(NAMES6) if fms or rng.random() < 0.4 else ['n_cells', 'sum'] + rng.sample(STAT_KEYS[1:], rng.randint(0, 3))
    return dict(precomputed_stats_path=write_stats_file(rng, leaves, genes, keys), for_marker_selection=fms)



def _one_of(x, names):
    return "(" + " or ".join(f"{x} == '{n}'" for n in names) + ")"


def _row_is(vec, k, idx):
    """`vec` is row `idx` of dataset `k` of the open file"""
    return (f"len({vec}) == in_file[{k}].shape[1] and "
            f"all({vec}[g] == in_file[{k}][{idx}, g] for g in range(in_file[{k}].shape[1]))")


# what is known about `all_keys` once it is computed: the stored ones among the six statistics
ALL_KEYS_FACTS = [
    f"all({_one_of('all_keys[i]', NAMES6)} and all_keys[i] in in_file for i in range(len(all_keys)))",
    "'n_cells' in all_keys",
] + [f"iff('{k}' in all_keys, '{k}' in in_file)" for k in STAT_KEYS]

contract(
    SU + 'read_raw_precomputed_stats',
    properties=['C18'],
    mode='slice', unexpected_exceptions='allowed',
    tracked=['precomputed_stats_path', 'in_file', 'precomputed_stats', 'row_lookup', 'all_keys', 'raw_data',
             'cluster_stats', 'leaf_name', 'idx', 'this', 'k'],
    params=dict(precomputed_stats_path='Name', for_marker_selection='Bool'),
    locals=dict(precomputed_stats='C18RawStats', raw_data='C18Raw', this='C18Leaf', in_file='C18File',
                cluster_stats='Dict[Name,C18Leaf]', row_lookup='Dict[Name,Int]'),
    returns='C18RawStats',
    native=dict(gen=_gen_read_raw),
    # the dict of arrays read from the file is heterogeneous ('n_cells' is 1-D): case analysis on the key
    ghost=dict(case_split={'if k in in_file': ('k', ['n_cells'])}),
    assumptions=['A-STATSFILE: the open statistics file is a record of its decoded datasets, a function of the path',
                 'A-JSON: json.loads(ds[()].decode()) is the decoded JSON dataset'],
    requires=VALID_FILE,
    ensures=_raw_ensures('result'),
    inline_asserts={
        'all_keys = list(': ALL_KEYS_FACTS,
        'cluster_stats = dict()': [
            # everything that was read is the stored dataset
            "mc_same(in_file, c18_file(precomputed_stats_path))",
            "mc_same(row_lookup, in_file['cluster_to_row'])",
            "mc_same(raw_data['n_cells'], in_file['n_cells'])",
        ] + [f"implies('{k}' in in_file, '{k}' in raw_data and mc_same(raw_data['{k}'], in_file['{k}']))"
             for k in STAT_KEYS],
    },
    loops={
        0: ["all(implies(all_keys[i] != 'n_cells', all_keys[i] in raw_data and "
            "mc_same(raw_data[all_keys[i]], in_file[all_keys[i]])) for i in range(_i))",
            "all(implies(all_keys[i] == 'n_cells', mc_same(raw_data['n_cells'], in_file['n_cells'])) "
            "for i in range(_i))"],
        1: ["all(leaf in cluster_stats for leaf in _seen)",
            "all(cluster_stats[leaf]['n_cells'] == in_file['n_cells'][row_lookup[leaf]] for leaf in _seen)"] +
           [f"all(implies('{k}' in in_file, '{k}' in cluster_stats[leaf] and "
            + _row_is(f"cluster_stats[leaf]['{k}']", f"'{k}'", "row_lookup[leaf]") + ") for leaf in _seen)"
            for k in STAT_KEYS],
        2: ["this['n_cells'] == in_file['n_cells'][idx]",
            "all(implies(all_keys[i] != 'n_cells', all_keys[i] in this and "
            + _row_is("this[all_keys[i]]", "all_keys[i]", "idx") + ") for i in range(_i))"],
    },
)


# ---------------------------------------------------------------------------------------------
# aggregate_stats: n_cells = sum of n_cells, mean = (sum of the 'sum' rows) / max(1, n_cells)
# ---------------------------------------------------------------------------------------------
D_ = 'precomputed_stats'
L_ = 'leaf_population'
NTOT = f"c18_nsum({D_}, {L_}, len({L_}))"


def _gen_aggregate(rng, size):
    import numpy as np
    n_genes = rng.randint(1, size + 2)
    names = [f"leaf{i}" for i in range(rng.randint(1, size + 2))]
    with_counts = rng.random() < 0.7
    stats = {}
    for nm in names:
        n = rng.choice([0, 0, 1, 1, 2, 3, 7])
        st = dict(n_cells=n, sum=np.array([rng.choice([0.0, 0.5, 1.0, 2.25, 7.0]) * n for _ in range(n_genes)]))
        st['sumsq'] = st['sum'] ** 2
        if with_counts:
            for k in ('gt0', 'gt1', 'ge1'):
                st[k] = np.array([rng.randint(0, n) for _ in range(n_genes)], dtype=int)
        stats[nm] = st
    pop = rng.sample(names, rng.randint(1, len(names)))
    return dict(leaf_population=pop, precomputed_stats=stats)


contract(
    SU + 'aggregate_stats',
    properties=['C18'],
    mode='slice', unexpected_exceptions='allowed',
    # (the accumulators of 'sumsq' / 'gt0' / 'gt1' / 'ge1' and `var` are outside the slice)
    tracked=['leaf_population', 'precomputed_stats', 'sum_arr', 'n_cells', 'mu', 'result'],
    params=dict(leaf_population='List[Name]', precomputed_stats='Dict[Name,C18Leaf]'),
    locals=dict(result='C18Node'),
    returns='C18Node',
    native=dict(gen=_gen_aggregate),
    requires=[
        # a population of leaves of the statistics file (every node of a valid taxonomy has a leaf);
        # the per-gene vectors are rows of one matrix
        f"len({L_}) >= 1",
        f"all({L_}[i] in {D_} and 'sum' in {D_}[{L_}[i]] and "
        f"len({D_}[{L_}[i]]['sum']) == len({D_}[{L_}[0]]['sum']) for i in range(len({L_})))",
    ],
    ensures=[
        f"len(result['mean']) == len({D_}[{L_}[0]]['sum'])",
        f"'n_cells' in result and c18_int(result['n_cells']) == {NTOT}",
        f"all(result['mean'][g] == c18_gsum({D_}, {L_}, len({L_}), g) / max(1, {NTOT}) "
        "for g in range(len(result['mean'])))",
        # a single leaf: its own sum / max(1, n_cells)  (the centroid of that cluster)
        f"implies(len({L_}) == 1, all(result['mean'][g] == {D_}[{L_}[0]]['sum'][g] / max(1, {D_}[{L_}[0]]['n_cells']) "
        "for g in range(len(result['mean']))))",
        f"same({D_}, old({D_}))",
    ],
    loops={
        0: [f"n_cells == c18_nsum({D_}, {L_}, _i)", f"len(sum_arr) == len({D_}[{L_}[0]]['sum'])",
            f"all(sum_arr[g] == c18_gsum({D_}, {L_}, _i, g) for g in range(len(sum_arr)))"],
    },
)
