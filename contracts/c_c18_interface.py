"""C18 "the stages compose": reader side of the statistics file and identification by NAME.

Writer side (already proved, c_precompute_from_anndata.py `...#split`): every cell is accumulated
into row `cluster_to_output_row[cluster of the cell]` of the buffers, and that very table is what
`_create_empty_stats_file` stores as the JSON dataset `cluster_to_row`; rows are 0 .. n_clusters-1.

Reader side (this file), contracts on the real functions:

  score_utils.read_raw_precomputed_stats   cluster_stats[leaf][k] is row cluster_to_row[leaf] of the
                                           stored dataset k; gene_names is col_names        (slice, proved)
  score_utils.aggregate_stats              n_cells = sum, mean = sum of 'sum' rows / max(1, n_cells);
                                           one leaf: sum / max(1, n)                         (slice, proved)
  score_utils.read_precomputed_stats       'level/node' -> aggregate of as_leaves[level][node] over the
                                           file's rows; gene_names passed through            (slice, proved)
  matching.get_leaf_means#c18              rows = sorted leaf names, columns = the file's gene names,
                                           row i = centroid of the cluster NAMED ids[i]      (slice, proved)
  marker_cache_v2.create_raw_marker_gene_lookup   marker table re-keyed by NAME 'level/node' (the same
                                           naming function), no two parents share a key     (slice, proved)
  markers._prep_output_file                gene names + pair index over the leaf NAMES       (bounded)

The open file is the record `c18_file(path)` (pyvc/ext/c18.py: assumptions A-STATSFILE / A-JSON);
sums over a population of leaves are the folds c18_nsum / c18_gsum (over the dict read) and
c18_fnsum / c18_fgsum (over the file's rows), linked by lemma AGREE (proved by induction at import).
Floats are reals (A-REAL).  The native layer runs the same clauses on generated HDF5 files with
exact equality (the reference sums are accumulated in the order numpy accumulates them).

Note (not a defect of the pinned code, recorded as a pre-condition TREE_REQ[2]): the key
f'{level}/{node}' is not injective for names containing '/', so read_precomputed_stats would
overwrite an entry if two (level, node) pairs of one taxonomy spelled the same key;
create_raw_marker_gene_lookup guards against exactly that (RuntimeError), read_precomputed_stats
does not.
"""
from pyvc.contracts import contract
from pyvc.types import record
import pyvc.ext.c18 as _x   # noqa: F401   (records C18File, spec function c18_file)

SU = 'cell_type_mapper.diff_exp.score_utils.'
MT = 'cell_type_mapper.type_assignment.matching.'


F = "c18_file(precomputed_stats_path)"
ROW = f"{F}['cluster_to_row']"

# a statistics file as the precompute stage writes it (writer contract + _create_empty_stats_file):
# every leaf's row is a row of every stored dataset
STAT_KEYS = ('sum', 'sumsq', 'gt0', 'gt1', 'ge1')

VALID_FILE = [
    f"all(0 <= {ROW}[leaf] and {ROW}[leaf] < len({F}['n_cells']) for leaf in {ROW})",
] + [f"'{k}' not in {F} or {F}['{k}'].shape[0] == len({F}['n_cells'])" for k in STAT_KEYS]


def _raw_ensures(res):
    cs = f"{res}['cluster_stats']"
    out = [
        # genes are identified by the file's own column names, in file order
        f"{res}['gene_names'] == {F}['col_names']",
        # one entry per leaf named by the file's cluster_to_row table
        f"all(leaf in {cs} for leaf in {ROW})",
        # n_cells of a leaf = entry cluster_to_row[leaf] of the stored 'n_cells'
        f"all({cs}[leaf]['n_cells'] == {F}['n_cells'][{ROW}[leaf]] for leaf in {ROW})",
        # 'sum' is always there on a normal return
        f"'sum' in {F}",
        f"all('sum' in {cs}[leaf] for leaf in {ROW})",
    ]
    for k in STAT_KEYS:
        # every stored per-gene statistic of a leaf = row cluster_to_row[leaf] of the stored matrix
        out.append(
            f"all('{k}' not in {F} or ('{k}' in {cs}[leaf] and len({cs}[leaf]['{k}']) == {F}['{k}'].shape[1] and "
            f"all({cs}[leaf]['{k}'][g] == {F}['{k}'][{ROW}[leaf], g] for g in range({F}['{k}'].shape[1]))) "
            f"for leaf in {ROW})")
    return out


NAMES6 = ('n_cells',) + STAT_KEYS

_TMP = []


def _tmp_dir():
    import atexit
    import shutil
    import tempfile
    if not _TMP:
        d = tempfile.mkdtemp(prefix='pyvc_c18_', dir='/tmp')
        _TMP.append(d)
        atexit.register(shutil.rmtree, d, ignore_errors=True)
        try:      # pool workers of ./check leave through os._exit: multiprocessing finalizer instead of atexit
            from multiprocessing import util as _mpu
            _mpu.Finalize(None, shutil.rmtree, args=(d,), kwargs=dict(ignore_errors=True), exitpriority=0)
        except Exception:
            pass
    return _TMP[0]


def write_stats_file(rng, leaves, genes, keys=NAMES6, tree=None):
    """a statistics file with the layout of _create_empty_stats_file: rows in shuffled order, values
    that identify (dataset, row, column); returns its path"""
    import json
    import os
    import h5py
    import numpy as np
    rows = list(range(len(leaves)))
    rng.shuffle(rows)
    path = os.path.join(_tmp_dir(), f"stats_{os.getpid()}_{rng.randrange(10**9)}.h5")
    with h5py.File(path, 'w') as f:
        f.create_dataset('col_names', data=json.dumps(list(genes)).encode('utf-8'))
        f.create_dataset('cluster_to_row', data=json.dumps(dict(zip(leaves, rows))).encode('utf-8'))
        if tree is not None:
            f.create_dataset('taxonomy_tree', data=json.dumps(tree).encode('utf-8'))
        n_cells = np.array([rng.choice([0, 1, 1, 2, 3, 5]) for _ in leaves], dtype=int)
        f.create_dataset('n_cells', data=n_cells)
        for q, k in enumerate(STAT_KEYS):
            if k not in keys:
                continue
            if k in ('sum', 'sumsq'):
                m = np.array([[(q + 1) * 100.0 + 10.0 * r + c + rng.choice([0.0, 0.5, 0.25])
                               for c in range(len(genes))] for r in range(len(leaves))], dtype=float)
            else:
                m = np.array([[rng.randint(0, 9) for c in range(len(genes))] for r in range(len(leaves))], dtype=int)
            f.create_dataset(k, data=m.reshape(len(leaves), len(genes)))
    return path


def _gen_read_raw(rng, size):
    leaves = [f"cl{i}" for i in range(rng.randint(1, size + 2))]
    rng.shuffle(leaves)
    genes = [f"g{i}" for i in range(rng.randint(1, size + 1))]
    rng.shuffle(genes)
    fms = rng.random() < 0.5
    keys = list(NAMES6) if fms or rng.random() < 0.4 else ['n_cells', 'sum'] + rng.sample(STAT_KEYS[1:], rng.randint(0, 3))
    return dict(precomputed_stats_path=write_stats_file(rng, leaves, genes, keys), for_marker_selection=fms)



def _one_of(x, names):
    return "(" + " or ".join(f"{x} == '{n}'" for n in names) + ")"


def _row_is(vec, k, idx):
    """`vec` is row `idx` of dataset `k` of the open file"""
    return (f"len({vec}) == in_file[{k}].shape[1] and "
            f"all({vec}[g] == in_file[{k}][{idx}, g] for g in range(in_file[{k}].shape[1]))")


# what is known about `all_keys` once it is computed: the stored ones among the six statistics
ALL_KEYS_FACTS = [
    f"all({_one_of('all_keys[i]', NAMES6)} and all_keys[i] in in_file for i in range(len(all_keys)))",
    "'n_cells' in all_keys",
] + [f"iff('{k}' in all_keys, '{k}' in in_file)" for k in STAT_KEYS]

contract(
    SU + 'read_raw_precomputed_stats',
    properties=['C18'],
    mode='slice', unexpected_exceptions='allowed',
    tracked=['precomputed_stats_path', 'in_file', 'precomputed_stats', 'row_lookup', 'all_keys', 'raw_data',
             'cluster_stats', 'leaf_name', 'idx', 'this', 'k'],
    params=dict(precomputed_stats_path='Name', for_marker_selection='Bool'),
    locals=dict(precomputed_stats='C18RawStats', raw_data='C18Raw', this='C18Leaf', in_file='C18File',
                cluster_stats='Dict[Name,C18Leaf]', row_lookup='Dict[Name,Int]'),
    returns='C18RawStats',
    native=dict(gen=_gen_read_raw),
    # the dict of arrays read from the file is heterogeneous ('n_cells' is 1-D): case analysis on the key
    ghost=dict(case_split={'if k in in_file': ('k', ['n_cells'])}),
    assumptions=['A-STATSFILE: the open statistics file is a record of its decoded datasets, a function of the path',
                 'A-JSON: json.loads(ds[()].decode()) is the decoded JSON dataset'],
    requires=VALID_FILE,
    ensures=_raw_ensures('result'),
    inline_asserts={
        'all_keys = list(': ALL_KEYS_FACTS,
        'cluster_stats = dict()': [
            # everything that was read is the stored dataset
            "mc_same(in_file, c18_file(precomputed_stats_path))",
            "mc_same(row_lookup, in_file['cluster_to_row'])",
            "mc_same(raw_data['n_cells'], in_file['n_cells'])",
        ] + [f"implies('{k}' in in_file, '{k}' in raw_data and mc_same(raw_data['{k}'], in_file['{k}']))"
             for k in STAT_KEYS],
    },
    loops={
        0: ["all(implies(all_keys[i] != 'n_cells', all_keys[i] in raw_data and "
            "mc_same(raw_data[all_keys[i]], in_file[all_keys[i]])) for i in range(_i))",
            "all(implies(all_keys[i] == 'n_cells', mc_same(raw_data['n_cells'], in_file['n_cells'])) "
            "for i in range(_i))"],
        1: ["all(leaf in cluster_stats for leaf in _seen)",
            "all(cluster_stats[leaf]['n_cells'] == in_file['n_cells'][row_lookup[leaf]] for leaf in _seen)"] +
           [f"all(implies('{k}' in in_file, '{k}' in cluster_stats[leaf] and "
            + _row_is(f"cluster_stats[leaf]['{k}']", f"'{k}'", "row_lookup[leaf]") + ") for leaf in _seen)"
            for k in STAT_KEYS],
        2: ["this['n_cells'] == in_file['n_cells'][idx]",
            "all(implies(all_keys[i] != 'n_cells', all_keys[i] in this and "
            + _row_is("this[all_keys[i]]", "all_keys[i]", "idx") + ") for i in range(_i))"],
    },
)


# ---------------------------------------------------------------------------------------------
# aggregate_stats: n_cells = sum of n_cells, mean = (sum of the 'sum' rows) / max(1, n_cells)
# ---------------------------------------------------------------------------------------------
D_ = 'precomputed_stats'
L_ = 'leaf_population'
NTOT = f"c18_nsum({D_}, {L_}, len({L_}))"


def _gen_aggregate(rng, size):
    import numpy as np
    n_genes = rng.randint(1, size + 2)
    names = [f"leaf{i}" for i in range(rng.randint(1, size + 2))]
    with_counts = rng.random() < 0.7
    stats = {}
    for nm in names:
        n = rng.choice([0, 0, 1, 1, 2, 3, 7])
        st = dict(n_cells=n, sum=np.array([rng.choice([0.0, 0.5, 1.0, 2.25, 7.0]) * n for _ in range(n_genes)]))
        st['sumsq'] = st['sum'] ** 2
        if with_counts:
            for k in ('gt0', 'gt1', 'ge1'):
                st[k] = np.array([rng.randint(0, n) for _ in range(n_genes)], dtype=int)
        stats[nm] = st
    pop = rng.sample(names, rng.randint(1, len(names)))
    return dict(leaf_population=pop, precomputed_stats=stats)


contract(
    SU + 'aggregate_stats',
    properties=['C18'],
    mode='slice', unexpected_exceptions='allowed',
    # (the accumulators of 'sumsq' / 'gt0' / 'gt1' / 'ge1' and `var` are outside the slice)
    tracked=['leaf_population', 'precomputed_stats', 'sum_arr', 'n_cells', 'mu', 'result'],
    params=dict(leaf_population='List[Name]', precomputed_stats='Dict[Name,C18Leaf]'),
    locals=dict(result='C18Node'),
    returns='C18Node',
    native=dict(gen=_gen_aggregate),
    requires=[
        # a population of leaves of the statistics file (every node of a valid taxonomy has a leaf);
        # the per-gene vectors are rows of one matrix
        f"len({L_}) >= 1",
        f"all({L_}[i] in {D_} and 'sum' in {D_}[{L_}[i]] and "
        f"len({D_}[{L_}[i]]['sum']) == len({D_}[{L_}[0]]['sum']) for i in range(len({L_})))",
    ],
    ensures=[
        f"len(result['mean']) == len({D_}[{L_}[0]]['sum'])",
        f"'n_cells' in result and c18_int(result['n_cells']) == {NTOT}",
        f"all(result['mean'][g] == c18_gsum({D_}, {L_}, len({L_}), g) / max(1, {NTOT}) "
        "for g in range(len(result['mean'])))",
        # a single leaf: its own sum / max(1, n_cells)  (the centroid of that cluster)
        f"implies(len({L_}) == 1, all(result['mean'][g] == {D_}[{L_}[0]]['sum'][g] / max(1, {D_}[{L_}[0]]['n_cells']) "
        "for g in range(len(result['mean']))))",
        f"same({D_}, old({D_}))",
    ],
    loops={
        0: [f"n_cells == c18_nsum({D_}, {L_}, _i)", f"len(sum_arr) == len({D_}[{L_}[0]]['sum'])",
            f"all(sum_arr[g] == c18_gsum({D_}, {L_}, _i, g) for g in range(len(sum_arr)))"],
    },
)


# ---------------------------------------------------------------------------------------------
# read_precomputed_stats: 'level/node' -> aggregate of the leaves of that node, by NAME
# ---------------------------------------------------------------------------------------------
from pyvc.ext.taxonomy import register_rec_keys, register_rec_pop   # noqa: E402
from pyvc.ext.marker_cache import define_predicate                  # noqa: E402

register_rec_keys('C18Node')
register_rec_pop('C18Node')

AL = "taxonomy_tree.as_leaves"

# every stored per-gene matrix has one column per gene name
VALID_FILE2 = VALID_FILE + [f"'{k}' not in {F} or {F}['{k}'].shape[1] == len({F}['col_names'])" for k in STAT_KEYS]

# the taxonomy handed in is the one the statistics were computed for (C18: "identify clusters
# consistently by name"): every leaf listed under a node has a row in the file; every node has a
# leaf (valid taxonomy); the keys 'level/node' are unambiguous for this taxonomy
TREE_REQ = [
    f"all(len({AL}[l][n]) >= 1 for l in {AL} for n in {AL}[l])",
    f"all({AL}[l][n][i] in {ROW} for l in {AL} for n in {AL}[l] for i in range(len({AL}[l][n])))",
    f"all(implies(f'{{l1}}/{{n1}}' == f'{{l2}}/{{n2}}', l1 == l2 and n1 == n2) "
    f"for l1 in {AL} for n1 in {AL}[l1] for l2 in {AL} for n2 in {AL}[l2])",
]


def _node_ok(st, pop, fl=F):
    """`st` = statistics stored for a node whose leaves are `pop`: mean over the file's rows"""
    return (f"len({st}['mean']) == {fl}['sum'].shape[1] and "
            f"all({st}['mean'][g] == c18_fgsum({fl}, {pop}, len({pop}), g) / max(1, c18_fnsum({fl}, {pop}, len({pop}))) "
            f"for g in range({fl}['sum'].shape[1]))")


def _node_n_ok(st, pop, fl=F):
    return f"'n_cells' in {st} and c18_int({st}['n_cells']) == c18_fnsum({fl}, {pop}, len({pop}))"


def _one_leaf_ok(st, pop, fl=F):
    """a node with a single leaf (in particular every leaf itself): that leaf's row sum / max(1, n_cells)"""
    return (f"len({pop}) != 1 or all({st}['mean'][g] == {fl}['sum'][{fl}['cluster_to_row'][{pop}[0]], g] / "
            f"max(1, {fl}['n_cells'][{fl}['cluster_to_row'][{pop}[0]]]) for g in range({fl}['sum'].shape[1]))")


# c18_node_ok(st, Ff, pop, fms): `st` is what read_precomputed_stats stores for a node whose leaves
# are `pop` (definition hiding: the invariants carry the predicate, the post-conditions spell it out)
define_predicate(
    'c18_node_ok', ['st', 'Ff', 'pop', 'fms'], ['C18Node', 'C18File', 'List[Name]', 'Bool'],
    "(" + _node_ok('st', 'pop', 'Ff') + ") and (" + _one_leaf_ok('st', 'pop', 'Ff') + ") and (not fms or ("
    + _node_n_ok('st', 'pop', 'Ff') + "))")


def _stats_ensures(res):
    cs = f"{res}['cluster_stats']"
    key = "f'{l}/{n}'"
    pop = f"{AL}[l][n]"
    return [
        f"{res}['gene_names'] == {F}['col_names']",
        f"all({key} in {cs} for l in {AL} for n in {AL}[l])",
        f"all({_node_ok(f'{cs}[{key}]', pop)} for l in {AL} for n in {AL}[l])",
        f"all({_one_leaf_ok(f'{cs}[{key}]', pop)} for l in {AL} for n in {AL}[l])",
        f"not for_marker_selection or all({_node_n_ok(f'{cs}[{key}]', pop)} for l in {AL} for n in {AL}[l])",
    ]


def gen_valid_tree(rng, size):
    """a valid taxonomy (every parent has a child; single-child nodes included), level names not ordered"""
    n_levels = rng.randint(1, 3)
    levels = [f"L{i}" for i in range(n_levels)]
    rng.shuffle(levels)
    n_leaves = rng.randint(1, size + 2)
    counts = [n_leaves]
    for _ in range(n_levels - 1):
        counts.append(rng.randint(1, counts[-1]))
    counts.reverse()
    names = [[f"{'xyz'[li]}{j}" for j in range(c)] for li, c in enumerate(counts)]
    for nm in names:
        rng.shuffle(nm)
    tree = {'hierarchy': list(levels)}
    for li in range(n_levels - 1):
        par, chd = names[li], list(names[li + 1])
        rng.shuffle(chd)
        table = {p: [chd[i]] for i, p in enumerate(par)}
        for c in chd[len(par):]:
            table[rng.choice(par)].append(c)
        tree[levels[li]] = table
    tree[levels[-1]] = {c: [] for c in names[-1]}
    return tree


def _mk_tree(tree):
    import warnings
    from cell_type_mapper.taxonomy.taxonomy_tree import TaxonomyTree

    class _Tree(TaxonomyTree):
        def __repr__(self):
            return f"TaxonomyTree({self._data!r})"
    with warnings.catch_warnings():
        warnings.simplefilter('ignore')
        return _Tree(data=tree)


def _gen_read_stats(rng, size):
    tree = gen_valid_tree(rng, size)
    leaves = list(tree[tree['hierarchy'][-1]])
    rng.shuffle(leaves)
    genes = [f"g{i}" for i in range(rng.randint(1, size + 1))]
    rng.shuffle(genes)
    fms = rng.random() < 0.5
    keys = list(NAMES6) if fms or rng.random() < 0.5 else ['n_cells', 'sum'] + rng.sample(STAT_KEYS[1:], rng.randint(0, 3))
    return dict(precomputed_stats_path=write_stats_file(rng, leaves, genes, keys), taxonomy_tree=_mk_tree(tree),
                for_marker_selection=fms)


RAWCS = "raw_results['cluster_stats']"
CS_ = "results['cluster_stats']"


def _stored_ok(lvl, seen):
    """every node `n` in `seen` of level `lvl` has its entry, and the entry is right"""
    key = "f'{" + lvl + "}/{n}'"
    return (f"all({key} in {CS_} and c18_node_ok({CS_}[{key}], {F}, as_leaves[{lvl}][n], for_marker_selection) "
            f"for n in {seen})")


GENES_KEPT = f"{CS_[:-len(chr(91) + chr(39) + 'cluster_stats' + chr(39) + chr(93))]}['gene_names'] == {F}['col_names']"
LEVELS_DONE = ("all(f'{l}/{n}' in " + CS_ + " and c18_node_ok(" + CS_ + "[f'{l}/{n}'], " + F +
               ", as_leaves[l][n], for_marker_selection) for l in _seen0 for n in as_leaves[l])")

contract(
    SU + 'read_precomputed_stats',
    properties=['C18'],
    mode='slice', unexpected_exceptions='allowed',
    tracked=['precomputed_stats_path', 'taxonomy_tree', 'for_marker_selection', 'raw_results', 'results',
             'as_leaves', 'level', 'node', 'leaf_population', 'this', 'key_list', 'key'],
    params=dict(precomputed_stats_path='Name', taxonomy_tree='C18Tree', for_marker_selection='Bool'),
    locals=dict(results='C18Stats', this='C18Node', raw_results='C18RawStats',
                as_leaves='Dict[Name,Dict[Name,List[Name]]]', leaf_population='List[Name]'),
    returns='C18Stats',
    native=dict(gen=_gen_read_stats),
    assumptions=['A-TREE: TaxonomyTree.as_leaves / all_leaves / leaf_level are read-only properties (a record of '
                 'their values); as_leaves is convert_tree_to_leaves(data) (C10, c_taxonomy_utils.py)'],
    requires=VALID_FILE2 + TREE_REQ,
    ensures=_stats_ensures('result'),
    inline_asserts={
        'this = aggregate_stats(': [
            # the sums over the dict read from the file are the sums over the file's rows (lemma AGREE)
            f"c18_lemma_agree({RAWCS}, {F}, leaf_population, len(leaf_population), {F}['sum'].shape[1])",
            f"c18_node_ok(this, {F}, leaf_population, True)",
            "ghost M0 = this['mean']",
            "ghost N0 = this['n_cells']",
        ],
    },
    loops={
        0: [f"mc_same(as_leaves, {AL})", GENES_KEPT, LEVELS_DONE],
        1: [GENES_KEPT, LEVELS_DONE, _stored_ok('level', '_seen')],
        2: ["mc_same(this['mean'], M0)",
            "'n_cells' in this and mc_same(this['n_cells'], N0)",
            "all(key_list[i] in this for i in range(_i, len(key_list)))"],
    },
)


# ---------------------------------------------------------------------------------------------
# get_leaf_means: rows = sorted leaf names, columns = the file's gene names, values = centroids
# ---------------------------------------------------------------------------------------------
import contracts.c_cbg_state   # noqa: E402,F401  (registers its constructor model first; ours wraps it)
_x.install_cbg_constructor({MT + 'get_leaf_means'})

FP = "c18_file(precompute_path)"


def _for_path(clauses):
    return [c.replace(F, FP) for c in clauses]


LL = "taxonomy_tree.leaf_level"
LEAVES = "taxonomy_tree.all_leaves"
ROWP = f"{FP}['cluster_to_row']"
GP = f"{FP}['sum'].shape[1]"

# the leaf level as TaxonomyTree presents it (convert_tree_to_leaves, C10): every leaf is a node of
# the leaf level whose only leaf is itself; leaf names are the keys of a dict
LEAF_REQ = [
    f"{LL} in {AL}",
    f"all(x in {AL}[{LL}] and len({AL}[{LL}][x]) == 1 and {AL}[{LL}][x][0] == x for x in {LEAVES})",
    f"dupfree({LEAVES})", f"len({LEAVES}) >= 1",
]


def _centroid(row, g, leaf):
    return (f"{row}[{g}] == {FP}['sum'][{ROWP}[{leaf}], {g}] / max(1, {FP}['n_cells'][{ROWP}[{leaf}]])")


def _gen_leaf_means(rng, size):
    d = _gen_read_stats(rng, size)
    return dict(taxonomy_tree=d['taxonomy_tree'], precompute_path=d['precomputed_stats_path'],
                for_marker_selection=d['for_marker_selection'])


# (view `#c18`: the plain name carries the bounded C02 contract of c_matching.py)
contract(
    MT + 'get_leaf_means#c18',
    properties=['C18'],
    mode='slice', unexpected_exceptions='allowed',
    tracked=['taxonomy_tree', 'precompute_path', 'for_marker_selection', 'precomputed_stats', 'leaf_names',
             'n_cells', 'data', 'i_leaf', 'leaf', 'leaf_key', 'stats', 'this_mean', 'n_genes', 'result'],
    params=dict(taxonomy_tree='C18Tree', precompute_path='Name', for_marker_selection='Bool'),
    locals=dict(precomputed_stats='C18Stats', leaf_names='List[Name]', data='Opt[Arr2[Real]]', stats='C18Node',
                this_mean='Arr[Real]'),
    returns='C18CBG',
    native=dict(gen=_gen_leaf_means),
    assumptions=['A-TREE (see read_precomputed_stats); all_leaves returns a fresh list (sorting it does not touch the tree)',
                 'A-CBG: CellByGeneMatrix(...) stores data, gene_identifiers, cell_identifiers, normalization '
                 '(deep copies of the identifier lists) or raises'],
    requires=_for_path(VALID_FILE2 + TREE_REQ) + LEAF_REQ,
    ensures=[
        "result.normalization == 'log2CPM'",
        # genes by NAME: the columns are the file's gene names in file order
        f"result.gene_identifiers == {FP}['col_names']",
        # clusters by NAME: the rows are labelled with the sorted leaf names ...
        f"len(result.cell_identifiers) == len({LEAVES})", "sorted_nondecr(result.cell_identifiers)",
        f"all(x in {LEAVES} for x in result.cell_identifiers)",
        f"all(x in result.cell_identifiers for x in {LEAVES})",
        # ... and row i holds the centroid of the cluster named cell_identifiers[i]: the row that the
        # file's own cluster_to_row table gives that name, divided by its n_cells
        f"result.data.shape[0] == len({LEAVES}) and result.data.shape[1] == {GP}",
        f"all(result.data[i, g] == {FP}['sum'][{ROWP}[result.cell_identifiers[i]], g] / "
        f"max(1, {FP}['n_cells'][{ROWP}[result.cell_identifiers[i]]]) "
        f"for i in range(len(result.cell_identifiers)) for g in range({GP}))",
    ],
    loops={
        0: [f"implies(_i >= 1, data is not None and some(data).shape[0] == n_cells and some(data).shape[1] == {GP} and "
            f"all(some(data)[r, g] == {FP}['sum'][{ROWP}[leaf_names[r]], g] / "
            f"max(1, {FP}['n_cells'][{ROWP}[leaf_names[r]]]) for r in range(_i) for g in range({GP})))",
            "implies(_i == 0, data is None)"],
    },
)


# ---------------------------------------------------------------------------------------------
# create_raw_marker_gene_lookup: the marker table is keyed by NAME - 'None' for the root, 'level/node'
# for the parent (level, node) - with the same naming function f'{level}/{node}' under which
# read_precomputed_stats files the statistics of that node; two parents never share a key
# (RuntimeError otherwise), and every parent keeps its own marker list.
# ---------------------------------------------------------------------------------------------
MC = 'cell_type_mapper.type_assignment.marker_cache_v2.'
record('C18Lookup', _rest='Dict[Name,List[Name]]', log='Opaque')

PARENT = 'Opt[Tuple[Name,Name]]'


def _keyof(p):
    return f"('None' if {p} is None else f'{{some({p})[0]}}/{{some({p})[1]}}')"


contract(
    MC + 'create_raw_marker_gene_lookup',
    properties=['C18'],
    mode='slice', unexpected_exceptions='allowed',
    tracked=['marker_lookup', 'created_groups', 'reformatted_lookup', 'parent_list', 'parent', 'parent_grp'],
    params=dict(parent_list=f'Opt[List[{PARENT}]]'),
    locals=dict(marker_lookup=f'Dict[{PARENT},List[Name]]', reformatted_lookup='C18Lookup',
                created_groups='Set[Name]', parent_grp='Name'),
    returns='C18Lookup',
    requires=[],
    inline_asserts={
        # the table select_all_markers returned (parent -> marker names), before it is re-keyed
        'created_groups = set()': ["ghost ML0 = marker_lookup"],
    },
    ensures=[
        f"all({_keyof('p')} in result and mc_same(result[{_keyof('p')}], ML0[p]) for p in ML0)",
    ],
    loops={
        0: [f"all({_keyof('parent_list[i]')} in created_groups and {_keyof('parent_list[i]')} in reformatted_lookup "
            f"and mc_same(reformatted_lookup[{_keyof('parent_list[i]')}], ML0[parent_list[i]]) for i in range(_i))",
            "all(parent_list[i] in marker_lookup and mc_same(marker_lookup[parent_list[i]], ML0[parent_list[i]]) "
            "for i in range(_i, len(parent_list)))",
            "all(parent_list[i] in ML0 for i in range(len(parent_list)))",
            "all(any(parent_list[i] == p for i in range(len(parent_list))) for p in ML0)"],
    },
)


# ---------------------------------------------------------------------------------------------
# _prep_output_file (BOUNDED, not proved: itertools.combinations + h5py writes are outside the
# prover): the reference marker file carries the gene names it is given (read_precomputed_stats'
# gene_names = the statistics file's col_names, passed through unchanged by the caller) and a pair
# index over the taxonomy's own leaf NAMES: every unordered pair of distinct leaves exactly once,
# as (leaf_level, a, b) with a < b, `pair_to_idx[leaf_level][a][b]` the inverse of the returned table.
# ---------------------------------------------------------------------------------------------
MK = 'cell_type_mapper.diff_exp.markers.'


def _marker_file(path):
    import json
    import h5py
    with h5py.File(path, 'r') as f:
        return dict(gene_names=json.loads(f['gene_names'][()].decode('utf-8')),
                    pair_to_idx=json.loads(f['pair_to_idx'][()].decode('utf-8')),
                    n_pairs=int(f['n_pairs'][()]), keys=sorted(f.keys()))


def _gen_prep(rng, size):
    import os
    tree = gen_valid_tree(rng, size + 1)
    genes = [f"g{i}" for i in range(rng.randint(0, size + 1))]
    rng.shuffle(genes)
    path = os.path.join(_tmp_dir(), f"refmarkers_{os.getpid()}_{rng.randrange(10**9)}.h5")
    return dict(output_path=path, taxonomy_tree=_mk_tree(tree), gene_names=genes)


def _all_pairs(tt):
    lv = sorted(tt.all_leaves)
    return [(tt.leaf_level, a, b) for i, a in enumerate(lv) for b in lv[i + 1:]]


contract(
    MK + '_prep_output_file',
    properties=['C18'], mode='bounded',
    params=dict(output_path='Name', taxonomy_tree='Opaque', gene_names='List[Name]'),
    requires=[],
    ensures=[
        "marker_file(output_path)['gene_names'] == gene_names",
        "gene_names == old(gene_names)",
        # the returned table enumerates every pair of distinct leaves once, in sorted order
        "[tuple(result[i]) for i in range(len(result))] == all_pairs(taxonomy_tree)",
        "marker_file(output_path)['n_pairs'] == len(result)",
        # the stored pair index is its inverse, keyed by leaf level and leaf NAMES
        "all(marker_file(output_path)['pair_to_idx'][result[i][0]][result[i][1]][result[i][2]] == i "
        "for i in range(len(result)))",
        "sum(len(bs) for lvl in marker_file(output_path)['pair_to_idx'].values() for bs in lvl.values()) == len(result)",
        "set(marker_file(output_path)['pair_to_idx']) <= {taxonomy_tree.leaf_level}",
    ],
    native=dict(gen=_gen_prep, bound='seeded random: taxonomies <= 3 levels / <= 7 leaves (single-child nodes '
                                     'included), 0-5 gene names in arbitrary order',
                env=dict(marker_file=_marker_file, all_pairs=_all_pairs, tuple=tuple, sum=sum, set=set, len=len)),
    note="bounded: combinatorial enumeration and HDF5 writes; checked on the file read back",
)
