"""cell_type_mapper.type_assignment.election  (C02.a-c, C03, C01.d, C06.a/c)

Specification vocabulary (pyvc/ext/election.py): `rowsum(M, i)` = sum of row i (a fold with
lemmas proved by induction), `pcorr` (Pearson correlation, uninterpreted), `Rng` (random
generator: `choice(a, k, replace=False)` is a duplicate-free selection, nothing else is known
about the stream - so every fact proved below holds for every random stream).
"""
from pyvc.contracts import contract, REGISTRY
import pyvc.ext.election as _ext

_ext.install()

M = 'cell_type_mapper.type_assignment.election.'

# torch is absent in the verified configuration (ASSUMPTIONS_ALWAYS: GPU/torch paths not verified)
if REGISTRY.get('cell_type_mapper.utils.torch_utils.use_torch') is None:
    contract(
        'cell_type_mapper.utils.torch_utils.use_torch',
        properties=['C02'], trusted=True, params=dict(), returns='Bool',
        ensures=["result == False"],
        note="torch is not importable in the verified configuration; GPU paths are not verified",
    )


# ---------------------------------------------------------------------------------------------
# tally_votes  (C02.a, C06.a)
# ---------------------------------------------------------------------------------------------
def _gen_tally(rng, size):
    import numpy as np
    n_q = rng.randint(1, size)
    n_ref = rng.randint(1, size)
    n_g = rng.randint(1, size + 2)
    q = np.array([[float(rng.randint(0, 5)) for _ in range(n_g)] for _ in range(n_q)]).reshape(n_q, n_g)
    r = np.array([[float(rng.randint(0, 5)) for _ in range(n_g)] for _ in range(n_ref)]).reshape(n_ref, n_g)
    factor = rng.choice([1.0, 1.0, 0.5, 0.9, 0.1, 0.25, 0.75, 1.0 / 3.0, 0.01])
    return dict(query_gene_data=q, reference_gene_data=r, bootstrap_factor=factor,
                bootstrap_iteration=rng.choice([1, 1, 2, 3, 7, 300]),
                rng=np.random.default_rng(rng.randint(0, 2**31)), gpu_index=0, timers=None)


TALLY_REQ = [
    "query_gene_data.shape[1] == reference_gene_data.shape[1]",
    "query_gene_data.shape[1] >= 1",                 # n usable marker genes at the node
    "reference_gene_data.shape[0] >= 1",             # there is something to choose from
    "0 < bootstrap_factor and bootstrap_factor <= 1",
    "bootstrap_iteration >= 1",
    # S-6 (known finding of choose_int_dtype): vote counts beyond uint64 are not representable
    "bootstrap_iteration <= 18446744073709551615",
]

contract(
    M + 'tally_votes',
    properties=['C02', 'C03', 'C06'],
    native=dict(gen=_gen_tally),
    params=dict(query_gene_data='Arr2[Real]', reference_gene_data='Arr2[Real]', bootstrap_factor='Real',
                bootstrap_iteration='Int', rng='Rng', gpu_index='Int', timers='Opt[Opaque]'),
    returns='Tuple[Arr2[Int],Arr2[Real]]',
    locals={'__zeros_elem__': 'Int', 'neighbors': 'List[Arr[Int]]', 'corr': 'List[Arr[Real]]'},
    requires=TALLY_REQ,
    ensures=[
        "result[0].shape[0] == query_gene_data.shape[0] and result[0].shape[1] == reference_gene_data.shape[0]",
        "result[1].shape[0] == query_gene_data.shape[0] and result[1].shape[1] == reference_gene_data.shape[0]",
        # one vote per cell and iteration: counts are non-negative, bounded by the number of
        # iterations, and every row sums to the number of iterations
        "all(0 <= result[0][i, j] and result[0][i, j] <= bootstrap_iteration "
        "for i in range(result[0].shape[0]) for j in range(result[0].shape[1]))",
        "all(rowsum(result[0], i) == bootstrap_iteration for i in range(result[0].shape[0]))",
        # no correlation is accumulated where no vote was cast
        "all(implies(result[0][i, j] == 0, result[1][i, j] == 0) "
        "for i in range(result[0].shape[0]) for j in range(result[0].shape[1]))",
    ],
    inline_asserts={
        # sizing of the bootstrap sample: max(1, round_half_even(factor * n))
        "result_shape =": [
            "n_markers == query_gene_data.shape[1]",
            "n_bootstrap == max(1, rnd(bootstrap_factor * n_markers))",
            "1 <= n_bootstrap and n_bootstrap <= n_markers",
        ],
        # the integer type chosen for the vote counts holds every possible count 0 .. iterations
        "vote_dtype = choose_int_dtype(": [
            "iinfo_min(vote_dtype) <= 0 and bootstrap_iteration <= iinfo_max(vote_dtype)",
        ],
        # the subset of one iteration: that size, inside [0, n), sorted and duplicate free;
        # C06.a: with factor 1 it is arange(n), whatever the random stream
        "chosen_idx = np.sort(chosen_idx)": [
            "len(chosen_idx) == n_bootstrap",
            "all(0 <= chosen_idx[k] and chosen_idx[k] < n_markers for k in range(len(chosen_idx)))",
            "sorted_strict(chosen_idx)",
            "implies(bootstrap_factor == 1, len(chosen_idx) == n_markers and "
            "all(chosen_idx[k] == k for k in range(n_markers)))",
        ],
        # the SAME index array selects the query columns and the reference columns
        "bootstrap_reference = reference_gene_data[:, chosen_idx]": [
            "bootstrap_query.shape[0] == query_gene_data.shape[0] and bootstrap_query.shape[1] == len(chosen_idx)",
            "bootstrap_reference.shape[0] == reference_gene_data.shape[0] and "
            "bootstrap_reference.shape[1] == len(chosen_idx)",
            "all(bootstrap_query[i, k] == query_gene_data[i, chosen_idx[k]] "
            "for i in range(query_gene_data.shape[0]) for k in range(len(chosen_idx)))",
            "all(bootstrap_reference[i, k] == reference_gene_data[i, chosen_idx[k]] "
            "for i in range(reference_gene_data.shape[0]) for k in range(len(chosen_idx)))",
        ],
        # the vote of an iteration goes to a nearest reference row of the down-sampled profiles
        "these_neighbors, these_corr =": [
            "len(these_neighbors) == query_gene_data.shape[0]",
            # ... computed from the SAME columns of query and reference (still true at the call)
            "all(bootstrap_query[i, k] == query_gene_data[i, chosen_idx[k]] "
            "for i in range(query_gene_data.shape[0]) for k in range(len(chosen_idx)))",
            "all(bootstrap_reference[i, k] == reference_gene_data[i, chosen_idx[k]] "
            "for i in range(reference_gene_data.shape[0]) for k in range(len(chosen_idx)))",
            "sorted_strict(chosen_idx) and len(chosen_idx) == n_bootstrap",
            "all(pcorr(bootstrap_reference, these_neighbors[q], bootstrap_query, q) >= "
            "pcorr(bootstrap_reference, r, bootstrap_query, q) for q in range(query_gene_data.shape[0]) "
            "for r in range(reference_gene_data.shape[0]))",
            "all(these_corr[q] == pcorr(bootstrap_reference, these_neighbors[q], bootstrap_query, q) "
            "for q in range(query_gene_data.shape[0]))",
        ],
    },
    loops={
        0: ["len(neighbors) == _n and len(corr) == _n",
            "implies(i_iteration >= bootstrap_iteration, _n == bootstrap_iteration)",
            "all(len(neighbors[k]) == query_gene_data.shape[0] and len(corr[k]) == query_gene_data.shape[0] "
            "for k in range(len(neighbors)))",
            "all(0 <= neighbors[k][q] and neighbors[k][q] < reference_gene_data.shape[0] "
            "for k in range(len(neighbors)) for q in range(query_gene_data.shape[0]))"],
        1: ["votes.shape[0] == query_gene_data.shape[0] and votes.shape[1] == reference_gene_data.shape[0]",
            "corr_sum.shape[0] == query_gene_data.shape[0] and corr_sum.shape[1] == reference_gene_data.shape[0]",
            "all(0 <= votes[i, j] and votes[i, j] <= _i for i in range(votes.shape[0]) for j in range(votes.shape[1]))",
            "all(rowsum(votes, i) == _i for i in range(votes.shape[0]))",
            "all(implies(votes[i, j] == 0, corr_sum[i, j] == 0) "
            "for i in range(votes.shape[0]) for j in range(votes.shape[1]))"],
    },
)


# ---------------------------------------------------------------------------------------------
# aggregate_votes  (C02.b)
# ---------------------------------------------------------------------------------------------
def _gen_agg(rng, size):
    import numpy as np
    n_q = rng.randint(0, size)
    n_ref = rng.randint(0, size + 1)
    pool = ['b', 'a', 'c', 'aa', 'B'][:rng.randint(1, 5)]
    types = [rng.choice(pool) for _ in range(n_ref)]
    v = np.array([[rng.randint(0, 4) for _ in range(n_ref)] for _ in range(n_q)], dtype=int).reshape(n_q, n_ref)
    c = np.array([[rng.uniform(-1, 1) * v[i, j] for j in range(n_ref)] for i in range(n_q)],
                 dtype=float).reshape(n_q, n_ref)
    return dict(vote_array=v, correlation_array=c, reference_types=types)


AGG_PARAMS = dict(vote_array='Arr2[Int]', correlation_array='Arr2[Real]', reference_types='List[Name]')
AGG_REQ = ["vote_array.shape[1] == len(reference_types)",
           "correlation_array.shape[0] == vote_array.shape[0] and correlation_array.shape[1] == vote_array.shape[1]"]

contract(
    M + 'aggregate_votes',
    # C04: the column order of the aggregated arrays (hence the tie-breaking of choose_node's argsort)
    # is the sorted order of the type names, not the iteration order of a set of strings
    properties=['C02', 'C03', 'C04'],
    native=dict(gen=_gen_agg),
    params=AGG_PARAMS,
    returns='Tuple[Arr2[Int],Arr2[Real],List[Name]]',
    locals={'__zeros_elem__': 'Int'},
    requires=AGG_REQ,
    ensures=[
        # the output types are the distinct input types, sorted
        "sorted_strict(result[2])",
        "all(t in reference_types for t in result[2])",
        "all(t in result[2] for t in reference_types)",
        "result[0].shape[0] == vote_array.shape[0] and result[0].shape[1] == len(result[2])",
        "result[1].shape[0] == vote_array.shape[0] and result[1].shape[1] == len(result[2])",
        # column k = sum over the leaves (input columns) owned by child k
        "all(result[0][i, k] == rowsum(vote_array[:, positions(reference_types, result[2][k])], i) "
        "for i in range(vote_array.shape[0]) for k in range(len(result[2])))",
        "all(close(result[1][i, k], rowsum(correlation_array[:, positions(reference_types, result[2][k])], i)) "
        "for i in range(vote_array.shape[0]) for k in range(len(result[2])))",
        # a row of non-negative votes stays non-negative and every leaf's votes are counted
        # in the column of its owner
        # aggregation preserves the row sums of the votes (the same clause for the correlation sums
        # is slow / unstable for the solvers: it is checked in the bounded view aggregate_votes#rowsum)
        "all(rowsum(result[0], i) == rowsum(vote_array, i) for i in range(vote_array.shape[0]))",
        "all(implies(all(vote_array[i, jj] >= 0 for jj in range(vote_array.shape[1])), result[0][i, k] >= 0) "
        "for i in range(vote_array.shape[0]) for k in range(len(result[2])))",
        "all(implies(all(vote_array[i, jj] >= 0 for jj in range(vote_array.shape[1])) "
        "and reference_types[j] == result[2][k], result[0][i, k] >= vote_array[i, j]) "
        "for i in range(vote_array.shape[0]) for j in range(vote_array.shape[1]) for k in range(len(result[2])))",
    ],
    loops={0: [
        "vote_array_agg.shape[0] == vote_array.shape[0] and vote_array_agg.shape[1] == len(unq_types)",
        "corr_array_agg.shape[0] == vote_array.shape[0] and corr_array_agg.shape[1] == len(unq_types)",
        "all(vote_array_agg[i, k] == rowsum(vote_array[:, positions(reference_types, unq_types[k])], i) "
        "for i in range(vote_array.shape[0]) for k in range(_i))",
        "all(corr_array_agg[i, k] == rowsum(correlation_array[:, positions(reference_types, unq_types[k])], i) "
        "for i in range(vote_array.shape[0]) for k in range(_i))",
        # row sums: the columns not yet filled are zero; the filled ones hold the votes of the
        # leaves whose type sorts below the next one (all of them at the end)
        "all(vote_array_agg[i, k] == 0 and corr_array_agg[i, k] == 0 "
        "for i in range(vote_array.shape[0]) for k in range(_i, len(unq_types)))",
        "all(implies(_i < len(unq_types), "
        "rowsum(vote_array_agg, i) == rowsum(cols_below(vote_array, reference_types, unq_types[_i]), i)) "
        "for i in range(vote_array.shape[0]))",
        "all(implies(_i == len(unq_types), rowsum(vote_array_agg, i) == rowsum(vote_array, i)) "
        "for i in range(vote_array.shape[0]))",
    ]},
)


def _enum_agg(size):
    """every assignment of <= 4 leaves to <= 3 children, every vote row over {0,1,2}; 1 or 2 query rows"""
    import itertools
    import numpy as np
    names = ['b', 'a', 'c']
    for n_ref in range(0, 5):
        for types in itertools.product(names, repeat=n_ref):
            for row in itertools.product((0, 1, 2), repeat=n_ref):
                rows = [list(row)] if sum(row) % 2 == 0 else [list(row), list(reversed(row))]
                v = np.array(rows, dtype=int).reshape(len(rows), n_ref)
                c = (v * 0.25).astype(float)
                yield dict(vote_array=v, correlation_array=c, reference_types=list(types))


contract(
    M + 'aggregate_votes#rowsum',
    properties=['C02', 'C03'], mode='bounded',
    native=dict(enumerate=_enum_agg, gen=_gen_agg,
                bound='exhaustive: <= 4 leaves, <= 3 children, votes per leaf in {0,1,2}, 1-2 query rows'),
    params=AGG_PARAMS,
    returns='Tuple[Arr2[Int],Arr2[Real],List[Name]]',
    requires=AGG_REQ,
    ensures=[
        # aggregation preserves the row sums (votes: also proved in the main contract; correlation sums: here only)
        "all(rowsum(result[0], i) == rowsum(vote_array, i) for i in range(vote_array.shape[0]))",
        "all(close(rowsum(result[1], i), rowsum(correlation_array, i)) for i in range(vote_array.shape[0]))",
        "all(result[0][i, k] <= rowsum(vote_array, i) for i in range(vote_array.shape[0]) "
        "for k in range(len(result[2])))",
    ],
    note="row sums of the correlation sums: bounded stand-in; votes: native cross-check of the proved clause",
)


# ---------------------------------------------------------------------------------------------
# choose_node  (C02.c, C03)
# ---------------------------------------------------------------------------------------------
RUP = 'Tuple[Name,Bool,Real,Real]'
CHOOSE_PARAMS = dict(query_gene_data='Arr2[Real]', reference_gene_data='Arr2[Real]', reference_types='List[Name]',
                     bootstrap_factor='Real', bootstrap_iteration='Int', rng='Rng', n_assignments='Int',
                     gpu_index='Int', timers='Opt[Opaque]')
CHOOSE_RET = f'Tuple[Arr[Name],Arr[Real],Arr[Real],List[List[{RUP}]]]'
CHOOSE_REQ = TALLY_REQ + [
    "len(reference_types) == reference_gene_data.shape[0]",
    "query_gene_data.shape[0] >= 1",        # run_type_assignment skips parents without cells
    "n_assignments >= 1",                   # = number of runners-up requested + 1
]


def _gen_choose(rng, size):
    import numpy as np
    g = _gen_tally(rng, size)
    n_ref = g['reference_gene_data'].shape[0]
    pool = ['b', 'a', 'c', 'd'][:rng.randint(1, 4)]
    if rng.random() < 0.4:
        types = [f"t{k}" for k in range(n_ref)]
        rng.shuffle(types)
    else:
        types = [rng.choice(pool) for _ in range(n_ref)]
    g.update(reference_types=types, n_assignments=rng.choice([1, 1, 2, 3, 10]))
    return g


contract(
    M + 'choose_node',
    properties=['C02', 'C03'],
    native=dict(gen=_gen_choose),
    params=CHOOSE_PARAMS, returns=CHOOSE_RET,
    requires=CHOOSE_REQ,
    ensures=[
        # one answer per query cell
        "len(result[0]) == query_gene_data.shape[0] and len(result[1]) == query_gene_data.shape[0] "
        "and len(result[2]) == query_gene_data.shape[0] and len(result[3]) == query_gene_data.shape[0]",
        "all(result[0][i] in reference_types for i in range(len(result[0])))",
        # C03: the probability is a whole number of votes out of the iterations and lies in (0, 1]
        "all(0 < result[1][i] and result[1][i] <= 1 for i in range(len(result[1])))",
        # (whole number of votes: carried by the assertion `vote_fractions == V / bootstrap_iteration`
        #  with the integer matrix V below, and by the bounded view choose_node#shares)
        # runners-up: equal length, at most n_assignments - 1 entries
        "all(len(result[3][i]) == len(result[3][0]) and len(result[3][i]) <= n_assignments - 1 "
        "for i in range(len(result[3])))",
        # ... the flag says whether any vote was received (zero-vote entries are dropped by the caller)
        "all(result[3][i][c][1] == (result[3][i][c][3] > 0) "
        "for i in range(len(result[3])) for c in range(len(result[3][i])))",
        # ... shares in non-increasing order, none larger than the winner's
        "all(result[3][i][c][3] <= result[1][i] for i in range(len(result[3])) for c in range(len(result[3][i])))",
        "all(result[3][i][c][3] >= result[3][i][d][3] "
        "for i in range(len(result[3])) for c in range(len(result[3][i])) for d in range(len(result[3][i])) if c < d)",
        # ... names are candidate types, pairwise distinct and distinct from the winner
        "all(result[3][i][c][0] in reference_types for i in range(len(result[3])) for c in range(len(result[3][i])))",
        "all(result[3][i][c][0] != result[0][i] for i in range(len(result[3])) for c in range(len(result[3][i])))",
        "all(result[3][i][c][0] != result[3][i][d][0] "
        "for i in range(len(result[3])) for c in range(len(result[3][i])) for d in range(len(result[3][i])) if c < d)",
    ],
    inline_asserts={
        # V, C, reference_types: the (aggregated) vote counts, correlation sums and candidate
        # types the decision is taken on
        "n_assignments = min(n_assignments, votes.shape[1])": [
            "ghost V = votes",
            "ghost C = corr_sum",
            "dupfree(reference_types)",
            "V.shape[0] == query_gene_data.shape[0] and V.shape[1] == len(reference_types)",
            "C.shape[0] == V.shape[0] and C.shape[1] == V.shape[1]",
            "all(V[i, j] >= 0 for i in range(V.shape[0]) for j in range(V.shape[1]))",
            "1 <= n_assignments and n_assignments <= V.shape[1]",
            # every iteration cast exactly one vote for every cell (also after aggregation)
            "all(rowsum(V, i) == bootstrap_iteration for i in range(V.shape[0]))",
        ],
        "runners_up = [": [
            "sorted_by_votes.shape[0] == V.shape[0] and sorted_by_votes.shape[1] == n_assignments",
            "all(0 <= sorted_by_votes[i, c] and sorted_by_votes[i, c] < V.shape[1] "
            "for i in range(V.shape[0]) for c in range(n_assignments))",
            # the listed columns are pairwise distinct, in non-increasing vote order, and no
            # column that is not listed has more votes than a listed one
            "all(sorted_by_votes[i, c] != sorted_by_votes[i, d] "
            "for i in range(V.shape[0]) for c in range(n_assignments) for d in range(n_assignments) if c < d)",
            "all(V[i, sorted_by_votes[i, c]] >= V[i, sorted_by_votes[i, d]] "
            "for i in range(V.shape[0]) for c in range(n_assignments) for d in range(n_assignments) if c < d)",
            "all(implies(all(sorted_by_votes[i, c] != j for c in range(n_assignments)), "
            "V[i, j] <= V[i, sorted_by_votes[i, n_assignments - 1]]) "
            "for i in range(V.shape[0]) for j in range(V.shape[1]))",
            # C02.c: the winner is an arg-max of the votes, its probability its share of the
            # iterations, its average correlation its correlation sum over its votes
            "all(V[i, sorted_by_votes[i, 0]] >= V[i, j] for i in range(V.shape[0]) for j in range(V.shape[1]))",
            "all(result[i] == reference_types[sorted_by_votes[i, 0]] for i in range(V.shape[0]))",
            # (the row sum is mentioned so that the lemmas about it apply to row i)
            "all(V[i, sorted_by_votes[i, 0]] <= rowsum(V, i) and rowsum(V, i) == bootstrap_iteration "
            "for i in range(V.shape[0]))",
            "all(1 <= V[i, sorted_by_votes[i, 0]] or rowsum(V, i) == 0 for i in range(V.shape[0]))",
            "all(1 <= V[i, sorted_by_votes[i, 0]] and V[i, sorted_by_votes[i, 0]] <= bootstrap_iteration "
            "for i in range(V.shape[0]))",
            "all(vote_fractions[i, c] == V[i, sorted_by_votes[i, c]] / bootstrap_iteration "
            "for i in range(V.shape[0]) for c in range(n_assignments))",
            "all(implies(V[i, sorted_by_votes[i, c]] > 0, "
            "avg_corr[i, c] == C[i, sorted_by_votes[i, c]] / V[i, sorted_by_votes[i, c]]) "
            "for i in range(V.shape[0]) for c in range(n_assignments))",
            # the runners-up are columns 1 .. n_assignments-1 of that order
            "len(runners_up) == V.shape[0]",
            "all(len(runners_up[i]) == n_assignments - 1 for i in range(V.shape[0]))",
            "all(runners_up[i][c][0] == reference_types[sorted_by_votes[i, c + 1]] "
            "and runners_up[i][c][1] == (V[i, sorted_by_votes[i, c + 1]] > 0) "
            "and runners_up[i][c][2] == avg_corr[i, c + 1] "
            "and runners_up[i][c][3] == V[i, sorted_by_votes[i, c + 1]] / bootstrap_iteration "
            "for i in range(V.shape[0]) for c in range(n_assignments - 1))",
        ],
    },
)


# ---- bounded views of choose_node: the clauses of C03 that need sums over the vote rows -------
def _choose_with_votes(votes, corr_sum, reference_types, bootstrap_iteration, n_assignments):
    """the real choose_node with tally_votes replaced by a stub that returns the given votes"""
    import numpy as np
    import cell_type_mapper.type_assignment.election as E
    real = E.tally_votes
    E.tally_votes = lambda **kw: (np.array(votes), np.array(corr_sum, dtype=float))
    try:
        n_q, n_ref = np.array(votes).shape
        return E.choose_node(query_gene_data=np.zeros((n_q, 2)), reference_gene_data=np.zeros((n_ref, 2)),
                             reference_types=list(reference_types), bootstrap_factor=1.0,
                             bootstrap_iteration=bootstrap_iteration, rng=np.random.default_rng(0),
                             n_assignments=n_assignments)
    finally:
        E.tally_votes = real


def _compositions(total, parts):
    if parts == 0:
        if total == 0:
            yield ()
        return
    for first in range(total + 1):
        for rest in _compositions(total - first, parts - 1):
            yield (first,) + rest


def _enum_choose(size):
    """every vote row (iterations <= 3 spread over <= 4 leaves), every assignment of the leaves to
    <= 3 children, every n_assignments in 1..4; two query rows (the row and its reverse)"""
    import itertools
    import numpy as np
    for n_ref in range(1, 5):
        for types in itertools.product(['b', 'a', 'c'], repeat=n_ref):
            for it in (1, 2, 3):
                for row in _compositions(it, n_ref):
                    v = np.array([row, row[::-1]], dtype=int)
                    c = v * np.array([[0.5], [-0.25]])
                    for n_as in (1, 2, 3, 4):
                        yield dict(votes=v, corr_sum=c, reference_types=list(types),
                                   bootstrap_iteration=it, n_assignments=n_as)


SHARES = [
    # the probability is a whole number v of votes out of the iterations, 1 <= v <= iterations
    "all(abs(result[1][i] * bootstrap_iteration - round(result[1][i] * bootstrap_iteration)) < 1e-9 "
    "and 1 <= round(result[1][i] * bootstrap_iteration) <= bootstrap_iteration for i in range(len(result[1])))",
    # listed (= flagged) runners-up have a strictly positive share; winner + runners-up <= 1,
    # and = 1 when every sibling could be listed
    "all(sum(r[3] for r in result[3][i] if r[1]) + result[1][i] <= 1 + 1e-9 for i in range(len(result[1])))",
    "all(implies(n_assignments >= len(set(reference_types)), "
    "abs(sum(r[3] for r in result[3][i] if r[1]) + result[1][i] - 1) < 1e-9) for i in range(len(result[1])))",
    "all(len(result[3][i]) == min(n_assignments, len(set(reference_types))) - 1 for i in range(len(result[3])))",
    "all(implies(r[1], r[3] > 0) and implies(not r[1], r[3] == 0) for i in range(len(result[3])) for r in result[3][i])",
    # once a runner-up has no vote, none of the later ones has
    "all(implies(not result[3][i][c][1], not result[3][i][c + 1][1]) "
    "for i in range(len(result[3])) for c in range(len(result[3][i]) - 1))",
]

contract(
    M + 'choose_node#shares',
    properties=['C03', 'C02'], mode='bounded',
    native=dict(call=_choose_with_votes, enumerate=_enum_choose, max_enumerated=400000,
                bound='exhaustive: iterations <= 3, <= 4 leaves, <= 3 children, n_assignments 1..4 '
                      '(tally_votes stubbed by the enumerated vote matrix)'),
    params=dict(votes='Arr2[Int]', corr_sum='Arr2[Real]', reference_types='List[Name]',
                bootstrap_iteration='Int', n_assignments='Int'),
    returns=CHOOSE_RET,
    requires=["all(sum(votes[i, :]) == bootstrap_iteration for i in range(votes.shape[0]))"],
    ensures=SHARES + [
        # the winner is a child with the most aggregated votes, with exactly that share and
        # the mean correlation of its votes
        "all(result[1][i] * bootstrap_iteration + 1e-9 >= max("
        "sum(votes[i, j] for j in range(votes.shape[1]) if reference_types[j] == t) for t in set(reference_types)) "
        "for i in range(votes.shape[0]))",
        "all(abs(result[1][i] * bootstrap_iteration - "
        "sum(votes[i, j] for j in range(votes.shape[1]) if reference_types[j] == result[0][i])) < 1e-9 "
        "for i in range(votes.shape[0]))",
        "all(abs(result[2][i] * result[1][i] * bootstrap_iteration - "
        "sum(corr_sum[i, j] for j in range(votes.shape[1]) if reference_types[j] == result[0][i])) < 1e-9 "
        "for i in range(votes.shape[0]))",
        # every vote-getting child that is not the winner is listed when there is room for it
        "all(implies(n_assignments >= len(set(reference_types)), "
        "set(r[0] for r in result[3][i] if r[1]) | {result[0][i]} == "
        "set(reference_types[j] for j in range(votes.shape[1]) if votes[i, j] > 0)) "
        "for i in range(votes.shape[0]))",
    ],
    note="C03 share arithmetic of choose_node (sums over vote rows): bounded stand-in",
)

contract(
    M + 'choose_node#shares_random',
    properties=['C03'], mode='bounded',
    native=dict(gen=_gen_choose, bound='seeded random: <= 4 cells, <= 4 leaves, <= 6 genes, real tally_votes'),
    params=CHOOSE_PARAMS, returns=CHOOSE_RET,
    requires=CHOOSE_REQ,
    ensures=SHARES + ["all(-1 - 1e-9 <= result[2][i] <= 1 + 1e-9 for i in range(len(result[2])))"],
)


# ---------------------------------------------------------------------------------------------
# run_type_assignment  (C01.d, C03, C06.c) - bounded stand-in (DESIGN 4, C01.d fallback B)
#
# The real run_type_assignment is executed on every taxonomy with <= 3 levels and <= 4 leaves
# (single-child chains and a single node at the top level included - D-1) x every assignment
# of <= 3 cells to preferred leaves.  `_run_type_assignment` (marker lookup + election, verified
# separately above) is replaced by a stub whose answer for a row is a function of that row's
# OWN data: the child on the way to the leaf the row prefers, with a per-cell probability,
# correlation and runner-up list.  A cell routed through another cell's row, a child written
# under the wrong parent, a missing level or a wrong fill / product shows as a clause failure.
# ---------------------------------------------------------------------------------------------
def _trees(max_levels=3, max_leaves=4):
    """all ordered groupings: a taxonomy is a chain of partitions of consecutive nodes"""
    def groupings(n):          # compositions of n = sizes of consecutive groups
        if n == 0:
            yield ()
            return
        for first in range(1, n + 1):
            for rest in groupings(n - first):
                yield (first,) + rest

    def build(n_leaves, n_levels):
        # from the leaf level upwards: each level groups the nodes of the level below
        def rec(level_nodes, levels_left):
            if levels_left == 0:
                yield []
                return
            for comp in groupings(len(level_nodes)):
                parents, k = {}, 0
                for gi, size in enumerate(comp):
                    parents[f"L{levels_left}n{gi}"] = level_nodes[k:k + size]
                    k += size
                for above in rec(list(parents), levels_left - 1):
                    yield above + [parents]
        leaves = [f"leaf{k}" for k in range(n_leaves)]
        for upper in rec(leaves, n_levels - 1):
            hierarchy = [f"lvl{k}" for k in range(n_levels)]
            tree = {'hierarchy': hierarchy}
            for name, level in zip(hierarchy[:-1], upper):
                tree[name] = {p: list(ch) for p, ch in level.items()}
            tree[hierarchy[-1]] = {leaf: [k] for k, leaf in enumerate(leaves)}
            yield tree
    for n_levels in range(1, max_levels + 1):
        for n_leaves in range(1, max_leaves + 1):
            yield from build(n_leaves, n_levels)


def _leaf_ancestors(tree, leaf):
    """level -> ancestor of `leaf` at that level"""
    H = tree['hierarchy']
    out = {H[-1]: leaf}
    for up, dn in zip(H[-2::-1], H[:0:-1]):
        out[up] = [p for p, ch in tree[up].items() if out[dn] in ch][0]
    return out


def _cell_numbers(pref, n_leaves):
    return (1.0 + pref) / (n_leaves + 1.0), 0.1 * (pref + 1)      # probability, correlation


def _level_corr(pref, k):
    """average correlation the stubbed election reports for a cell at level index k: exactly 0.0 at
    k = pref + 1 (a legitimate value - a cell constant over a node's markers - that must not be
    mistaken for 'no value'), negative below"""
    return 0.1 * (pref + 1) - 0.1 * k


def _run_with_stub(tree, prefs, n_assignments):
    import warnings
    import numpy as np
    import cell_type_mapper.type_assignment.election as E
    from cell_type_mapper.taxonomy.taxonomy_tree import TaxonomyTree
    from cell_type_mapper.cell_by_gene.cell_by_gene import CellByGeneMatrix
    H = tree['hierarchy']
    leaves = sorted(tree[H[-1]])
    with warnings.catch_warnings():
        warnings.simplefilter('ignore')
        tt = TaxonomyTree(data=tree)

    def stub(full_query_gene_data, leaf_node_matrix, marker_gene_cache_path, taxonomy_tree, parent_node,
             bootstrap_factor, bootstrap_iteration, rng, gpu_index=0, timers=None, n_assignments=10):
        children = sorted(tt.children(None, None) if parent_node is None else tt.children(*parent_node))
        child_level = H[0] if parent_node is None else H[H.index(parent_node[0]) + 1]
        a, p, c, r = [], [], [], []
        for row in full_query_gene_data.data:
            pref = int(row[0])
            prob, corr = _cell_numbers(pref, len(leaves))
            corr = _level_corr(pref, H.index(child_level))    # level dependent, see _expected_corr
            win = _leaf_ancestors(tree, leaves[pref])[child_level]
            assert win in children, "stub called for a parent that is not an ancestor of the cell's leaf"
            others = [ch for ch in children if ch != win]
            ru = [(others[0], True, corr / 2, 1.0 - prob)] + [(o, False, 0.0, 0.0) for o in others[1:]]
            a.append(win), p.append(prob), c.append(corr), r.append(ru[:max(0, min(n_assignments, len(children)) - 1)])
        return np.array(a), np.array(p), np.array(c), r
    real = E._run_type_assignment
    E._run_type_assignment = stub
    try:
        data = np.array([[float(pf), 100.0 + k] for k, pf in enumerate(prefs)]).reshape(len(prefs), 2)
        q = CellByGeneMatrix(data=data, gene_identifiers=['g0', 'g1'], normalization='log2CPM')
        lookup = {lv: 1.0 for lv in H}
        lookup['None'] = 1.0
        return E.run_type_assignment(full_query_gene_data=q, leaf_node_matrix=None, marker_gene_cache_path=None,
                                     taxonomy_tree=tt, bootstrap_factor_lookup=lookup, bootstrap_iteration=4,
                                     rng=np.random.default_rng(0), n_assignments=n_assignments)
    finally:
        E._run_type_assignment = real


def _enum_rta(size):
    import itertools
    for tree in _trees():
        n_leaves = len(tree[tree['hierarchy'][-1]])
        for n_cells in (1, 2, 3):
            for prefs in itertools.product(range(n_leaves), repeat=n_cells):
                if n_cells == 3 and prefs[0] > prefs[1]:
                    continue         # (symmetry: keeps the 3-cell scope small; order of cells 1,2 still varies)
                for n_as in (1, 3):
                    yield dict(tree=tree, prefs=list(prefs), n_assignments=n_as)


def _gen_rta(rng, size):
    trees = list(_trees(3, 5))
    tree = rng.choice(trees)
    n_leaves = len(tree[tree['hierarchy'][-1]])
    return dict(tree=tree, prefs=[rng.randrange(n_leaves) for _ in range(rng.randint(1, 5))],
                n_assignments=rng.choice([1, 2, 3, 10]))


def _expected(tree, pref, level):
    return _leaf_ancestors(tree, sorted(tree[tree['hierarchy'][-1]])[pref])[level]


def _has_choice(tree, pref, k):
    """did the cell face a real choice when its level-k node was picked?"""
    H = tree['hierarchy']
    if k == 0:
        return len(tree[H[0]]) > 1
    return len(tree[H[k - 1]][_expected(tree, pref, H[k - 1])]) > 1


def _expected_corr(tree, pref, k):
    """avg_correlation expected at level k: own value if a choice was made there, else that of
    the nearest level above with a choice, else (levels above the first choice) of the nearest below"""
    H = tree['hierarchy']
    above = [j for j in range(k, -1, -1) if _has_choice(tree, pref, j)]
    below = [j for j in range(k + 1, len(H)) if _has_choice(tree, pref, j)]
    if above:
        return _level_corr(pref, above[0])
    if below:
        return _level_corr(pref, below[0])
    return None


def _prod(xs):
    out = 1.0
    for x in xs:
        out *= x
    return out


RTA_ENV = dict(expected=_expected, has_choice=_has_choice, expected_corr=_expected_corr, prod=_prod,
               cell_numbers=_cell_numbers, H=lambda tree: tree['hierarchy'],
               n_leaves=lambda tree: len(tree[tree['hierarchy'][-1]]), isinstance=isinstance, dict=dict)

contract(
    M + 'run_type_assignment#bounded',
    properties=['C01', 'C02', 'C03', 'C06'], mode='bounded',
    native=dict(call=_run_with_stub, enumerate=_enum_rta, gen=_gen_rta, env=RTA_ENV, max_enumerated=400000,
                bound='exhaustive: every taxonomy with <= 3 levels and <= 4 leaves x <= 3 cells '
                      '(every preferred leaf) x n_assignments in {1,3}; election stubbed per cell'),
    params=dict(tree='Opaque', prefs='List[Int]', n_assignments='Int'),
    returns='Opaque',
    ensures=[
        # C01.d: one record per cell, every level present, no exception (an exception is a failure)
        "len(result) == len(prefs)",
        "all(set(result[i].keys()) == set(H(tree)) and all(isinstance(result[i][lv], dict) for lv in H(tree)) "
        "for i in range(len(prefs)))",
        # each assignment is a node of its level, child of the assignment one level up
        "all(result[i][H(tree)[0]]['assignment'] in tree[H(tree)[0]] for i in range(len(prefs)))",
        "all(result[i][H(tree)[k]]['assignment'] in tree[H(tree)[k - 1]][result[i][H(tree)[k - 1]]['assignment']] "
        "for i in range(len(prefs)) for k in range(1, len(H(tree))))",
        # C06.c: the record written for cell i is the one computed from cell i's own data
        "all(result[i][lv]['assignment'] == expected(tree, prefs[i], lv) for i in range(len(prefs)) for lv in H(tree))",
        "all(result[i][H(tree)[k]]['bootstrapping_probability'] == "
        "(cell_numbers(prefs[i], n_leaves(tree))[0] if has_choice(tree, prefs[i], k) else 1.0) "
        "for i in range(len(prefs)) for k in range(len(H(tree))))",
        # C03: single-child parent => probability 1, no runners-up; otherwise the flagged runners-up only
        "all(implies(not has_choice(tree, prefs[i], k), result[i][H(tree)[k]]['runner_up_assignment'] == [] and "
        "result[i][H(tree)[k]]['runner_up_probability'] == [] and result[i][H(tree)[k]]['runner_up_correlation'] == []) "
        "for i in range(len(prefs)) for k in range(len(H(tree))))",
        "all(len(result[i][lv]['runner_up_assignment']) == len(result[i][lv]['runner_up_probability']) == "
        "len(result[i][lv]['runner_up_correlation']) <= max(0, n_assignments - 1) and "
        "all(p > 0 for p in result[i][lv]['runner_up_probability']) and "
        "result[i][lv]['assignment'] not in result[i][lv]['runner_up_assignment'] "
        "for i in range(len(prefs)) for lv in H(tree))",
        # C03: avg_correlation = that of the nearest level with a real choice (None only if the
        # cell never faced a choice)
        "all(result[i][H(tree)[k]]['avg_correlation'] == expected_corr(tree, prefs[i], k) or "
        "abs(result[i][H(tree)[k]]['avg_correlation'] - expected_corr(tree, prefs[i], k)) < 1e-12 "
        "for i in range(len(prefs)) for k in range(len(H(tree))))",
        # C03: aggregate probability = running product from the top
        "all(abs(result[i][H(tree)[k]]['aggregate_probability'] - "
        "prod(result[i][H(tree)[j]]['bootstrapping_probability'] for j in range(k + 1))) < 1e-12 "
        "for i in range(len(prefs)) for k in range(len(H(tree))))",
    ],
    note="bounded stand-in for the A.1 invariant of run_type_assignment",
)


# ---------------------------------------------------------------------------------------------
# _run_type_assignment: marker lookup (matching.assemble_query_data) + election (choose_node)
# ---------------------------------------------------------------------------------------------
import contracts.c_matching  # noqa: E402,F401  (records CBGm / AQD, contract of assemble_query_data)

contract(
    M + '_run_type_assignment',
    properties=['C02', 'C03', 'C01'],
    params=dict(full_query_gene_data='CBGm', leaf_node_matrix='CBGm', marker_gene_cache_path='Opaque',
                taxonomy_tree='Opaque', parent_node='Opt[Tuple[Name,Name]]', bootstrap_factor='Real',
                bootstrap_iteration='Int', rng='Rng', gpu_index='Int', timers='Opt[Opaque]', n_assignments='Int'),
    returns=CHOOSE_RET,
    requires=[
        "full_query_gene_data.normalization == 'log2CPM' and leaf_node_matrix.normalization == 'log2CPM'",
        "full_query_gene_data.n_cells >= 1",
        "n_markers_for(marker_gene_cache_path, parent_node) >= 1",      # C08: every consulted parent has markers
        "0 < bootstrap_factor and bootstrap_factor <= 1", "bootstrap_iteration >= 1",
        "bootstrap_iteration <= 18446744073709551615", "n_assignments >= 1",
    ],
    ensures=[
        # one answer per cell of the matrix handed in, in its row order
        "len(result[0]) == full_query_gene_data.n_cells and len(result[1]) == full_query_gene_data.n_cells "
        "and len(result[2]) == full_query_gene_data.n_cells and len(result[3]) == full_query_gene_data.n_cells",
        "all(0 < result[1][i] and result[1][i] <= 1 for i in range(len(result[1])))",
        "all(len(result[3][i]) <= n_assignments - 1 for i in range(len(result[3])))",
        "all(result[3][i][c][1] == (result[3][i][c][3] > 0) "
        "for i in range(len(result[3])) for c in range(len(result[3][i])))",
        "all(result[3][i][c][3] <= result[1][i] for i in range(len(result[3])) for c in range(len(result[3][i])))",
        "all(result[3][i][c][0] != result[0][i] for i in range(len(result[3])) for c in range(len(result[3][i])))",
        "all(result[3][i][c][0] != result[3][i][d][0] "
        "for i in range(len(result[3])) for c in range(len(result[3][i])) for d in range(len(result[3][i])) if c < d)",
    ],
    inline_asserts={
        # the election is run on the matrices assemble_query_data returned, with its labels
        "query_data = assemble_query_data(": [
            "query_data['query_data'].data.shape[0] == full_query_gene_data.n_cells",
            "query_data['reference_data'].data.shape[0] == len(query_data['reference_types'])",
        ],
    },
)
