"""cell_type_mapper.type_assignment.election  (C02.a-c, C03, C01.d, C06.a/c)

Specification vocabulary (pyvc/ext/election.py): `rowsum(M, i)` = sum of row i (a fold with
lemmas proved by induction), `pcorr` (Pearson correlation, uninterpreted), `Rng` (random
generator: `choice(a, k, replace=False)` is a duplicate-free selection, nothing else is known
about the stream - so every fact proved below holds for every random stream).
"""
from pyvc.contracts import contract, REGISTRY
import pyvc.ext.election as _ext

_ext.install()

M = 'cell_type_mapper.type_assignment.election.'

# torch is absent in the verified configuration (ASSUMPTIONS_ALWAYS: GPU/torch paths not verified)
if REGISTRY.get('cell_type_mapper.utils.torch_utils.use_torch') is None:
    contract(
        'cell_type_mapper.utils.torch_utils.use_torch',
        properties=['C02'], trusted=True, params=dict(), returns='Bool',
        ensures=["result == False"],
        note="torch is not importable in the verified configuration; GPU paths are not verified",
    )


# ---------------------------------------------------------------------------------------------
# tally_votes  (C02.a, C06.a)
# ---------------------------------------------------------------------------------------------
def _gen_tally(rng, size):
    import numpy as np
    n_q = rng.randint(1, size)
    n_ref = rng.randint(1, size)
    n_g = rng.randint(1, size + 2)
    q = np.array([[float(rng.randint(0, 5)) for _ in range(n_g)] for _ in range(n_q)]).reshape(n_q, n_g)
    r = np.array([[float(rng.randint(0, 5)) for _ in range(n_g)] for _ in range(n_ref)]).reshape(n_ref, n_g)
    factor = rng.choice([1.0, 1.0, 0.5, 0.9, 0.1, 0.25, 0.75, 1.0 / 3.0, 0.01])
    return dict(query_gene_data=q, reference_gene_data=r, bootstrap_factor=factor,
                bootstrap_iteration=rng.choice([1, 1, 2, 3, 7, 300]),
                rng=np.random.default_rng(rng.randint(0, 2**31)), gpu_index=0, timers=None)


TALLY_REQ = [
    "query_gene_data.shape[1] == reference_gene_data.shape[1]",
    "query_gene_data.shape[1] >= 1",                 # n usable marker genes at the node
    "reference_gene_data.shape[0] >= 1",             # there is something to choose from
    "0 < bootstrap_factor and bootstrap_factor <= 1",
    "bootstrap_iteration >= 1",
    # S-6 (known finding of choose_int_dtype): vote counts beyond uint64 are not representable
    "bootstrap_iteration <= 18446744073709551615",
]

contract(
    M + 'tally_votes',
    properties=['C02', 'C03', 'C06'],
    native=dict(gen=_gen_tally),
    params=dict(query_gene_data='Arr2[Real]', reference_gene_data='Arr2[Real]', bootstrap_factor='Real',
                bootstrap_iteration='Int', rng='Rng', gpu_index='Int', timers='Opt[Opaque]'),
    returns='Tuple[Arr2[Int],Arr2[Real]]',
    locals={'__zeros_elem__': 'Int', 'neighbors': 'List[Arr[Int]]', 'corr': 'List[Arr[Real]]'},
    requires=TALLY_REQ,
    ensures=[
        "result[0].shape[0] == query_gene_data.shape[0] and result[0].shape[1] == reference_gene_data.shape[0]",
        "result[1].shape[0] == query_gene_data.shape[0] and result[1].shape[1] == reference_gene_data.shape[0]",
        # one vote per cell and iteration: counts are non-negative, bounded by the number of
        # iterations, and every row sums to the number of iterations
        "all(0 <= result[0][i, j] and result[0][i, j] <= bootstrap_iteration "
        "for i in range(result[0].shape[0]) for j in range(result[0].shape[1]))",
        "all(rowsum(result[0], i) == bootstrap_iteration for i in range(result[0].shape[0]))",
        # no correlation is accumulated where no vote was cast
        "all(implies(result[0][i, j] == 0, result[1][i, j] == 0) "
        "for i in range(result[0].shape[0]) for j in range(result[0].shape[1]))",
    ],
    inline_asserts={
        # sizing of the bootstrap sample: max(1, round_half_even(factor * n))
        "result_shape =": [
            "n_markers == query_gene_data.shape[1]",
            "n_bootstrap == max(1, rnd(bootstrap_factor * n_markers))",
            "1 <= n_bootstrap and n_bootstrap <= n_markers",
        ],
        # the subset of one iteration: that size, inside [0, n), sorted and duplicate free;
        # C06.a: with factor 1 it is arange(n), whatever the random stream
        "chosen_idx = np.sort(chosen_idx)": [
            "len(chosen_idx) == n_bootstrap",
            "all(0 <= chosen_idx[k] and chosen_idx[k] < n_markers for k in range(len(chosen_idx)))",
            "sorted_strict(chosen_idx)",
            "implies(bootstrap_factor == 1, len(chosen_idx) == n_markers and "
            "all(chosen_idx[k] == k for k in range(n_markers)))",
        ],
        # the SAME index array selects the query columns and the reference columns
        "bootstrap_reference = reference_gene_data[:, chosen_idx]": [
            "bootstrap_query.shape[0] == query_gene_data.shape[0] and bootstrap_query.shape[1] == len(chosen_idx)",
            "bootstrap_reference.shape[0] == reference_gene_data.shape[0] and "
            "bootstrap_reference.shape[1] == len(chosen_idx)",
            "all(bootstrap_query[i, k] == query_gene_data[i, chosen_idx[k]] "
            "for i in range(query_gene_data.shape[0]) for k in range(len(chosen_idx)))",
            "all(bootstrap_reference[i, k] == reference_gene_data[i, chosen_idx[k]] "
            "for i in range(reference_gene_data.shape[0]) for k in range(len(chosen_idx)))",
        ],
        # the vote of an iteration goes to a nearest reference row of the down-sampled profiles
        "these_neighbors, these_corr =": [
            "len(these_neighbors) == query_gene_data.shape[0]",
            # ... computed from the SAME columns of query and reference (still true at the call)
            "all(bootstrap_query[i, k] == query_gene_data[i, chosen_idx[k]] "
            "for i in range(query_gene_data.shape[0]) for k in range(len(chosen_idx)))",
            "all(bootstrap_reference[i, k] == reference_gene_data[i, chosen_idx[k]] "
            "for i in range(reference_gene_data.shape[0]) for k in range(len(chosen_idx)))",
            "sorted_strict(chosen_idx) and len(chosen_idx) == n_bootstrap",
            "all(pcorr(bootstrap_reference, these_neighbors[q], bootstrap_query, q) >= "
            "pcorr(bootstrap_reference, r, bootstrap_query, q) for q in range(query_gene_data.shape[0]) "
            "for r in range(reference_gene_data.shape[0]))",
            "all(these_corr[q] == pcorr(bootstrap_reference, these_neighbors[q], bootstrap_query, q) "
            "for q in range(query_gene_data.shape[0]))",
        ],
    },
    loops={
        0: ["len(neighbors) == _n and len(corr) == _n",
            "implies(i_iteration >= bootstrap_iteration, _n == bootstrap_iteration)",
            "all(len(neighbors[k]) == query_gene_data.shape[0] and len(corr[k]) == query_gene_data.shape[0] "
            "for k in range(len(neighbors)))",
            "all(0 <= neighbors[k][q] and neighbors[k][q] < reference_gene_data.shape[0] "
            "for k in range(len(neighbors)) for q in range(query_gene_data.shape[0]))"],
        1: ["votes.shape[0] == query_gene_data.shape[0] and votes.shape[1] == reference_gene_data.shape[0]",
            "corr_sum.shape[0] == query_gene_data.shape[0] and corr_sum.shape[1] == reference_gene_data.shape[0]",
            "all(0 <= votes[i, j] and votes[i, j] <= _i for i in range(votes.shape[0]) for j in range(votes.shape[1]))",
            "all(rowsum(votes, i) == _i for i in range(votes.shape[0]))",
            "all(implies(votes[i, j] == 0, corr_sum[i, j] == 0) "
            "for i in range(votes.shape[0]) for j in range(votes.shape[1]))"],
    },
)


# ---------------------------------------------------------------------------------------------
# aggregate_votes  (C02.b)
# ---------------------------------------------------------------------------------------------
def _gen_agg(rng, size):
    import numpy as np
    n_q = rng.randint(0, size)
    n_ref = rng.randint(0, size + 1)
    pool = ['b', 'a', 'c', 'aa', 'B'][:rng.randint(1, 5)]
    types = [rng.choice(pool) for _ in range(n_ref)]
    v = np.array([[rng.randint(0, 4) for _ in range(n_ref)] for _ in range(n_q)], dtype=int).reshape(n_q, n_ref)
    c = np.array([[rng.uniform(-1, 1) * v[i, j] for j in range(n_ref)] for i in range(n_q)],
                 dtype=float).reshape(n_q, n_ref)
    return dict(vote_array=v, correlation_array=c, reference_types=types)


AGG_PARAMS = dict(vote_array='Arr2[Int]', correlation_array='Arr2[Real]', reference_types='List[Name]')
AGG_REQ = ["vote_array.shape[1] == len(reference_types)",
           "correlation_array.shape[0] == vote_array.shape[0] and correlation_array.shape[1] == vote_array.shape[1]"]

contract(
    M + 'aggregate_votes',
    properties=['C02', 'C03'],
    native=dict(gen=_gen_agg),
    params=AGG_PARAMS,
    returns='Tuple[Arr2[Int],Arr2[Real],List[Name]]',
    locals={'__zeros_elem__': 'Int'},
    requires=AGG_REQ,
    ensures=[
        # the output types are the distinct input types, sorted
        "sorted_strict(result[2])",
        "all(t in reference_types for t in result[2])",
        "all(t in result[2] for t in reference_types)",
        "result[0].shape[0] == vote_array.shape[0] and result[0].shape[1] == len(result[2])",
        "result[1].shape[0] == vote_array.shape[0] and result[1].shape[1] == len(result[2])",
        # column k = sum over the leaves (input columns) owned by child k
        "all(result[0][i, k] == rowsum(vote_array[:, positions(reference_types, result[2][k])], i) "
        "for i in range(vote_array.shape[0]) for k in range(len(result[2])))",
        "all(close(result[1][i, k], rowsum(correlation_array[:, positions(reference_types, result[2][k])], i)) "
        "for i in range(vote_array.shape[0]) for k in range(len(result[2])))",
        # a row of non-negative votes stays non-negative and every leaf's votes are counted
        # in the column of its owner
        "all(implies(all(vote_array[i, jj] >= 0 for jj in range(vote_array.shape[1])), result[0][i, k] >= 0) "
        "for i in range(vote_array.shape[0]) for k in range(len(result[2])))",
        "all(implies(all(vote_array[i, jj] >= 0 for jj in range(vote_array.shape[1])) "
        "and reference_types[j] == result[2][k], result[0][i, k] >= vote_array[i, j]) "
        "for i in range(vote_array.shape[0]) for j in range(vote_array.shape[1]) for k in range(len(result[2])))",
    ],
    loops={0: [
        "vote_array_agg.shape[0] == vote_array.shape[0] and vote_array_agg.shape[1] == len(unq_types)",
        "corr_array_agg.shape[0] == vote_array.shape[0] and corr_array_agg.shape[1] == len(unq_types)",
        "all(vote_array_agg[i, k] == rowsum(vote_array[:, positions(reference_types, unq_types[k])], i) "
        "for i in range(vote_array.shape[0]) for k in range(_i))",
        "all(corr_array_agg[i, k] == rowsum(correlation_array[:, positions(reference_types, unq_types[k])], i) "
        "for i in range(vote_array.shape[0]) for k in range(_i))",
    ]},
)
