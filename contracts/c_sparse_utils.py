"""cell_type_mapper.utils.sparse_utils  (C05.b/c, C13.f)

CSR view: `indptr` monotone within [0, len(indices)], len(data) == len(indices).
"""
from pyvc.contracts import contract

M = 'cell_type_mapper.utils.sparse_utils.'

WF_CSR = [
    "len(indptr) >= 1",
    "len(data) == len(indices)",
    "all(0 <= indptr[i] <= len(indices) for i in range(len(indptr)))",
    "all(indptr[i] <= indptr[j] for i in range(len(indptr)) for j in range(len(indptr)) if i <= j)",
]


def _gen_csr(rng, size, with_spec=True):
    import numpy as np
    n_rows = rng.randint(0, size + 1)
    n_cols = rng.randint(1, size + 1)
    indptr = [0]
    indices = []
    for _ in range(n_rows):
        cols = sorted(rng.sample(range(n_cols), rng.randint(0, n_cols)))
        indices += cols
        indptr.append(len(indices))
    data = [float(rng.randint(1, 9)) for _ in indices]
    out = dict(data=np.array(data, dtype=float), indices=np.array(indices, dtype=int),
               indptr=np.array(indptr, dtype=int))
    if with_spec:
        a = rng.randint(0, n_rows)
        b = rng.randint(a, n_rows)
        out['indptr_spec'] = (a, b)
    return out


contract(
    M + '_load_sparse',
    properties=['C05', 'C13'],
    native=dict(gen=_gen_csr),
    params=dict(indptr_spec='Tuple[Int,Int]', data='Arr[Real]', indices='Arr[Int]', indptr='Arr[Int]'),
    returns='Tuple[Arr[Real],Arr[Int],Arr[Int]]',
    requires=WF_CSR + ["0 <= indptr_spec[0] <= indptr_spec[1] <= len(indptr) - 1"],
    ensures=[
        # pointers are rebased to the first requested slice; data / indices are exactly the
        # entries of the requested slices
        "len(result[2]) == indptr_spec[1] - indptr_spec[0] + 1",
        "all(result[2][k] == indptr[indptr_spec[0] + k] - indptr[indptr_spec[0]] for k in range(len(result[2])))",
        "len(result[0]) == indptr[indptr_spec[1]] - indptr[indptr_spec[0]]",
        "len(result[1]) == len(result[0])",
        "all(result[0][k] == data[indptr[indptr_spec[0]] + k] for k in range(len(result[0])))",
        "all(result[1][k] == indices[indptr[indptr_spec[0]] + k] for k in range(len(result[1])))",
    ],
)


def _gen_csr_dense(rng, size):
    g = _gen_csr(rng, size, with_spec=False)
    n_rows = len(g['indptr']) - 1
    n_cols = (max(g['indices']) + 1 if len(g['indices']) else 0) + rng.randint(0, 2)
    g.update(n_rows=n_rows, n_cols=max(n_cols, 1))
    return g


contract(
    M + '_csr_to_dense',
    properties=['C05', 'C13'],
    native=dict(gen=_gen_csr_dense),
    params=dict(data='Arr[Real]', indices='Arr[Int]', indptr='Arr[Int]', n_rows='Int', n_cols='Int'),
    returns='Arr2[Real]',
    locals={'__zeros_elem__': 'Real'},
    requires=WF_CSR + [
        "indptr[0] == 0", "indptr[len(indptr) - 1] == len(indices)",
        "len(indptr) == n_rows + 1", "n_cols >= 0",
        "all(0 <= indices[k] < n_cols for k in range(len(indices)))",
        # canonical: column indices strictly increasing within a row
        "all(implies(indptr[i] <= a and a < b and b < indptr[i + 1], indices[a] < indices[b]) "
        "for i in range(n_rows) for a in range(len(indices)) for b in range(len(indices)))",
    ],
    ensures=[
        "result.shape[0] == n_rows and result.shape[1] == n_cols",
        # every stored entry lands at (row, column) ...
        "all(implies(indptr[i] <= k and k < indptr[i + 1], result[i, indices[k]] == data[k]) "
        "for i in range(n_rows) for k in range(len(indices)))",
        # ... and everything else is zero
        "all(implies(all(implies(indptr[i] <= k and k < indptr[i + 1], indices[k] != j) "
        "for k in range(len(indices))), result[i, j] == 0) "
        "for i in range(n_rows) for j in range(n_cols))",
    ],
    loops={0: [
        "data_idx == indptr[iptr]" if False else "0 <= iptr",
        "implies(iptr <= n_rows, data_idx == indptr[iptr])",
        "result.shape[0] == n_rows and result.shape[1] == old(n_cols)",
        "all(implies(indptr[i] <= k and k < indptr[i + 1], result[i, indices[k]] == data[k]) "
        "for i in range(iptr) for k in range(len(indices)))",
        "all(implies(i >= iptr or all(implies(indptr[i] <= k and k < indptr[i + 1], indices[k] != j) "
        "for k in range(len(indices))), result[i, j] == 0) "
        "for i in range(n_rows) for j in range(old(n_cols)))",
    ]},
)
