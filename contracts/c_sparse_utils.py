"""cell_type_mapper.utils.sparse_utils  (C05.b/c/d, C13.f)  + utils.utils.merge_index_list

CSR view: `indptr` monotone within [0, len(indices)], len(data) == len(indices).

proved (full):  _load_sparse, _csr_to_dense, _merge_csr_chunk, merge_csr, precompute_indptr,
                downsample_indptr
bounded:        merge_index_list (exhaustive), _load_disjoint_csr (exhaustive row lists),
                mask_indptr_by_indices, precompute_indptr#perm (the clause that needs a sum over a
                permutation)
Prefix sums in the clauses (`cat_off`, `row_off`, `span_off`) are specification functions defined
in pyvc/ext/sparse.py (recursive definition + monotonicity / frame lemmas, trusted).
"""
from pyvc.contracts import contract

M = 'cell_type_mapper.utils.sparse_utils.'

WF_CSR = [
    "len(indptr) >= 1",
    "len(data) == len(indices)",
    "all(0 <= indptr[i] <= len(indices) for i in range(len(indptr)))",
    "all(indptr[i] <= indptr[j] for i in range(len(indptr)) for j in range(len(indptr)) if i <= j)",
]


def _gen_csr(rng, size, with_spec=True):
    import numpy as np
    n_rows = rng.randint(0, size + 1)
    n_cols = rng.randint(1, size + 1)
    indptr = [0]
    indices = []
    for _ in range(n_rows):
        cols = sorted(rng.sample(range(n_cols), rng.randint(0, n_cols)))
        indices += cols
        indptr.append(len(indices))
    data = [float(rng.randint(1, 9)) for _ in indices]
    out = dict(data=np.array(data, dtype=float), indices=np.array(indices, dtype=int),
               indptr=np.array(indptr, dtype=int))
    if with_spec:
        a = rng.randint(0, n_rows)
        b = rng.randint(a, n_rows)
        out['indptr_spec'] = (a, b)
    return out


contract(
    M + '_load_sparse',
    properties=['C05', 'C13'],
    native=dict(gen=_gen_csr),
    params=dict(indptr_spec='Tuple[Int,Int]', data='Arr[Real]', indices='Arr[Int]', indptr='Arr[Int]'),
    returns='Tuple[Arr[Real],Arr[Int],Arr[Int]]',
    requires=WF_CSR + ["0 <= indptr_spec[0] <= indptr_spec[1] <= len(indptr) - 1"],
    ensures=[
        # pointers are rebased to the first requested slice; data / indices are exactly the
        # entries of the requested slices
        "len(result[2]) == indptr_spec[1] - indptr_spec[0] + 1",
        "all(result[2][k] == indptr[indptr_spec[0] + k] - indptr[indptr_spec[0]] for k in range(len(result[2])))",
        "len(result[0]) == indptr[indptr_spec[1]] - indptr[indptr_spec[0]]",
        "len(result[1]) == len(result[0])",
        "all(result[0][k] == data[indptr[indptr_spec[0]] + k] for k in range(len(result[0])))",
        "all(result[1][k] == indices[indptr[indptr_spec[0]] + k] for k in range(len(result[1])))",
    ],
)


def _gen_csr_dense(rng, size):
    g = _gen_csr(rng, size, with_spec=False)
    n_rows = len(g['indptr']) - 1
    n_cols = (max(g['indices']) + 1 if len(g['indices']) else 0) + rng.randint(0, 2)
    g.update(n_rows=n_rows, n_cols=max(n_cols, 1))
    return g


contract(
    M + '_csr_to_dense',
    properties=['C05', 'C13'],
    native=dict(gen=_gen_csr_dense),
    params=dict(data='Arr[Real]', indices='Arr[Int]', indptr='Arr[Int]', n_rows='Int', n_cols='Int'),
    returns='Arr2[Real]',
    locals={'__zeros_elem__': 'Real'},
    requires=WF_CSR + [
        "indptr[0] == 0", "indptr[len(indptr) - 1] == len(indices)",
        "len(indptr) == n_rows + 1", "n_cols >= 0",
        "all(0 <= indices[k] < n_cols for k in range(len(indices)))",
        # canonical: column indices strictly increasing within a row
        "all(implies(indptr[i] <= a and a < b and b < indptr[i + 1], indices[a] < indices[b]) "
        "for i in range(n_rows) for a in range(len(indices)) for b in range(len(indices)))",
    ],
    ensures=[
        "result.shape[0] == n_rows and result.shape[1] == n_cols",
        # every stored entry lands at (row, column) ...
        "all(implies(indptr[i] <= k and k < indptr[i + 1], result[i, indices[k]] == data[k]) "
        "for i in range(n_rows) for k in range(len(indices)))",
        # ... and everything else is zero
        "all(implies(all(implies(indptr[i] <= k and k < indptr[i + 1], indices[k] != j) "
        "for k in range(len(indices))), result[i, j] == 0) "
        "for i in range(n_rows) for j in range(n_cols))",
    ],
    loops={0: [
        "data_idx == indptr[iptr]" if False else "0 <= iptr",
        "implies(iptr <= n_rows, data_idx == indptr[iptr])",
        "result.shape[0] == n_rows and result.shape[1] == old(n_cols)",
        "all(implies(indptr[i] <= k and k < indptr[i + 1], result[i, indices[k]] == data[k]) "
        "for i in range(iptr) for k in range(len(indices)))",
        "all(implies(i >= iptr or all(implies(indptr[i] <= k and k < indptr[i + 1], indices[k] != j) "
        "for k in range(len(indices))), result[i, j] == 0) "
        "for i in range(n_rows) for j in range(old(n_cols)))",
    ]},
)


# ---------------------------------------------------------------------------------------------
# C13.f / C05.d  pointer arithmetic of the CSR re-assembly helpers
# ---------------------------------------------------------------------------------------------
def _gen_merge_chunk(rng, size):
    import numpy as np
    g = _gen_csr(rng, size, with_spec=False)
    n_in, r_in = len(g['data']), len(g['indptr']) - 1
    idx0, ptr0 = rng.randint(0, 3), rng.randint(0, 3)
    n, r = idx0 + n_in + rng.randint(0, 3), ptr0 + r_in + rng.randint(0, 2)
    return dict(data_in=g['data'], indices_in=g['indices'], indptr_in=g['indptr'],
                data=np.full(n, -1.0), indices=np.full(n, -1, dtype=int),
                indptr=np.full(max(r, 0), -1, dtype=int), idx0=idx0, ptr0=ptr0)


contract(
    M + '_merge_csr_chunk',
    properties=['C13', 'C05'],
    native=dict(gen=_gen_merge_chunk),
    params=dict(data_in='Arr[Real]', indices_in='Arr[Int]', indptr_in='Arr[Int]',
                data='Arr[Real]', indices='Arr[Int]', indptr='Arr[Int]', idx0='Int', ptr0='Int'),
    returns='Tuple[Arr[Real],Arr[Int],Arr[Int],Int,Int]',
    mutates=['data', 'indices', 'indptr'],
    requires=[
        "len(indptr_in) >= 1", "len(indices_in) == len(data_in)", "len(indices) == len(data)",
        "0 <= idx0 and idx0 + len(data_in) <= len(data)",
        "0 <= ptr0 and ptr0 + len(indptr_in) - 1 <= len(indptr)",
    ],
    ensures=[
        "result[3] == idx0 + len(data_in)", "result[4] == ptr0 + len(indptr_in) - 1",
        "len(result[0]) == len(old(data)) and len(result[1]) == len(old(indices)) "
        "and len(result[2]) == len(old(indptr))",
        # the piece is copied to [idx0, idx1) ...
        "all(result[0][idx0 + e] == data_in[e] for e in range(len(data_in)))",
        "all(result[1][idx0 + e] == indices_in[e] for e in range(len(indices_in)))",
        # ... its pointers (all but the last) are re-based by idx0 and stored at [ptr0, ptr1) ...
        "all(result[2][ptr0 + j] == indptr_in[j] + idx0 for j in range(len(indptr_in) - 1))",
        "len(indptr_in) < 2 or result[2][ptr0] == indptr_in[0] + idx0",
        # ... and nothing else changes
        "all(result[0][e] == old(data)[e] for e in range(len(old(data))) if e < idx0 or e >= idx0 + len(data_in))",
        "all(result[1][e] == old(indices)[e] for e in range(len(old(indices))) if e < idx0 or e >= idx0 + len(data_in))",
        "all(result[2][j] == old(indptr)[j] for j in range(len(old(indptr))) "
        "if j < ptr0 or j >= ptr0 + len(indptr_in) - 1)",
        # the arrays handed back are the arrays passed in (updated in place)
        "len(data) == len(result[0]) and all(result[0][e] == data[e] for e in range(len(data)))",
        "len(indices) == len(result[1]) and all(result[1][e] == indices[e] for e in range(len(indices)))",
        "len(indptr) == len(result[2]) and all(result[2][j] == indptr[j] for j in range(len(indptr)))",
    ],
)


WF_PTR = lambda p: [   # noqa: E731   monotone pointer array (pairwise form: z3 does no induction)
    f"len({p}) >= 1",
    f"all({p}[i] <= {p}[j] for i in range(len({p})) for j in range(len({p})) if i <= j)",
]


def _gen_reorder(rng, size, perm=True):
    import numpy as np
    g = _gen_csr(rng, size, with_spec=False)
    n = len(g['indptr']) - 1
    order = list(range(n))
    rng.shuffle(order)
    if not perm and n > 0 and rng.random() < 0.5:
        order = [rng.randrange(n) for _ in range(n)]
    return dict(indptr_in=g['indptr'], row_order=np.array(order, dtype=int))


_SPAN_IN = "indptr_in[row_order[k] + 1] - indptr_in[row_order[k]]"

contract(
    M + 'precompute_indptr',
    properties=['C13'],
    native=dict(gen=lambda rng, size: _gen_reorder(rng, size, perm=False)),
    params=dict(indptr_in='Arr[Int]', row_order='Arr[Int]'),
    returns='Arr[Int]',
    requires=WF_PTR('indptr_in') + [
        "len(row_order) == len(indptr_in) - 1",
        "all(0 <= row_order[k] < len(indptr_in) - 1 for k in range(len(row_order)))",
    ],
    ensures=[
        "len(result) == len(indptr_in)",
        "implies(len(row_order) >= 1, result[0] == 0)",
        # new row k has the length of old row row_order[k] (the last slot is set from the input
        # total; that it closes the last row needs row_order to be a permutation: view #perm)
        f"all(result[k + 1] - result[k] == {_SPAN_IN} for k in range(len(row_order) - 1))",
        "result[len(result) - 1] == indptr_in[len(indptr_in) - 1]",
    ],
    loops={0: [
        "len(new_indptr) == len(indptr_in)",
        "implies(_i == 0, ct == 0)",
        "implies(_i >= 1, new_indptr[0] == 0)",
        "implies(_i >= 1, ct == new_indptr[_i - 1] + indptr_in[_it[_i - 1] + 1] - indptr_in[_it[_i - 1]])",
        "all(new_indptr[k + 1] - new_indptr[k] == indptr_in[_it[k] + 1] - indptr_in[_it[k]] "
        "for k in range(_i - 1))",
    ]},
)


def _call_precompute(indptr_in, row_order):
    from cell_type_mapper.utils.sparse_utils import precompute_indptr
    return precompute_indptr(indptr_in, row_order)


contract(
    M + 'precompute_indptr#perm',
    properties=['C13'], mode='bounded',
    native=dict(gen=_gen_reorder, call=_call_precompute,
                bound='random CSR pointer arrays with <= 5 rows, random permutations'),
    params=dict(indptr_in='Arr[Int]', row_order='Arr[Int]'),
    returns='Arr[Int]',
    requires=WF_PTR('indptr_in') + [
        "len(row_order) == len(indptr_in) - 1",
        "all(0 <= row_order[k] < len(indptr_in) - 1 for k in range(len(row_order)))",
        "dupfree(row_order)",
    ],
    ensures=[f"all(result[k + 1] - result[k] == {_SPAN_IN} for k in range(len(row_order)))",
             "sorted_nondecr(result)"],
    note="closing the last row needs sum over a permutation = total (induction); bounded",
)


def _gen_downsample(rng, size):
    import numpy as np
    g = _gen_csr(rng, size, with_spec=False)
    n = len(g['indptr']) - 1
    keep = [rng.randrange(n) for _ in range(rng.randint(0, n + 1))] if n > 0 else []
    return dict(indptr_old=g['indptr'], indices_old=g['indices'], indptr_to_keep=np.array(keep, dtype=int))


_SPAN_OLD = "indptr_old[indptr_to_keep[k] + 1] - indptr_old[indptr_to_keep[k]]"

contract(
    M + 'downsample_indptr',
    properties=['C13'],
    native=dict(gen=_gen_downsample),
    params=dict(indptr_old='Arr[Int]', indices_old='Arr[Int]', indptr_to_keep='Arr[Int]'),
    returns='Tuple[Arr[Int],Arr[Int]]',
    locals={'__zeros_elem__': 'Int'},     # np.zeros(..., dtype=indptr_old.dtype): integer arrays
    ghost=dict(solver_first={'auto_config': False, 'mbqi': False}),
    requires=WF_PTR('indptr_old') + [
        "all(0 <= indptr_old[i] <= len(indices_old) for i in range(len(indptr_old)))",
        "all(0 <= indptr_to_keep[k] < len(indptr_old) - 1 for k in range(len(indptr_to_keep)))",
    ],
    ensures=[
        "len(result[0]) == len(indptr_to_keep) + 1", "result[0][0] == 0",
        # kept slice k has the length of the old slice indptr_to_keep[k] ...
        f"all(result[0][k + 1] - result[0][k] == {_SPAN_OLD} for k in range(len(indptr_to_keep)))",
        "len(result[1]) == result[0][len(indptr_to_keep)]",
        # ... and its entries, in order
        "all(result[1][result[0][k] + j] == indices_old[indptr_old[indptr_to_keep[k]] + j] "
        f"for k in range(len(indptr_to_keep)) for j in range({_SPAN_OLD}))",
    ],
    loops={
        0: ["len(indptr_new) == len(indptr_to_keep) + 1",
            "implies(_i == 0, ct_new == 0)",
            "implies(_i >= 1, indptr_new[0] == 0)",
            "implies(_i >= 1, ct_new == indptr_new[_i - 1] + indptr_old[_it[_i - 1] + 1] - indptr_old[_it[_i - 1]])",
            "all(indptr_new[k + 1] - indptr_new[k] == indptr_old[_it[k] + 1] - indptr_old[_it[k]] "
            "for k in range(_i - 1))",
            "all(indptr_new[a] <= indptr_new[b] for a in range(_i) for b in range(_i) if a <= b)",
            "implies(_i >= 1, indptr_new[_i - 1] <= ct_new)", "ct_new >= 0"],
        1: ["len(indices_new) == ct_new", "0 <= ii",
            # positional form (clean trigger indices_new[e]): entry e of kept slice k
            "all(implies(indptr_new[k] <= e and e < indptr_new[k + 1], "
            "indices_new[e] == indices_old[indptr_old[indptr_to_keep[k]] + e - indptr_new[k]]) "
            "for k in range(min(ii, len(indptr_to_keep))) for e in range(len(indices_new)))"],
    },
)


def _gen_mask(rng, size):
    g = _gen_csr(rng, size, with_spec=False)
    n_cols = (max(g['indices']) + 1) if len(g['indices']) else 1
    kept = [c for c in range(n_cols) if rng.random() < 0.6]
    new = list(range(len(kept)))
    rng.shuffle(new)
    return dict(indptr_old=g['indptr'], indices_old=g['indices'],
                indices_map={int(c): int(v) for c, v in zip(kept, new)})


contract(
    M + 'mask_indptr_by_indices',
    properties=['C13'], mode='bounded',
    native=dict(gen=_gen_mask, weight=2,
                bound='random canonical CSR patterns <= 5x5, random injective column maps'),
    params=dict(indptr_old='Arr[Int]', indices_old='Arr[Int]', indices_map='Dict[Int,Int]'),
    returns='Tuple[Arr[Int],Arr[Int]]',
    requires=WF_PTR('indptr_old') + [
        "indptr_old[0] == 0 and indptr_old[len(indptr_old) - 1] == len(indices_old)",
        "all(indices_map[c] >= 0 for c in indices_map)",
    ],
    ensures=[
        "len(result[0]) == len(indptr_old)", "result[0][0] == 0",
        "result[0][len(result[0]) - 1] == len(result[1])", "sorted_nondecr(result[0])",
        # slice i keeps exactly the mapped values of the surviving entries, sorted
        "all([int(v) for v in result[1][result[0][i]:result[0][i + 1]]] == "
        "sorted(indices_map[int(v)] for v in indices_old[indptr_old[i]:indptr_old[i + 1]] "
        "if int(v) in indices_map) for i in range(len(indptr_old) - 1))",
    ],
    note="bool-array sums and np.sort per slice: counting + sorting argument, kept bounded",
)


# ---------------------------------------------------------------------------------------------
# merge_csr: concatenation of CSR pieces.  cat_off(xs, k) = sum(len(xs[q]) for q < k) (spec
# function, pyvc/ext/sparse.py): piece q starts at entry D(q) = cat_off(data_list, q) and at row
# R(q) = row_off(indptr_list, q) = sum(len(indptr_list[p]) - 1 for p < q) of the merged matrix.
# ---------------------------------------------------------------------------------------------
def _gen_merge(rng, size):
    n = rng.randint(1, 4)
    pieces = [_gen_csr(rng, max(1, size - 1), with_spec=False) for _ in range(n)]
    return dict(data_list=[p['data'] for p in pieces], indices_list=[p['indices'] for p in pieces],
                indptr_list=[p['indptr'] for p in pieces])


_PIECES_WF = [
    "len(data_list) >= 1",
    "len(indices_list) == len(data_list) and len(indptr_list) == len(data_list)",
    # (every piece holds at least one row: guaranteed by the only caller, _load_disjoint_csr)
    "all(len(indptr_list[q]) >= 2 and len(indices_list[q]) == len(data_list[q]) "
    "for q in range(len(data_list)))",
    # every piece is a CSR matrix of its own: pointers start at 0 and end at its entry count
    "all(indptr_list[q][0] == 0 and indptr_list[q][len(indptr_list[q]) - 1] == len(data_list[q]) "
    "for q in range(len(data_list)))",
]

contract(
    M + 'merge_csr',
    properties=['C13', 'C05'],
    native=dict(gen=_gen_merge),
    params=dict(data_list='List[Arr[Real]]', indices_list='List[Arr[Int]]', indptr_list='List[Arr[Int]]'),
    returns='Tuple[Arr[Real],Arr[Int],Arr[Int]]',
    locals={'__zeros_elem__': 'Real'},
    requires=_PIECES_WF,
    ensures=[
        "len(result[0]) == cat_off(data_list, len(data_list))",
        "len(result[1]) == len(result[0])",
        "len(result[2]) == row_off(indptr_list, len(indptr_list)) + 1",
        # entries of piece q, in order, from offset D(q)
        "all(result[0][cat_off(data_list, q) + e] == data_list[q][e] "
        "for q in range(len(data_list)) for e in range(len(data_list[q])))",
        "all(result[1][cat_off(data_list, q) + e] == indices_list[q][e] "
        "for q in range(len(data_list)) for e in range(len(data_list[q])))",
        # pointers of piece q re-based by D(q), from row R(q) ...
        "all(result[2][row_off(indptr_list, q) + j] == indptr_list[q][j] + cat_off(data_list, q) "
        "for q in range(len(data_list)) for j in range(len(indptr_list[q]) - 1))",
        # ... and at every piece boundary (and in the last slot) the number of entries before it
        "all(result[2][row_off(indptr_list, q)] == cat_off(data_list, q) "
        "for q in range(len(data_list) + 1))",
    ],
    loops={
        0: ["n_data == cat_off(data_list, _i)"],
        1: ["n_indptr == row_off(indptr_list, _i)"],
        2: ["i0 == cat_off(data_list, _i)", "ptr0 == row_off(indptr_list, _i)",
            "len(data) == n_data and len(indices) == n_data and len(indptr) == n_indptr",
            "all(data[cat_off(data_list, q) + e] == data_list[q][e] "
            "for q in range(_i) for e in range(len(data_list[q])))",
            "all(indices[cat_off(data_list, q) + e] == indices_list[q][e] "
            "for q in range(_i) for e in range(len(data_list[q])))",
            "all(indptr[row_off(indptr_list, q) + j] == indptr_list[q][j] + cat_off(data_list, q) "
            "for q in range(_i) for j in range(len(indptr_list[q]) - 1))",
            "all(indptr[row_off(indptr_list, q)] == cat_off(data_list, q) for q in range(_i))",
            ],
    },
)


# ---------------------------------------------------------------------------------------------
# utils.utils.merge_index_list (C05.d) - registered here because its only caller is
# sparse_utils._load_disjoint_csr.  BOUNDED: a deductive proof was attempted (closed-form
# invariants over the break positions, run lemma for np.diff, prefix-sum frame lemma) and reached
# 39/40 obligations, but several VCs needed 5-11 s and flipped between proved / unknown under
# load; per the rules a flaky proof is demoted.  The clause is the full functional specification:
# the result is the list of maximal runs of the requested index set.
# ---------------------------------------------------------------------------------------------
def _maximal_runs(index_list):
    """reference: maximal runs [lo, hi) of consecutive integers of set(index_list), ascending"""
    vals = sorted(set(int(v) for v in index_list))
    out = []
    for v in vals:
        if out and out[-1][1] == v:
            out[-1][1] = v + 1
        else:
            out.append([v, v + 1])
    return [(a, b) for a, b in out]


def _enum_index_list(size):
    import itertools
    import numpy as np
    # every non-empty strictly increasing list over {0..7} (what the caller passes) ...
    for r in range(1, 9):
        for c in itertools.combinations(range(8), r):
            yield dict(index_list=np.array(c, dtype=int))
    # ... and every list (any order, repeats) of length <= 4 over {0..4}
    for r in range(1, 5):
        for c in itertools.product(range(5), repeat=r):
            yield dict(index_list=list(c))


contract(
    'cell_type_mapper.utils.utils.merge_index_list',
    properties=['C05'], mode='bounded',
    native=dict(enumerate=_enum_index_list, env=dict(maximal_runs=_maximal_runs),
                bound='exhaustive: all 255 non-empty strictly increasing lists over {0..7} and all '
                      '780 lists of length <= 4 over {0..4} (any order, with repeats)'),
    params=dict(index_list='List[Int]'),
    returns='List[Tuple[Int,Int]]',
    requires=["len(index_list) >= 1"],      # S-EMPTY (new finding): the empty list raises IndexError
    ensures=[
        "[(int(a), int(b)) for a, b in result] == maximal_runs(index_list)",
        # consequences spelt out: non-empty, strictly separated, covering exactly the requested set
        "all(result[k][0] < result[k][1] for k in range(len(result)))",
        "all(result[k][1] < result[k + 1][0] for k in range(len(result) - 1))",
        "sum(int(b) - int(a) for a, b in result) == len(set(int(v) for v in index_list))",
        "all(any(a <= v and v < b for a, b in result) for v in index_list)",
    ],
)


# ---------------------------------------------------------------------------------------------
# _load_disjoint_csr (C05.d): rows of a CSR matrix in the requested order.  BOUNDED: the slice
# stores of the un-sorting loop stay inside the output only because the row spans visited through
# a permutation add up to the total (sum over a permutation - induction); merge_csr /
# _merge_csr_chunk / _load_sparse, which it is built from, are proved above.
# S-3: a repeated row -> IndexError (kept as `dupfree`); S-EMPTY (new finding): an empty list -> IndexError.
# ---------------------------------------------------------------------------------------------
def _dense_of(data, indices, indptr, n_cols):
    import numpy as np
    n_rows = len(indptr) - 1
    out = np.zeros((n_rows, n_cols))
    for i in range(n_rows):
        for k in range(int(indptr[i]), int(indptr[i + 1])):
            out[i, int(indices[k])] = data[k]
    return out


def _same_rows(result, row_index_list, data, indices, indptr):
    import numpy as np
    n_cols = (int(max(indices)) + 1) if len(indices) else 1
    full = _dense_of(data, indices, indptr, n_cols)
    got = _dense_of(result[0], result[1], result[2], n_cols)
    return got.shape[0] == len(row_index_list) and np.array_equal(got, full[list(row_index_list)])


def _enum_disjoint(size):
    import itertools
    import numpy as np
    mats = [
        [[1, 0, 2], [0, 0, 0], [0, 3, 0], [4, 5, 6], [0, 0, 7]],
        [[0, 0, 0], [0, 0, 0], [0, 0, 0], [0, 0, 0], [0, 0, 1]],
        [[1, 2, 3], [4, 5, 6], [7, 8, 9], [1, 1, 1], [2, 2, 2]],
        [[0, 1], [0, 0], [2, 0], [0, 0], [0, 0]],
        [[5], [0], [6], [7], [0]],
    ]
    for m in mats:
        m = np.array(m, dtype=float)
        data, indices, indptr = [], [], [0]
        for row in m:
            for j, v in enumerate(row):
                if v != 0:
                    data.append(v)
                    indices.append(j)
            indptr.append(len(data))
        d, i, p = np.array(data), np.array(indices, dtype=int), np.array(indptr, dtype=int)
        for r in range(1, 6):
            for rows in itertools.permutations(range(5), r):
                yield dict(row_index_list=list(rows), data=d, indices=i, indptr=p)


contract(
    M + '_load_disjoint_csr',
    # C13: stacking row selections of several files (amalgamate_h5ad) reads them through this function
    properties=['C05', 'C13'], mode='bounded',
    native=dict(enumerate=_enum_disjoint, env=dict(same_rows=_same_rows),
                bound='exhaustive: every duplicate-free row list (all orders, 325 lists) over 5 '
                      'matrices with 5 rows (empty rows, all-zero, dense, single column)'),
    params=dict(row_index_list='List[Int]', data='Arr[Real]', indices='Arr[Int]', indptr='Arr[Int]'),
    returns='Tuple[Arr[Real],Arr[Int],Arr[Int]]',
    requires=WF_CSR + ["len(row_index_list) >= 1", "dupfree(row_index_list)",
                       "all(0 <= r < len(indptr) - 1 for r in row_index_list)"],
    ensures=[
        # output row k is row row_index_list[k] of the matrix, values and columns
        "same_rows(result, row_index_list, data, indices, indptr)",
        "len(result[2]) == len(row_index_list) + 1 and result[2][0] == 0",
        "result[2][len(result[2]) - 1] == len(result[0]) and len(result[1]) == len(result[0])",
        "sorted_nondecr(result[2])",
    ],
)


# ---------------------------------------------------------------------------------------------
# C05.b  load_csr: the dense block returned for rows [r0, r1) holds exactly the stored entries of
# those rows (composition of the two contracts above; a body that stops going through
# _load_sparse / _csr_to_dense has to establish the same post-condition on its own)
# ---------------------------------------------------------------------------------------------
def _gen_load_csr(rng, size):
    g = _gen_csr(rng, size, with_spec=True)
    g['row_spec'] = g.pop('indptr_spec')
    n_cols = (max(g['indices']) + 1 if len(g['indices']) else 0) + rng.randint(0, 2)
    g['n_cols'] = max(n_cols, 1)
    return g


contract(
    M + 'load_csr',
    properties=['C05', 'C06'],
    native=dict(gen=_gen_load_csr),
    params=dict(row_spec='Tuple[Int,Int]', n_cols='Int', data='Arr[Real]', indices='Arr[Int]',
                indptr='Arr[Int]'),
    returns='Arr2[Real]',
    requires=WF_CSR + [
        "0 <= row_spec[0] <= row_spec[1] <= len(indptr) - 1", "n_cols >= 0",
        "all(0 <= indices[k] < n_cols for k in range(len(indices)))",
        "all(implies(indptr[i] <= a and a < b and b < indptr[i + 1], indices[a] < indices[b]) "
        "for i in range(len(indptr) - 1) for a in range(len(indices)) for b in range(len(indices)))",
    ],
    ensures=[
        "result.shape[0] == row_spec[1] - row_spec[0] and result.shape[1] == n_cols",
        # (stated over the offset kk from the first stored entry of row r0: the form the callee's
        # post-condition instantiates directly)
        "all(implies(indptr[row_spec[0] + i] <= indptr[row_spec[0]] + kk and "
        "indptr[row_spec[0]] + kk < indptr[row_spec[0] + i + 1], "
        "result[i, indices[indptr[row_spec[0]] + kk]] == data[indptr[row_spec[0]] + kk]) "
        "for i in range(row_spec[1] - row_spec[0]) "
        "for kk in range(indptr[row_spec[1]] - indptr[row_spec[0]]))",
        "all(implies(all(implies(indptr[row_spec[0] + i] <= k and k < indptr[row_spec[0] + i + 1], indices[k] != j) "
        "for k in range(len(indices))), result[i, j] == 0) "
        "for i in range(row_spec[1] - row_spec[0]) for j in range(n_cols))",
    ],
)
