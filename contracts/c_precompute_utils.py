"""cell_type_mapper.diff_exp.precompute_utils.merge_precompute_files  (C09.f)   -- BOUNDED, not proved

The body is h5py I/O on datasets (`dst['n_cells'][to_replace] = ...`, row-wise copies): there is no
dataset-level HDF5 model in the prover, so the loop invariant of DESIGN C09.f ("after the files
visited so far, every cluster holds the row of a visited file with maximal n_cells") is not
discharged deductively.  The clauses below are that invariant's consequence at loop exit; they are
executed on the real function over generated statistics files (ties in n_cells, a single file,
files given in any order).  bounded/c09.py runs the same check with more cases.
"""
import atexit
import os
import shutil
import tempfile

from pyvc.contracts import contract

M = 'cell_type_mapper.diff_exp.precompute_utils.'

_TMP = []
_INPUTS = {}      # output path -> (paths, stats, leaves, genes, bytes before)


def _tmpdir():
    if not _TMP:
        d = tempfile.mkdtemp(prefix='verif_merge_', dir='/tmp')
        _TMP.append(d)
        atexit.register(shutil.rmtree, d, ignore_errors=True)
    return _TMP[0]


def _gen_merge(rng, size):
    import warnings
    import numpy as np
    from bounded import c09
    # statistics files never carry the leaf -> cell lists: every read of their tree warns about it
    warnings.filterwarnings('ignore', message='This taxonomy has no mapping from leaf_node')
    d = _tmpdir()
    tag = f"{os.getpid()}_{rng.randrange(10**9)}"
    ds = c09.make_dataset(rng, n_cells=4)
    if rng.random() < 0.2:
        # 21-27 clusters: with the stage's row chunking (a tenth of the clusters) the last chunk is partial
        n_cl = rng.randint(21, 27)
        clusters = [f"cl{j:02d}" for j in range(n_cl)]
        ds = dict(ds, clusters=clusters, subs=['sub0', 'sub1'], classes=['class0'],
                  sub_of={c: ('sub0' if j % 2 else 'sub1') for j, c in enumerate(clusters)},
                  cls_of={'sub0': 'class0', 'sub1': 'class0'})
    tdata = c09.tree_data(ds, with_cells=False)
    leaves = sorted(ds['clusters'])
    n_g = len(ds['genes'])
    paths, stats = [], []
    for j in range(rng.randint(1, 4)):
        st = dict(n_cells=np.array([rng.choice([0, 1, 2, 2, 3, 7]) for _ in leaves]))
        for key in ('sum', 'sumsq'):
            st[key] = np.array([[rng.random() * 10 for _ in range(n_g)] for _ in leaves])
        for key in ('gt0', 'gt1', 'ge1'):
            st[key] = np.array([[rng.randint(0, 7) for _ in range(n_g)] for _ in leaves])
        p = os.path.join(d, f"{tag}_{rng.choice('abcxyz')}{j}.h5")
        c09._write_stats_file(p, ds, tdata, [(c, []) for c in leaves], st)
        paths.append(p)
        stats.append(st)
    rng.shuffle(paths)
    out = os.path.join(d, f"{tag}_out.h5")
    _INPUTS[out] = (sorted(paths), {p: s for p, s in zip(sorted(paths), [None] * len(paths))}, leaves,
                    ds['genes'], {p: open(p, 'rb').read() for p in paths})
    return dict(precompute_path_list=list(paths), output_path=out)


def _in_stats(paths):
    from bounded import c09
    return [c09.read_stats(p) for p in paths]


def _n_cells_is_max(paths, out):
    import numpy as np
    from bounded import c09
    got = c09.read_stats(out)
    ins = _in_stats(paths)
    return bool(np.array_equal(got['n_cells'], np.max([s['n_cells'] for s in ins], axis=0)))


def _rows_from_one_donor(paths, out):
    import numpy as np
    from bounded import c09
    got = c09.read_stats(out)
    ins = _in_stats(paths)
    for r in range(len(got['n_cells'])):
        if not any(int(s['n_cells'][r]) == int(got['n_cells'][r]) and
                   all(np.array_equal(got[k][r], s[k][r]) for k in c09.STAT_KEYS[1:]) for s in ins):
            return False
    return True


def _metadata_kept(paths, out):
    from bounded import c09
    got = c09.read_stats(out)
    ins = _in_stats(paths)
    return all(got['cluster_to_row'] == s['cluster_to_row'] and got['col_names'] == s['col_names'] and
               got['taxonomy_tree'] == s['taxonomy_tree'] for s in ins)


def _order_independent(paths, out):
    """C04: the merged file is a function of the *set* of input files - every other order of the same
    list (the command-line tool builds it by iterating over a set of dataset labels) gives the same
    datasets, ties in n_cells included"""
    import itertools
    import numpy as np
    from bounded import c09
    from cell_type_mapper.diff_exp.precompute_utils import merge_precompute_files
    got = c09.read_stats(out)
    lst = list(paths)
    perms = [lst[::-1], lst[1:] + lst[:1]] if len(lst) > 1 else []
    for k, perm in enumerate(perms):
        other = out[:-3] + f'_perm{k}.h5'
        if os.path.exists(other):
            os.unlink(other)
        merge_precompute_files(precompute_path_list=list(perm), output_path=other)
        alt = c09.read_stats(other)
        os.unlink(other)
        for key in c09.STAT_KEYS:
            if not np.array_equal(np.asarray(got[key]), np.asarray(alt[key])):
                return False
    return True


def _inputs_untouched(paths, out):
    before = _INPUTS[out][4]
    return all(open(p, 'rb').read() == before[p] for p in paths)


contract(
    M + 'merge_precompute_files',
    properties=['C09', 'C04'],
    mode='bounded',
    params=dict(precompute_path_list='List[Name]', output_path='Name'),
    requires=["len(precompute_path_list) >= 1"],
    ensures=[
        # per cluster the row of a dataset with the most cells
        "n_cells_is_max(precompute_path_list, output_path)",
        "rows_from_one_donor(precompute_path_list, output_path)",
        "metadata_kept(precompute_path_list, output_path)",
        "inputs_untouched(precompute_path_list, output_path)",
        "order_independent(precompute_path_list, output_path)",
        # the caller's list is sorted in place (documented side effect of the function)
        "sorted(precompute_path_list) == sorted(old(precompute_path_list))",
    ],
    native=dict(gen=_gen_merge,
                bound='1-4 statistics files of one taxonomy, <= 5 leaves x 4 genes, ties in n_cells',
                env=dict(n_cells_is_max=_n_cells_is_max, rows_from_one_donor=_rows_from_one_donor,
                         metadata_kept=_metadata_kept, inputs_untouched=_inputs_untouched,
                         order_independent=_order_independent, sorted=sorted)),
)
