"""Sidecar contracts for cell_type_mapper (one module per repository module)."""
import importlib
import pkgutil


def load_all():
    import contracts as pkg
    import pyvc.ext
    pyvc.ext.load_all()
    for m in sorted(pkgutil.iter_modules(pkg.__path__), key=lambda m: m.name):
        importlib.import_module('contracts.' + m.name)
