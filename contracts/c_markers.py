"""cell_type_mapper.diff_exp.markers  (C11.f: pair-major table assembled from per-chunk files)

Bounded (native execution of the real functions; never reported as proved):

* `_lookup_to_sparse`: the CSR pair (indptr, indices) of a {pair index -> gene indices} lookup:
  pointers start at 0, are monotone, end at the number of entries; row k holds exactly the genes
  of the k-th smallest pair index.  (A proof needs "the sum of the row lengths does not depend on
  the iteration order" - the total is accumulated in dict order, the pointers in sorted order.)
* `_merge_sparse_by_pair_files` (through the package's own `_write_to_tmp_file`): the merged
  pair-major tables are the concatenation of the chunks in pair order; up and down stay disjoint.

FINDING D-5 (FIXED in /repo 9a7222e; before it the view `#d5` failed natively with an escaping
ValueError): when NO pair has an up-regulated
marker (or none has a down-regulated one) `create_dataset(..., shape=(0,), chunks=(min(1000000, 0),))`
raises "All chunk dimensions must be positive".  Minimal patch (same for `_merge_masks`):

    -            chunks=(min(1000000, n_up_indices),))
    +            chunks=(min(1000000, n_up_indices),) if n_up_indices > 0 else None)
"""
import shutil
import tempfile

from pyvc.contracts import contract

M = 'cell_type_mapper.diff_exp.markers.'


# ---- _lookup_to_sparse ----------------------------------------------------------------------------
def _gen_lookup(rng, size):
    import numpy as np
    n_rows = rng.randint(0, size + 2)
    start = rng.choice([0, 8, 16])
    keys = list(range(start, start + n_rows))
    rng.shuffle(keys)                       # dict order != sorted order
    n_genes = rng.randint(1, size + 3)
    out = {k: np.array(sorted(rng.sample(range(n_genes), rng.randint(0, n_genes))), dtype=np.int64) for k in keys}
    if keys and rng.random() < 0.4:
        # gene indices beyond 255 / 65535 in a row that is neither the last nor the longest: the index
        # array has to be wide enough for the largest gene index of ANY row, however few entries there are
        big = rng.choice([256, 300, 65536, 70000])
        k = rng.choice(keys)
        out[k] = np.array(sorted(set(out[k].tolist()) | {big, big + rng.randint(1, 5)}), dtype=np.int64)
    return dict(indptr_to_indices=out)


def _rows_ok(lookup, result):
    import numpy as np
    indptr, indices = result
    keys = sorted(lookup)
    if len(indptr) != len(keys) + 1 or (len(indptr) and indptr[0] != 0) or indptr[-1] != len(indices):
        return False
    for k, key in enumerate(keys):
        if indptr[k] > indptr[k + 1]:
            return False
        if not np.array_equal(np.asarray(indices[indptr[k]:indptr[k + 1]]).astype(int),
                              np.asarray(lookup[key]).astype(int)):
            return False
    return True


contract(
    M + '_lookup_to_sparse',
    # C04: the packed chunk must be the same whatever pairs happen to share the chunk (the chunking
    # follows the worker count)
    properties=['C11', 'C04'], mode='bounded',
    native=dict(gen=_gen_lookup, env=dict(rows_ok=_rows_ok), weight=3,
                bound='<= 6 pairs (dict order shuffled), <= 7 genes, empty rows, no row at all; gene indices beyond 255 / 65535 in one row'),
    params=dict(indptr_to_indices='Dict[Int,Arr[Int]]'),
    returns='Tuple[Arr[Int],Arr[Int]]',
    ensures=[
        "len(result[0]) == len(indptr_to_indices) + 1",
        "result[0][0] == 0 and result[0][len(result[0]) - 1] == len(result[1])",
        "all(result[0][k] <= result[0][k + 1] for k in range(len(indptr_to_indices)))",
        # row k = the genes of the k-th smallest pair index, in the order given
        "rows_ok(indptr_to_indices, result)",
    ],
)


# ---- _merge_sparse_by_pair_files -------------------------------------------------------------------
def _gen_chunks(rng, size, kinds=('mixed',)):
    import numpy as np
    n_genes = rng.randint(1, size + 2)
    n_chunks = rng.randint(1, 3)
    kind = rng.choice(list(kinds))
    chunks = []
    for c in range(n_chunks):
        n_here = 8 if c < n_chunks - 1 else rng.randint(1, 8)      # chunk starts are multiples of 8
        up, down = {}, {}
        for i in range(8 * c, 8 * c + n_here):
            genes = rng.sample(range(n_genes), rng.randint(0, n_genes))
            u = sorted(g for g in genes if rng.random() < 0.5)
            d = sorted(g for g in genes if g not in u)
            if kind in ('no_up', 'empty'):
                u = []
            if kind in ('no_down', 'empty'):
                d = []
            up[i] = np.array(u, dtype=np.int64)
            down[i] = np.array(d, dtype=np.int64)
        chunks.append((up, down))
    if kind == 'mixed':
        # at least one up and one down entry over the whole file (otherwise: D-5, see the view #d5)
        first_up, first_down = chunks[0]
        k = min(first_up)
        if not any(len(v) for ch in chunks for v in ch[0].values()):
            first_up[k] = np.array([0], dtype=np.int64)
            first_down[k] = np.array([g for g in first_down[k] if g != 0], dtype=np.int64)
        if not any(len(v) for ch in chunks for v in ch[1].values()):
            k2 = max(chunks[-1][1])
            chunks[-1][1][k2] = np.array([n_genes - 1], dtype=np.int64)
            chunks[-1][0][k2] = np.array([g for g in chunks[-1][0][k2] if g != n_genes - 1], dtype=np.int64)
            if not any(len(v) for ch in chunks for v in ch[0].values()):
                return _gen_chunks(rng, size, kinds)
    return dict(chunks=chunks, n_genes=n_genes)


def _call_merge(chunks, n_genes):
    """per-chunk files through the package's `_write_to_tmp_file`, then the real merge; returns the
    merged tables"""
    import h5py
    import numpy as np
    import pathlib
    from cell_type_mapper.diff_exp.markers import _write_to_tmp_file, _merge_sparse_by_pair_files
    from cell_type_mapper.utils.utils import choose_int_dtype
    d = pathlib.Path(tempfile.mkdtemp(prefix='verif_merge_', dir='/tmp'))
    try:
        tmp_path_dict = {}
        n_pairs = 0
        for c, (up, down) in enumerate(chunks):
            p = d / f'chunk_{c}.h5'
            _write_to_tmp_file(up_reg_lookup=up, down_reg_lookup=down, output_path=p,
                               idx_dtype=choose_int_dtype((0, n_genes)))
            tmp_path_dict[min(up)] = p
            n_pairs += len(up)
        out = d / 'merged.h5'
        with h5py.File(out, 'w') as f:
            f.create_dataset('n_pairs', data=n_pairs)
        _merge_sparse_by_pair_files(tmp_path_dict=tmp_path_dict, n_genes=n_genes, n_pairs=n_pairs,
                                    output_path=out)
        with h5py.File(out, 'r') as f:
            return {k: np.array(f['sparse_by_pair/' + k][()]).astype(int)
                    for k in ('up_pair_idx', 'up_gene_idx', 'down_pair_idx', 'down_gene_idx')}
    finally:
        shutil.rmtree(d, ignore_errors=True)


def _merged_ok(chunks, result):
    import numpy as np
    for direction, which in (('up', 0), ('down', 1)):
        ptr, idx = result[direction + '_pair_idx'], result[direction + '_gene_idx']
        rows = []
        for ch in chunks:
            for k in sorted(ch[which]):
                rows.append([int(x) for x in ch[which][k]])
        if len(ptr) != len(rows) + 1 or ptr[0] != 0 or ptr[-1] != len(idx):
            return False
        for k, row in enumerate(rows):
            if list(idx[ptr[k]:ptr[k + 1]]) != row:
                return False
    return True


def _disjoint(result):
    up_p, up_g = result['up_pair_idx'], result['up_gene_idx']
    dn_p, dn_g = result['down_pair_idx'], result['down_gene_idx']
    for k in range(len(up_p) - 1):
        if set(up_g[up_p[k]:up_p[k + 1]]) & set(dn_g[dn_p[k]:dn_p[k + 1]]):
            return False
    return True


MERGE_ENSURES = [
    # the merged pair-major tables are the chunks' rows in pair order (pointers rebased)
    "merged_ok(chunks, result)",
    # no gene both up and down for a pair
    "disjoint(result)",
]

contract(
    M + '_merge_sparse_by_pair_files',
    properties=['C11'], mode='bounded',
    native=dict(gen=_gen_chunks, call=_call_merge, env=dict(merged_ok=_merged_ok, disjoint=_disjoint),
                bound='<= 3 chunks of <= 8 pairs, <= 6 genes; at least one up and one down marker in the file'),
    params=dict(chunks='Opaque', n_genes='Int'),
    returns='Opaque',
    ensures=MERGE_ENSURES,
)

contract(
    M + '_merge_sparse_by_pair_files#d5',
    properties=['C11'], mode='bounded',
    native=dict(gen=lambda rng, size: _gen_chunks(rng, size, kinds=('no_up', 'no_down', 'empty')),
                call=_call_merge, env=dict(merged_ok=_merged_ok, disjoint=_disjoint),
                bound='<= 3 chunks of <= 8 pairs, <= 6 genes; NO up marker / NO down marker / no marker at all'),
    params=dict(chunks='Opaque', n_genes='Int'),
    returns='Opaque',
    ensures=MERGE_ENSURES,
    note="failed natively (ValueError: All chunk dimensions must be positive) before the fix of finding D-5",
)
