"""cell_type_mapper.type_assignment.utils  (C08.g, C17.c)"""
from pyvc.contracts import contract
import pyvc.ext.marker_cache as mc
from contracts.c_marker_cache_v2 import VALID_TREE, A_GRP, AP, ROOT_MULTI, multi, key, make_tree, random_shape

mc.install_h5_reader()      # on top of any h5py.File handler registered by other extensions

M = 'cell_type_mapper.type_assignment.utils.'

_POOL_DIR = [None]


def _scratch_file(rng):
    import os
    import tempfile
    if _POOL_DIR[0] is None or not os.path.isdir(_POOL_DIR[0]):
        _POOL_DIR[0] = tempfile.mkdtemp(prefix='mc_native_')
        import atexit
        import shutil
        atexit.register(shutil.rmtree, _POOL_DIR[0], True)
    return os.path.join(_POOL_DIR[0], f'cache_{rng.randrange(16)}.h5')


def _gen_reconcile(rng, size):
    """real tree + real HDF5 file holding groups for a random subset of the parents (often all
    consulted ones, often one missing, sometimes a whole level missing)"""
    import h5py
    n_levels = rng.choice([1, 2, 2, 3, 3, 4])
    tree = make_tree(random_shape(rng, n_levels))
    keys = ['None' if p is None else f'{p[0]}/{p[1]}' for p in tree.all_parents]
    mode = rng.choice(['all', 'all', 'drop_one', 'drop_level', 'random'])
    present = set(keys)
    if mode == 'drop_one' and keys:
        present.discard(rng.choice(keys))
    elif mode == 'drop_level' and len(tree.hierarchy) > 1:
        lv = rng.choice(tree.hierarchy[:-1])
        present = {k for k in keys if not k.startswith(lv + '/')}
    elif mode == 'random':
        present = {k for k in keys if rng.random() < 0.6}
    path = _scratch_file(rng)
    with h5py.File(path, 'w') as f:
        for k in sorted(present):
            f.create_group(k)
        if rng.random() < 0.3:
            f.create_group('gone/x')
    return dict(taxonomy_tree=tree, marker_cache_path=path)


contract(
    M + 'reconcile_taxonomy_and_markers',
    properties=['C08', 'C17'],
    native=dict(gen=_gen_reconcile),
    params=dict(taxonomy_tree='MCTree', marker_cache_path='Opaque'),
    returns='Tuple[Bool,Name]',
    locals=dict(missing_levels='Set[Name]', valid_levels='Set[Name]',
                missing_nodes='List[Opt[Tuple[Name,Name]]]', fully_missing_levels='Set[Name]'),
    assumptions=[A_GRP],
    requires=VALID_TREE,
    ensures=[
        # (True, '') iff every parent with more than one child - the root included - has a group
        f"iff(result[0], (not {ROOT_MULTI} or h5_has(marker_cache_path, 'None')) and "
        f"all(h5_has(marker_cache_path, {key('p')}) for p in {AP} if p is not None and {multi('p')}))",
        "implies(result[0], result[1] == '')",
    ],
    loops={
        0: [
            # nothing is missing so far  <=>  every parent visited that needs a group has one
            "iff(len(missing_nodes) == 0, all(((not " + ROOT_MULTI + ") or h5_has(marker_cache_path, 'None')) "
            "if parent_list[j] is None else "
            "((not " + multi('parent_list[j]') + ") or h5_has(marker_cache_path, " + key('parent_list[j]') + ")) "
            "for j in range(_i)))",
        ],
    },
)
