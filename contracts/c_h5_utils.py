"""cell_type_mapper.utils.h5_utils  (C13.g)

`_get_slices_for_copy`: per dimension the hyperslab slices are consecutive, non-empty, step 1 and
cover [0, shape[d]).  A `slice(a, b, 1)` is modelled as the pair (a, b) (the engine accepts only
step 1); the native wrapper converts the real slice objects to pairs after checking the step.
"""
from pyvc.contracts import contract

M = 'cell_type_mapper.utils.h5_utils.'


def _tile_clauses(xs, shape):
    """clauses saying that the pair list `xs[d]` tiles [0, shape[d]) for every d < len(xs)"""
    return [
        f"all(implies({shape}[d] == 0, len({xs}[d]) == 0) for d in range(len({xs})))",
        f"all(implies({shape}[d] > 0, len({xs}[d]) > 0 and {xs}[d][0][0] == 0 "
        f"and {xs}[d][len({xs}[d]) - 1][1] == {shape}[d]) for d in range(len({xs})))",
        f"all({xs}[d][k][0] < {xs}[d][k][1] for d in range(len({xs})) for k in range(len({xs}[d])))",
        f"all({xs}[d][k][1] == {xs}[d][k + 1][0] for d in range(len({xs})) "
        f"for k in range(len({xs}[d]) - 1))",
    ]


def _call_slices(data_shape, max_elements):
    from cell_type_mapper.utils.h5_utils import _get_slices_for_copy
    out = _get_slices_for_copy(tuple(data_shape), max_elements)
    for dim in out:
        for s in dim:
            assert isinstance(s, slice) and s.step == 1, s
    return [[(int(s.start), int(s.stop)) for s in dim] for dim in out]


def _gen_slices(rng, size):
    nd = rng.choice([1, 1, 2, 2, 3, 0])
    shape = [rng.choice([0, 1, 2, 3, 5, 7, rng.randint(0, 4 * size)]) for _ in range(nd)]
    me = rng.choice([1, 2, 3, 4, 7, 9, 16, 27, 100, rng.randint(1, 200), 10**6])
    return dict(data_shape=shape, max_elements=me)


def _enum_slices(size):
    for me in (1, 2, 3, 4, 5, 8, 9, 26, 27, 28, 1000):
        for a in range(0, 6):
            yield dict(data_shape=[a], max_elements=me)
            for b in range(0, 6):
                yield dict(data_shape=[a, b], max_elements=me)
                for c in (0, 1, 3):
                    yield dict(data_shape=[a, b, c], max_elements=me)


contract(
    M + '_get_slices_for_copy',
    properties=['C13'],
    native=dict(gen=_gen_slices, call=_call_slices, enumerate=_enum_slices,
                bound='every shape with dims <= 5 (rank 1-3), max_elements in a fixed boundary set'),
    params=dict(data_shape='List[Int]', max_elements='Int'),
    returns='List[List[Tuple[Int,Int]]]',
    locals=dict(actual_slices='List[List[Tuple[Int,Int]]]', these_slices='List[Tuple[Int,Int]]'),
    requires=["max_elements >= 1", "all(data_shape[d] >= 0 for d in range(len(data_shape)))"],
    ensures=["len(result) == len(data_shape)"] + _tile_clauses('result', 'data_shape'),
    loops={
        0: ["len(actual_slices) == i_dim", "0 <= i_dim <= len(data_shape)"]
           + _tile_clauses('actual_slices', 'data_shape'),
        1: ["0 <= i0",
            "iff(len(these_slices) == 0, i0 == 0)",
            "implies(len(these_slices) > 0, these_slices[0][0] == 0 "
            "and these_slices[len(these_slices) - 1][1] == min(i0, this_n))",
            "all(these_slices[k][0] < these_slices[k][1] for k in range(len(these_slices)))",
            "all(these_slices[k][1] == these_slices[k + 1][0] for k in range(len(these_slices) - 1))",
            ],
    },
)


# ---------------------------------------------------------------------------------------------
# _copy_h5_element (C13.c/g): slice over the chunk shape handed to create_dataset.
# The chunk shape of the source is re-used for a destination of the same *current* shape.  For a
# resizable source (maxshape) h5py allows chunks larger than the shape - anndata writes the empty
# 'data' / 'indices' arrays of an all-zero sparse matrix as shape (0,), chunks (1024,),
# maxshape (None,) - and the fixed-shape destination is then refused:
#   ValueError: Chunk shape must not be greater than data shape in any dimension
# The obligation below therefore FAILS on the unchanged tree (finding D-10, reproduced natively:
# copy_h5_excluding_data / copy_layer_to_x on an h5ad file whose sparse X stores no value).
# ---------------------------------------------------------------------------------------------
_H5_ASSUME = ['A-H5SHAPE: entries of h5py dataset shapes are non-negative integers; chunk shapes are '
              'None or positive per dimension (not assumed <= shape: resizable datasets); '
              'A-H5ITEM: group[name] denotes the same object within one call']

contract(
    M + '_copy_h5_element',
    properties=['C13'],
    mode='slice', unexpected_exceptions='allowed',
    ghost=dict(h5_shapes=True), assumptions=_H5_ASSUME,
    tracked=['src_dataset', 'chunks', 'copy_slices', 'max_elements'],
    params=dict(max_elements='Int'),
    requires=["max_elements >= 1"],
    note="D-10: `create_dataset(shape=src.shape, chunks=src.chunks)` is refused for a resizable "
         "source whose chunks exceed its shape (all-zero sparse h5ad)",
)
