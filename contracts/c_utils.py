"""cell_type_mapper.utils.utils"""
from pyvc.contracts import contract

M = 'cell_type_mapper.utils.utils.'


def _gen_minmax(rng, size):
    import numpy as np
    edges = [0, 1, 127, 128, 255, 256, 32767, 32768, 65535, 65536, 2**31 - 1, 2**31, 2**32 - 1,
             2**32, 2**63 - 1, 2**63, 2**64 - 1]
    def pick():
        e = rng.choice(edges) * rng.choice([1, 1, -1])
        return float(e + rng.choice([0, 0.5, -0.5, 0.25, -0.25, 0.49, -0.49]))
    a, b = pick(), pick()
    return dict(x_minmax=(min(a, b), max(a, b)))


contract(
    M + 'choose_int_dtype',
    properties=['C16'],
    native=dict(gen=_gen_minmax, weight=3),
    params=dict(x_minmax='Tuple[Real,Real]'),
    returns='Int',
    requires=["x_minmax[0] <= x_minmax[1]"],
    known_findings=[dict(
        id='S-6',
        # beyond the uint64 / int64 range the function falls through to `int`
        exclude="rnd(x_minmax[0]) < -9223372036854775808 or rnd(x_minmax[1]) > 18446744073709551615 "
                "or (rnd(x_minmax[0]) < 0 and rnd(x_minmax[1]) > 9223372036854775807)",
        witness=dict(x_minmax=(0.0, 1e20)),
        what='choose_int_dtype((0, 1e20)) returns int: no integer type wide enough')],
    ensures=[
        # the returned type holds every rounded value ...
        "iinfo_min(result) <= rnd(x_minmax[0])", "rnd(x_minmax[1]) <= iinfo_max(result)",
        "result != DT_INT",
        # ... and is the first candidate of the fixed order that does (smallest type)
        "implies(result != DT_UINT8, not (0 <= rnd(x_minmax[0]) and rnd(x_minmax[1]) <= 255))",
        "implies(result == DT_UINT16 or result == DT_INT16 or result == DT_UINT32 or result == DT_INT32 "
        "or result == DT_UINT64 or result == DT_INT64, "
        "not (-128 <= rnd(x_minmax[0]) and rnd(x_minmax[1]) <= 127))",
        "implies(result == DT_UINT32 or result == DT_INT32 or result == DT_UINT64 or result == DT_INT64, "
        "not (-32768 <= rnd(x_minmax[0]) and rnd(x_minmax[1]) <= 65535 "
        "and (0 <= rnd(x_minmax[0]) or rnd(x_minmax[1]) <= 32767)))",
    ],
)
