"""cell_type_mapper.type_assignment.matching  (C02.d, C02.g)

Both functions read HDF5 files; they are exercised natively (bounded) on generated files: a
marker cache and a precomputed-stats file are written for every generated taxonomy, query and
reference gene orders differ, markers are paired by name.  The contract of
`assemble_query_data` is what `_run_type_assignment` (c_election.py, proved) relies on.
"""
import atexit
import json
import os
import shutil
import tempfile

from pyvc.contracts import contract
from pyvc.types import record
import pyvc.ext.election as _ext

_ext.install()

M = 'cell_type_mapper.type_assignment.matching.'

record('CBGm', data='Arr2[Real]', n_cells='Int', n_genes='Int', gene_identifiers='List[Name]',
       normalization='Name', cell_identifiers='Opt[List[Name]]')
record('AQD', query_data='CBGm', reference_data='CBGm', reference_types='List[Name]')

_TMP = []


def _tmp_dir():
    if not _TMP:
        d = tempfile.mkdtemp(prefix='pyvc_matching_')
        _TMP.append(d)
        atexit.register(lambda: shutil.rmtree(d, ignore_errors=True))
    return _TMP[0]


def _mk_tree(tree):
    import warnings
    from cell_type_mapper.taxonomy.taxonomy_tree import TaxonomyTree
    with warnings.catch_warnings():
        warnings.simplefilter('ignore')
        return TaxonomyTree(data=tree)


def _parents_with_choice(tree):
    H = tree['hierarchy']
    out = [None] if len(tree[H[0]]) > 1 else []
    for lv in H[:-1]:
        out += [(lv, n) for n, ch in tree[lv].items() if len(ch) > 1]
    return out


def _leaves_below(tree, parent):
    """child -> sorted leaves, for the children of `parent`"""
    H = tree['hierarchy']
    if parent is None:
        lvl, children = H[0], list(tree[H[0]])
    else:
        lvl, children = H[H.index(parent[0]) + 1], list(tree[parent[0]][parent[1]])
    out = {}
    for c in children:
        nodes, k = [c], H.index(lvl)
        while k < len(H) - 1:
            nodes = [x for n in nodes for x in tree[H[k]][n]]
            k += 1
        out[c] = sorted(nodes)
    return out


def _gen_assemble(rng, size):
    import h5py
    import numpy as np
    from contracts.c_election import _trees
    from cell_type_mapper.cell_by_gene.cell_by_gene import CellByGeneMatrix
    trees = [t for t in _trees(3, 5) if _parents_with_choice(t)]
    tree = _relabel_leaves(rng.choice(trees), rng)
    H = tree['hierarchy']
    leaves = sorted(tree[H[-1]])
    n_ref_genes, n_q_genes = rng.randint(2, 6), rng.randint(2, 6)
    ref_genes = [f"g{k}" for k in range(n_ref_genes)]
    rng.shuffle(ref_genes)
    shared = rng.sample(ref_genes, rng.randint(1, min(n_ref_genes, n_q_genes)))
    q_genes = shared + [f"q{k}" for k in range(n_q_genes - len(shared))]
    rng.shuffle(q_genes)
    parent = rng.choice(_parents_with_choice(tree))
    path = os.path.join(_tmp_dir(), f"cache_{rng.randrange(10**9)}.h5")
    with h5py.File(path, 'w') as f:
        f.create_dataset('reference_gene_names', data=json.dumps(ref_genes).encode('utf-8'))
        f.create_dataset('query_gene_names', data=json.dumps(q_genes).encode('utf-8'))
        for p in _parents_with_choice(tree):
            markers = sorted(rng.sample(shared, rng.randint(1, len(shared))), key=ref_genes.index)
            grp = f.create_group('None' if p is None else f"{p[0]}/{p[1]}")
            grp.create_dataset('reference', data=np.array([ref_genes.index(g) for g in markers]))
            grp.create_dataset('query', data=np.array([q_genes.index(g) for g in markers]))
    n_cells = rng.randint(1, 4)
    q = CellByGeneMatrix(data=np.array([[float(rng.randint(0, 9)) for _ in q_genes] for _ in range(n_cells)]),
                         gene_identifiers=q_genes, normalization='log2CPM')
    leaf_order = list(leaves)
    rng.shuffle(leaf_order)            # rows of the mean-profile matrix in arbitrary order
    means = CellByGeneMatrix(data=np.array([[10.0 * leaves.index(lf) + ref_genes.index(g) for g in ref_genes]
                                            for lf in leaf_order]),
                             gene_identifiers=ref_genes, normalization='log2CPM', cell_identifiers=leaf_order)
    return dict(full_query_data=q, mean_profile_matrix=means, taxonomy_tree=_mk_tree(tree),
                marker_cache_path=path, parent_node=parent)


def _markers(path, parent):
    import h5py
    with h5py.File(path, 'r') as f:
        grp = f['None' if parent is None else f"{parent[0]}/{parent[1]}"]
        ref_names = json.loads(f['reference_gene_names'][()].decode('utf-8'))
        return [ref_names[k] for k in grp['reference'][()]]


def _n_markers_for(path, parent):
    return len(_markers(path, parent))


AQD_ENV = dict(markers=_markers, leaves_below=lambda tt, p: _leaves_below(tt._data, p), sorted=sorted, list=list,
               sum=sum)

AQD_PARAMS = dict(full_query_data='CBGm', mean_profile_matrix='CBGm', taxonomy_tree='Opaque',
                  marker_cache_path='Opaque', parent_node='Opt[Tuple[Name,Name]]')

# the part of the contract the election relies on (stated so that it also reads symbolically)
AQD_SHAPES = [
    "result['query_data'].data.shape[0] == full_query_data.n_cells",
    "result['query_data'].data.shape[1] == result['reference_data'].data.shape[1]",
    "result['reference_data'].data.shape[0] == len(result['reference_types'])",
]

AQD_SHAPES = AQD_SHAPES + [
    "result['query_data'].data.shape[1] == n_markers_for(marker_cache_path, parent_node)",
    "len(result['reference_types']) >= 1",
    "result['query_data'].normalization == 'log2CPM' and result['reference_data'].normalization == 'log2CPM'",
]
AQD_REQ = ["full_query_data.normalization == 'log2CPM'", "mean_profile_matrix.normalization == 'log2CPM'"]
AQD_NATIVE = dict(gen=_gen_assemble, env=AQD_ENV,
                  bound='seeded random: taxonomies <= 3 levels / <= 5 leaves, <= 6 genes, <= 4 cells; '
                        'query / reference gene orders differ; marker cache and profiles written to HDF5')

# what the election relies on (shapes; `n_markers_for` = number of marker pairs stored for the parent)
contract(
    M + 'assemble_query_data',
    properties=['C02', 'C07'], mode='bounded', native=AQD_NATIVE,
    params=AQD_PARAMS, returns='AQD', requires=AQD_REQ, ensures=AQD_SHAPES,
    note="reads HDF5 (marker cache); bounded natively on generated files",
)

# C02.d: which rows, which labels, which genes, which values
contract(
    M + 'assemble_query_data#content',
    properties=['C02', 'C07'], mode='bounded', native=AQD_NATIVE,
    params=AQD_PARAMS, returns='AQD', requires=AQD_REQ,
    ensures=[
        # reference rows = the sorted leaves below the parent's children, and only those ...
        "list(result['reference_data'].cell_identifiers) == "
        "sorted(lf for ch, lvs in leaves_below(taxonomy_tree, parent_node).items() for lf in lvs)",
        # ... each labelled with the child that owns it
        "all(result['reference_data'].cell_identifiers[k] in "
        "leaves_below(taxonomy_tree, parent_node)[result['reference_types'][k]] "
        "for k in range(len(result['reference_types'])))",
        # query and reference carry the same genes in the same order: the markers of this parent
        "list(result['query_data'].gene_identifiers) == list(result['reference_data'].gene_identifiers)",
        "list(result['query_data'].gene_identifiers) == markers(marker_cache_path, parent_node)",
        # the values are those of the inputs, looked up by gene NAME and leaf NAME (C07.c)
        "all(result['query_data'].data[i, g] == full_query_data.data[i, "
        "list(full_query_data.gene_identifiers).index(result['query_data'].gene_identifiers[g])] "
        "for i in range(full_query_data.n_cells) for g in range(result['query_data'].n_genes))",
        "all(result['reference_data'].data[k, g] == mean_profile_matrix.data["
        "list(mean_profile_matrix.cell_identifiers).index(result['reference_data'].cell_identifiers[k]), "
        "list(mean_profile_matrix.gene_identifiers).index(result['reference_data'].gene_identifiers[g])] "
        "for k in range(result['reference_data'].n_cells) for g in range(result['reference_data'].n_genes))",
        # the inputs are not modified
        "full_query_data.n_genes == old(full_query_data).n_genes and "
        "mean_profile_matrix.n_cells == old(mean_profile_matrix).n_cells and "
        "mean_profile_matrix.n_genes == old(mean_profile_matrix).n_genes",
    ],
)


# ---------------------------------------------------------------------------------------------
def _relabel_leaves(tree, rng):
    """the same taxonomy with leaf names whose dictionary order is not their sorted order"""
    H = tree['hierarchy']
    old = list(tree[H[-1]])
    new = [f"c{k}" for k in range(len(old))]
    rng.shuffle(new)
    m = dict(zip(old, new))
    out = {'hierarchy': list(H)}
    for lv in H[:-1]:
        out[lv] = {p: [m.get(c, c) for c in ch] for p, ch in tree[lv].items()}
    out[H[-1]] = {m[lf]: rows for lf, rows in tree[H[-1]].items()}
    return out


def _gen_leaf_means(rng, size):
    import h5py
    import numpy as np
    from contracts.c_election import _trees
    tree = _relabel_leaves(rng.choice(list(_trees(3, 5))), rng)
    H = tree['hierarchy']
    leaves = list(tree[H[-1]])
    genes = [f"g{k}" for k in range(rng.randint(1, 5))]
    rows = list(range(len(leaves)))
    rng.shuffle(rows)
    n_cells = np.array([rng.choice([0, 1, 2, 5]) for _ in leaves])
    sums = np.array([[float(rng.randint(0, 20)) for _ in genes] for _ in leaves]).reshape(len(leaves), len(genes))
    path = os.path.join(_tmp_dir(), f"stats_{rng.randrange(10**9)}.h5")
    with h5py.File(path, 'w') as f:
        f.create_dataset('col_names', data=json.dumps(genes).encode('utf-8'))
        f.create_dataset('cluster_to_row', data=json.dumps({lf: r for lf, r in zip(leaves, rows)}).encode('utf-8'))
        f.create_dataset('n_cells', data=n_cells)
        f.create_dataset('sum', data=sums)
        f.create_dataset('ge1', data=(sums >= 1).astype(int))      # (its absence only triggers a warning)
        if rng.random() < 0.5:
            f.create_dataset('sumsq', data=sums * sums)
    return dict(taxonomy_tree=_mk_tree(tree), precompute_path=path, for_marker_selection=False)


def _stats(path):
    import h5py
    with h5py.File(path, 'r') as f:
        return dict(genes=json.loads(f['col_names'][()].decode('utf-8')),
                    row=json.loads(f['cluster_to_row'][()].decode('utf-8')),
                    n=f['n_cells'][()], s=f['sum'][()])


contract(
    M + 'get_leaf_means',
    properties=['C02'], mode='bounded',
    native=dict(gen=_gen_leaf_means, env=dict(stats=_stats, sorted=sorted, list=list, max=max),
                bound='seeded random: taxonomies <= 3 levels / <= 5 leaves, <= 5 genes, clusters with 0 cells '
                      'included, cluster rows in arbitrary order'),
    params=dict(taxonomy_tree='Opaque', precompute_path='Opaque', for_marker_selection='Bool'),
    returns='CBGm',
    requires=["not for_marker_selection"],
    ensures=[
        # one row per leaf, leaves sorted; columns = the gene names of the stats file
        "list(result.cell_identifiers) == sorted(stats(precompute_path)['row'])",
        "list(result.gene_identifiers) == stats(precompute_path)['genes']",
        "result.normalization == 'log2CPM'",
        # row k = sum[cluster_to_row[leaf_k]] / max(1, n_cells[...])
        "all(abs(result.data[k, g] - stats(precompute_path)['s'][stats(precompute_path)['row'][result.cell_identifiers[k]], g] "
        "/ max(1, stats(precompute_path)['n'][stats(precompute_path)['row'][result.cell_identifiers[k]]])) < 1e-12 "
        "for k in range(result.n_cells) for g in range(result.n_genes))",
    ],
    note="reads HDF5 (precomputed stats); bounded natively on generated files",
)
