"""cell_type_mapper.cli.from_specified_markers.run_mapping as a slice (C14.c, C19.a, C20.a).

Ghost variables (updated by the trusted contracts in pyvc/ghost.py):
  live             scratch entries created by this call and not yet removed (tempfile.mkdtemp adds a
                   fresh name - A-TMP; _clean_up removes)
  mapping_returned number of times _run_mapping returned normally
  success_logged   number of times the success line was logged
  log_written      number of log files written; log_file_safe: the last one was written cloud-safe
`sanitized(x)` is established only by cloud_utils.sanitize_paths (whose body is bounded, C20.c).
"""
from pyvc.contracts import contract

KEYS = ['cloud_safe', 'extended_result_dir', 'summary_metadata_path', 'query_path', 'map_to_ensembl']

contract(
    'cell_type_mapper.cli.from_specified_markers.run_mapping#effects',
    properties=['C14', 'C19', 'C20'],
    mode='slice',
    tracked=['output', 'tmp_dir', 'tmp_result_dir', 'log', 'safe_config', 'output_log', 'config',
             'log_path', 'output_path', 'hdf5_output_path'],
    params=dict(config='Dict[Name,Opaque]'),
    locals=dict(output='Dict[Name,Opaque]', tmp_dir='Opt[Name]'),
    requires=[f"'{k}' in config" for k in KEYS],
    ghost=dict(vars=dict(live='Set[Name]', mapping_called='Int', mapping_returned='Int', success_logged='Int',
                         log_written='Int', log_file_safe='Bool'),
               # assumed not to mutate their arguments (they build new values / write files)
               pure_calls=['clean_for_json', 'blob_to_hdf5', 'dumps', 'get_execution_metadata',
                           'read_uns_from_h5ad', 'read_df_from_h5ad', 'print']),
    raises={'Exception': True},
    ensures=[
        "success_logged == 1 and mapping_returned == 1",
    ],
    ensures_exc=[
        # C14.c: a failed mapping logs no success line and writes no result records ...
        "implies(mapping_returned == 0, success_logged == 0)",
        "implies(bound('output') and mapping_returned == 0, 'results' not in local('output'))",
    ],
    ensures_all=[
        # C19.a: nothing this call created under the scratch directory survives it (D-7)
        "len(live) == 0",
        # C14.c: ... though it still writes its log (once the log path is known to be writable)
        "implies(mapping_called == 1 and mapping_returned == 0 and not is_none(local('log_path')), "
        "log_written == 1)",
        # C20.a: what is recorded in the output blob and the log file is sanitised when cloud-safe
        "implies(bound('output') and truthy(config['cloud_safe']) and 'config' in local('output'), "
        "sanitized(local('output')['config']))",
        "implies(bound('output') and truthy(config['cloud_safe']) and 'log' in local('output'), "
        "sanitized(local('output')['log']))",
        "implies(truthy(config['cloud_safe']) and log_written >= 1, log_file_safe)",
    ],
    min_obligations=8,
)


# ---------------------------------------------------------------------------------------------------
# _run_mapping: which tree goes where (C17.b, C01.f) and the flatten marker union (C08.e / C17)
#   * the tree kept for the output and for back-filling is captured before any reduction
#     (ghost counter of drop_level / flatten calls is 0 at that statement);
#   * every reduction happens before the marker cache is built, and the marker cache, the election
#     and the marker serialisation all receive the same (reduced) tree object;
#   * with flatten, the root's marker list holds every gene of every list of the table.
# ---------------------------------------------------------------------------------------------------
contract(
    'cell_type_mapper.cli.from_specified_markers._run_mapping#tree',
    properties=['C17', 'C01', 'C08'],
    mode='slice', unexpected_exceptions='allowed',
    tracked=['taxonomy_tree', 'tree_for_metadata', 'marker_lookup', 'all_markers', 'k'],
    params={},
    locals=dict(marker_lookup='Dict[Name,List[Name]]', all_markers='Set[Name]'),
    ghost=dict(vars=dict(n_reductions='Int'),
               count_calls={'drop_level': 'n_reductions', 'flatten': 'n_reductions'},
               capture_calls=['create_marker_cache_from_specified_markers', 'run_type_assignment_on_h5ad',
                              'serialize_markers'],
               only_kinds=['assert', 'ensures', 'inv-']),
    inline_asserts={
        "tree_for_metadata = TaxonomyTree(": ["n_reductions == 0"],
        "create_marker_cache_from_specified_markers(": ["ghost n_at_cache = n_reductions",
                                                         "ghost tree_at_cache = taxonomy_tree"],
        "result = run_type_assignment_on_h5ad(": [
            "arg_of('run_type_assignment_on_h5ad', 'taxonomy_tree') == tree_at_cache"],
        "marker_gene_lookup = serialize_markers(": [
            "arg_of('serialize_markers', 'taxonomy_tree') == tree_at_cache",
            "arg_of('create_marker_cache_from_specified_markers', 'taxonomy_tree') == tree_at_cache",
            "n_reductions == n_at_cache"],
        # the union built for the flattened run covers every list of the table
        "for k in marker_lookup:": [
            "all(implies(kk != 'log' and kk != 'metadata', all(g in all_markers for g in marker_lookup[kk])) "
            "for kk in marker_lookup)"],
    },
    loops={0: ["all(implies(kk != 'log' and kk != 'metadata', all(g in all_markers for g in marker_lookup[kk])) "
               "for kk in _seen)"]},
    min_obligations=6,
)
