"""cell_type_mapper.validation.utils  (C07.e, C16.a)

h5py datasets are modelled as the array their slicing returns plus `.chunks` (trusted: None or
positive ints, pyvc/ext/outputs.py).  `_get_minmax_from_dense/_sparse` are proved in full: the
returned pair bounds *every* element and both bounds are attained - i.e. the chunk tiling (after the
doubling loop) covers the whole dataset.
"""
import atexit
import os
import shutil
import tempfile

from pyvc.contracts import contract
from pyvc.types import record

M = 'cell_type_mapper.validation.utils.'

from pyvc.ext import outputs as _ext_outputs   # noqa: E402
_ext_outputs.install_overrides()      # numpy.abs for 2-D arrays (see the note in ext/outputs.py)

# ---------------------------------------------------------------------------------------------
# native fixtures: real (tiny) HDF5 datasets, chunked and contiguous
# ---------------------------------------------------------------------------------------------
_TMP = []
_KEEP = []


def _tmpdir():
    if not _TMP:
        d = tempfile.mkdtemp(prefix='verif_valutils_', dir='/tmp')
        _TMP.append(d)
        atexit.register(shutil.rmtree, d, ignore_errors=True)
        # pool workers of the driver leave through os._exit: atexit does not run there, the
        # multiprocessing finalizers do
        from multiprocessing import util as _mpu
        _mpu.Finalize(None, shutil.rmtree, args=(d,), kwargs=dict(ignore_errors=True), exitpriority=10)
    return _TMP[0]


_CT = [0]


def _h5_dataset(arr, chunks, maxshape=None):
    import h5py
    _CT[0] += 1
    path = os.path.join(_tmpdir(), f'd_{os.getpid()}_{_CT[0] % 40}.h5')
    f = h5py.File(path, 'w')
    kw = {}
    if chunks is not None:
        kw['chunks'] = chunks
    if maxshape is not None:
        kw['maxshape'] = maxshape
    ds = f.create_dataset('X', data=arr, **kw)
    _KEEP.append(f)
    while len(_KEEP) > 30:
        try:
            _KEEP.pop(0).close()
        except Exception:
            pass
    return f, ds


def _values(rng, n):
    import numpy as np
    kind = rng.random()
    if kind < 0.3:
        v = [float(rng.randint(-3, 9)) for _ in range(n)]
    elif kind < 0.6:
        v = [rng.choice([0.0, 0.5, 255.5, 65535.5, -0.5, 1e-11, 3.0, 2.5, -2.5]) for _ in range(n)]
    else:
        v = [rng.uniform(-5, 300) for _ in range(n)]
    return np.array(v, dtype=float)


class DS:
    """picklable description of an HDF5 dataset (values, chunk shape, resizable or not); the clauses
    read it like the dataset itself (`.chunks`, `.shape`, indexing); the call wrappers below
    materialise it as a real h5py dataset and hand *that* to the function under contract"""

    def __init__(self, arr, chunks, resizable=False):
        self.arr, self.chunks, self.resizable = arr, chunks, resizable
        self.shape = arr.shape

    def __getitem__(self, k):
        return self.arr[k]

    def __len__(self):
        return len(self.arr)

    def __repr__(self):
        return f"DS({self.arr.tolist()!r}, chunks={self.chunks})"

    def real(self):
        f, ds = _h5_dataset(self.arr, self.chunks,
                            maxshape=tuple(None for _ in self.arr.shape) if self.resizable else None)
        assert ds.chunks == self.chunks, (ds.chunks, self.chunks)
        return ds


def _call_dense(x_dataset):
    from cell_type_mapper.validation.utils import _get_minmax_from_dense
    return _get_minmax_from_dense(x_dataset.real())


def _call_sparse(x_grp):
    from cell_type_mapper.validation.utils import _get_minmax_from_sparse
    return _get_minmax_from_sparse({'data': x_grp['data'].real()})


def _gen_dense(rng, size):
    n0, n1 = rng.randint(1, size + 3), rng.randint(1, size + 3)
    arr = _values(rng, n0 * n1).reshape((n0, n1))
    # put the extremes anywhere, in particular in the last (partial) tile
    if rng.random() < 0.5:
        arr[n0 - 1, n1 - 1] = rng.choice([-7.0, 1000.0])
    r = rng.random()
    if r < 0.15:
        return dict(x_dataset=DS(arr, (n0 + 2, n1 + 1), resizable=True))    # chunks larger than the data
    if r < 0.7:
        return dict(x_dataset=DS(arr, (rng.randint(1, n0), rng.randint(1, n1))))
    return dict(x_dataset=DS(arr, None))


MINMAX2 = [
    "implies(x_dataset.shape[0] > 0 and x_dataset.shape[1] > 0, result[0] is not None and result[1] is not None)",
    "implies(x_dataset.shape[0] > 0 and x_dataset.shape[1] > 0, "
    "all(result[0] <= x_dataset[i, j] and x_dataset[i, j] <= result[1] "
    "for i in range(x_dataset.shape[0]) for j in range(x_dataset.shape[1])))",
    "implies(x_dataset.shape[0] > 0 and x_dataset.shape[1] > 0, "
    "any(result[0] == x_dataset[i, j] for i in range(x_dataset.shape[0]) for j in range(x_dataset.shape[1])))",
    "implies(x_dataset.shape[0] > 0 and x_dataset.shape[1] > 0, "
    "any(result[1] == x_dataset[i, j] for i in range(x_dataset.shape[0]) for j in range(x_dataset.shape[1])))",
]


ALL2 = "for i in range(x_dataset.shape[0]) for j in range(x_dataset.shape[1])"


def _inv2(done):
    """min_val / max_val bound every element already visited (`done` is a condition on i, j) and
    are attained"""
    return [
        f"implies(min_val is not None, all(implies({done}, min_val <= x_dataset[i, j]) {ALL2}))",
        f"implies(max_val is not None, all(implies({done}, x_dataset[i, j] <= max_val) {ALL2}))",
        f"implies(min_val is not None, any(min_val == x_dataset[i, j] {ALL2}))",
        f"implies(max_val is not None, any(max_val == x_dataset[i, j] {ALL2}))",
        "iff(min_val is None, max_val is None)",
    ]


contract(
    M + '_get_minmax_from_dense',
    properties=['C07', 'C16'],
    native=dict(gen=_gen_dense, call=_call_dense, bound='matrices <= 7x7, chunk shapes 1..n incl. chunks larger than the data, contiguous'),
    params=dict(x_dataset='Arr2[Real]'),
    returns='Tuple[Opt[Real],Opt[Real]]',
    locals=dict(min_val='Opt[Real]', max_val='Opt[Real]'),
    # numpy refuses min() of an empty array; only reachable for the contiguous layout
    raises={'ValueError': "x_dataset.chunks is None and (x_dataset.shape[0] == 0 or x_dataset.shape[1] == 0)"},
    ensures=MINMAX2,
    loops={
        0: ["chunk_size[0] >= 1 and chunk_size[1] >= 1"],
        1: ["iff(min_val is None, r0 == 0 or x_dataset.shape[1] == 0)"] + _inv2("i < r0"),
        2: ["iff(min_val is None, (r0 == 0 and c0 == 0) or x_dataset.shape[1] == 0)",
            "0 <= r0 and r0 < r1 and r1 <= x_dataset.shape[0]"]
           + _inv2("i < r0 or (i < r1 and j < c0)"),
    },
)

# ---------------------------------------------------------------------------------------------
record('H5SparseGroup', data='Arr[Real]')


def _gen_sparse(rng, size):
    n = rng.randint(1, 3 * size + 2)
    if rng.random() < 0.1:
        n = 0          # no stored value (all-zero matrix)
    arr = _values(rng, n)
    if n and rng.random() < 0.5:
        arr[n - 1] = rng.choice([-7.0, 1000.0])
    r = rng.random()
    if n == 0:
        return dict(x_grp={'data': DS(arr, (1024,) if r < 0.5 else None, resizable=r < 0.5)})
    if r < 0.15:
        return dict(x_grp={'data': DS(arr, (n + 3,), resizable=True)})
    if r < 0.7:
        return dict(x_grp={'data': DS(arr, (rng.randint(1, n),))})
    return dict(x_grp={'data': DS(arr, None)})


contract(
    M + '_get_minmax_from_sparse',
    properties=['C07', 'C16'],
    native=dict(gen=_gen_sparse, call=_call_sparse, bound='1..14 stored values, chunk lengths 1..n incl. larger than the data, contiguous'),
    params=dict(x_grp='H5SparseGroup'),
    returns='Tuple[Opt[Real],Opt[Real]]',
    locals=dict(min_val='Opt[Real]', max_val='Opt[Real]'),
    # a group without a stored value (all-zero matrix): (0, 0), every element being an implicit zero
    # (S-13, fixed by 3fca7c0 / the follow-up commit; before, (None, None) or ValueError came back)
    ensures=[
        "result[0] is not None and result[1] is not None",
        "implies(len(x_grp['data']) == 0, result[0] == 0 and result[1] == 0)",
        "implies(len(x_grp['data']) > 0, all(result[0] <= x_grp['data'][k] and x_grp['data'][k] <= result[1] "
        "for k in range(len(x_grp['data']))))",
        "implies(len(x_grp['data']) > 0, any(result[0] == x_grp['data'][k] for k in range(len(x_grp['data']))))",
        "implies(len(x_grp['data']) > 0, any(result[1] == x_grp['data'][k] for k in range(len(x_grp['data']))))",
    ],
    # the slice fact indexed from the dataset side, so that it triggers on data_dataset[k]
    inline_asserts={'chunk = data_dataset[i0:i1]': [
        "len(chunk) == i1 - i0 and all(data_dataset[k] == chunk[k - i0] for k in range(i0, i1))"]},
    loops={
        0: ["chunk_size is not None and chunk_size[0] >= 1"],
        1: ["iff(min_val is None, i0 == 0)", "iff(min_val is None, max_val is None)",
            "implies(min_val is not None, all(implies(k < i0, min_val <= data_dataset[k]) for k in range(n_el)))",
            "implies(max_val is not None, all(implies(k < i0, data_dataset[k] <= max_val) for k in range(n_el)))",
            "implies(min_val is not None, any(min_val == data_dataset[k] for k in range(n_el)))",
            "implies(min_val is not None, any(max_val == data_dataset[k] for k in range(n_el)))"],
    },
)


# ---------------------------------------------------------------------------------------------
# is_data_ge_zero (C07.e)
# ---------------------------------------------------------------------------------------------
contract(
    M + 'get_minmax_x_from_h5ad',
    properties=['C07', 'C16'], trusted=True,
    params=dict(h5ad_path='Name', layer='Name'),
    returns='Tuple[Opt[Real],Opt[Real]]',
    ensures=["implies(x_has_values(h5ad_path, layer), result[0] is not None and result[1] is not None)",
             "implies(x_has_values(h5ad_path, layer), result[0] == x_min(h5ad_path, layer))",
             "implies(x_has_values(h5ad_path, layer), result[1] == x_max(h5ad_path, layer))",
             "implies(not x_has_values(h5ad_path, layer), (result[0] is None and result[1] is None) "
             "or (result[0] == 0 and result[1] == 0))"],
    raises={'ValueError': "not x_has_values(h5ad_path, layer)"},
    note="h5py dispatch on 'encoding-type' to _get_minmax_from_dense / _get_minmax_from_sparse (both proved: "
         "exact extremes of a non-empty dataset, (None, None) or ValueError for an empty one) or to the "
         "anndata fall-back; checked natively on real files by is_data_ge_zero#files and bounded/c16",
)

contract(
    M + 'is_data_ge_zero',
    properties=['C07'], mode='slice', tracked=['minmax'],
    params=dict(h5ad_path='Name', layer='Name'),
    returns='Tuple[Bool,Opt[Real]]',
    unexpected_exceptions='allowed',     # h5py I/O statements are abstracted ("may raise")
    # S-13 (sparse X without a stored value) is fixed; what remains is a *dense* X with an empty
    # shape (0 genes): get_minmax_x_from_h5ad returns (None, None) and `minmax[0] < 0.0` raises TypeError
    raises={'TypeError': "not x_has_values(h5ad_path, layer)",
            'ValueError': "not x_has_values(h5ad_path, layer)",
            # FINDING S-14 (definite assignment): the if / elif / elif chain that sets `dtype` has no
            # else: an 'encoding-type' other than array / csr / csc leaves `dtype` unbound.  The
            # encoding is read through h5py (abstracted here), so the slice cannot bound the condition.
            'UnboundLocalError': True},
    ensures=[
        # rejected only for a truly negative minimum, which is then reported
        "implies(not result[0], result[1] == x_min(h5ad_path, layer) and result[1] < 0)",
        # accepted => the reported minimum is >= 0 and is the true minimum or the unsigned short-cut's 0
        "result[1] is not None",
        "implies(result[0], result[1] >= 0)",
        "implies(result[0], result[1] == x_min(h5ad_path, layer) or result[1] == 0)",
    ],
)


# ---------------------------------------------------------------------------------------------
# integer test and rounding, sparse layout (C16.a).  Slices: the h5py plumbing is abstracted; the
# stored values enter as the local `data` (an arbitrary 1-D real array with `.chunks`), bound to the
# ghost D where it is read.
# ---------------------------------------------------------------------------------------------
NEAR = "abs({d}[{k}] - rint({d}[{k}]))"

contract(
    M + '_is_sparse_x_integers',
    properties=['C16'], mode='slice', unexpected_exceptions='allowed',
    tracked=['data', 'chunk_size', 'i0', 'i1', 'chunk', 'rounded_chunk', 'this_delta', 'eps'],
    params=dict(h5ad_path='Name', eps='Real', layer='Name'),
    locals=dict(data='Arr[Real]'),
    returns='Bool',
    requires=["eps >= 0"],
    inline_asserts={
        "data = src[f'{layer_key}/data']": ["ghost D = data"],
        'chunk = data[i0:i1]': [
            "0 <= i0 and i0 < i1 and i1 <= len(data) and i1 == min(len(data), i0 + chunk_size[0])",
            "len(chunk) == i1 - i0 and all(data[k] == chunk[k - i0] for k in range(i0, i1))"],
    },
    # an empty contiguous dataset gives range(0, 0, 0): "range() arg 3 must not be zero"  (S-13 family)
    raises={'ValueError': True},
    ensures=[
        # True exactly when every stored value is within eps of an integer: the tiles cover them all
        f"iff(result, all({NEAR.format(d='D', k='k')} <= eps for k in range(len(D))))",
    ],
    loops={0: [
        "chunk_size[0] >= 1",
        f"all(implies(k < i0, {NEAR.format(d='data', k='k')} <= eps) for k in range(len(data)))",
    ]},
)

contract(
    M + '_round_sparse_x_to_integers',
    properties=['C16'], mode='slice', unexpected_exceptions='allowed',
    tracked=['data', 'chunk_size', 'i0', 'i1', 'chunk', 'rounded_chunk', 'this_delta', 'delta', 'eps'],
    params=dict(h5ad_path='Name', tmp_path='Name', output_dtype='Int'),
    locals=dict(data='Arr[Real]'),
    returns='None',
    raises={'ValueError': True},
    inline_asserts={
        "data = src['X/data']": ["ghost D = data"],
        'chunk = data[i0:i1]': [
            "0 <= i0 and i0 < i1 and i1 <= len(data) and i1 == min(len(data), i0 + chunk_size[0])",
            "len(chunk) == i1 - i0 and all(data[k] == chunk[k - i0] for k in range(i0, i1))"],
        # what is written to rows i0:i1 of the staging dataset is the rounding of rows i0:i1 of X/data
        "dst['data'][i0:i1] = rounded_chunk.astype(output_dtype)": [
            "len(rounded_chunk) == i1 - i0",
            "all(rounded_chunk[k - i0] == rint(data[k]) for k in range(i0, i1))",
            "all(abs(rounded_chunk[k - i0] - data[k]) <= 0.5 for k in range(i0, i1))"],
        # the file is rewritten (`if delta > eps`) exactly when some value is further than eps from
        # an integer: delta is the largest deviation over *all* stored values
        "eps = 1e-10": [
            f"all({NEAR.format(d='D', k='k')} <= delta for k in range(len(D)))",
            f"delta == 0 or any({NEAR.format(d='D', k='k')} == delta for k in range(len(D)))"],
    },
    ensures=[],
    loops={0: [
        "chunk_size[0] >= 1", "delta >= 0",
        f"all(implies(k < i0, {NEAR.format(d='data', k='k')} <= delta) for k in range(len(data)))",
        f"delta == 0 or any({NEAR.format(d='data', k='k')} == delta for k in range(len(data)))",
    ]},
)


# ---------------------------------------------------------------------------------------------
# the same for the dense layout: `data` is an arbitrary 2-D real array with `.chunks`
# ---------------------------------------------------------------------------------------------
NEAR2 = "abs({d}[i, j] - rint({d}[i, j]))"
ALLD = "for i in range({d}.shape[0]) for j in range({d}.shape[1])"
TILE2 = [
    "0 <= r0 and r0 < r1 and r1 <= data.shape[0] and r1 == min(data.shape[0], r0 + chunk_size[0])",
    "0 <= c0 and c0 < c1 and c1 <= data.shape[1] and c1 == min(data.shape[1], c0 + chunk_size[1])",
    "chunk.shape[0] == r1 - r0 and chunk.shape[1] == c1 - c0",
]
DONE2 = "(i < r0 or (i < r1 and j < c0))"

contract(
    M + '_is_dense_x_integers',
    properties=['C16'], mode='slice', unexpected_exceptions='allowed',
    tracked=['data', 'chunk_size', 'r0', 'r1', 'c0', 'c1', 'chunk', 'rounded_chunk', 'this_delta', 'eps'],
    params=dict(h5ad_path='Name', eps='Real', layer='Name'),
    locals=dict(data='Arr2[Real]'),
    returns='Bool',
    requires=["eps >= 0"],
    inline_asserts={
        "data = src[layer_key]": ["ghost D = data"],
        'chunk = data[r0:r1, c0:c1]': TILE2,
    },
    raises={'ValueError': True},     # empty contiguous dataset: range(0, 0, 0)
    ensures=[
        f"iff(result, all({NEAR2.format(d='D')} <= eps {ALLD.format(d='D')}))",
    ],
    loops={
        0: ["chunk_size[0] >= 1",
            f"all(implies(i < r0, {NEAR2.format(d='data')} <= eps) {ALLD.format(d='data')})"],
        1: ["chunk_size[0] >= 1 and chunk_size[1] >= 1",
            "0 <= r0 and r0 < r1 and r1 <= data.shape[0] and r1 == min(data.shape[0], r0 + chunk_size[0])",
            f"all(implies({DONE2}, {NEAR2.format(d='data')} <= eps) {ALLD.format(d='data')})"],
    },
)

contract(
    M + '_round_dense_x_to_integers',
    properties=['C16'], mode='slice', unexpected_exceptions='allowed',
    tracked=['data', 'chunk_size', 'r0', 'r1', 'c0', 'c1', 'chunk', 'rounded_chunk', 'this_delta', 'delta', 'eps'],
    params=dict(h5ad_path='Name', tmp_path='Name', output_dtype='Int'),
    locals=dict(data='Arr2[Real]'),
    returns='None',
    raises={'ValueError': True},
    inline_asserts={
        "data = src['X']": ["ghost D = data"],
        'chunk = data[r0:r1, c0:c1]': TILE2,
        # the tile written is the tile read, rounded: every value moves by <= 1/2 to an integer
        "dst['data'][r0:r1, c0:c1] = rounded_chunk.astype(output_dtype)": [
            "rounded_chunk.shape[0] == r1 - r0 and rounded_chunk.shape[1] == c1 - c0",
            "all(rounded_chunk[i - r0, j - c0] == rint(data[i, j]) for i in range(r0, r1) for j in range(c0, c1))",
            "all(abs(rounded_chunk[i - r0, j - c0] - data[i, j]) <= 0.5 for i in range(r0, r1) for j in range(c0, c1))"],
        "eps = 1e-10": [
            f"all({NEAR2.format(d='D')} <= delta {ALLD.format(d='D')})",
            f"delta == 0 or any({NEAR2.format(d='D')} == delta {ALLD.format(d='D')})"],
    },
    ensures=[],
    loops={
        0: ["chunk_size[0] >= 1", "delta >= 0",
            f"all(implies(i < r0, {NEAR2.format(d='data')} <= delta) {ALLD.format(d='data')})",
            f"delta == 0 or any({NEAR2.format(d='data')} == delta {ALLD.format(d='data')})"],
        1: ["chunk_size[0] >= 1 and chunk_size[1] >= 1", "delta >= 0",
            "0 <= r0 and r0 < r1 and r1 <= data.shape[0] and r1 == min(data.shape[0], r0 + chunk_size[0])",
            f"all(implies({DONE2}, {NEAR2.format(d='data')} <= delta) {ALLD.format(d='data')})",
            f"delta == 0 or any({NEAR2.format(d='data')} == delta {ALLD.format(d='data')})"],
    },
)


# ---------------------------------------------------------------------------------------------
# is_data_ge_zero on real files (C07.e, bounded): the answer is "the minimum stored value is >= 0"
# for every storage dtype (the unsigned short-cut must not fire for signed integers) and encoding
# ---------------------------------------------------------------------------------------------
_FILES_DIR = []


def _files_dir():
    import atexit
    import shutil
    import tempfile
    if not _FILES_DIR:
        d = tempfile.mkdtemp(prefix='verif_ge0_', dir='/tmp')
        _FILES_DIR.append(d)
        atexit.register(shutil.rmtree, d, True)
    return _FILES_DIR[0]


_GE0_N = [0]


def _gen_ge0_file(rng, size):
    import os
    import numpy as np
    import anndata
    import pandas as pd
    import scipy.sparse as sp
    _GE0_N[0] += 1
    dt = rng.choice(['float64', 'float32', 'int64', 'int32', 'int16', 'int8', 'uint8', 'uint16', 'uint32'])
    enc = rng.choice(['dense', 'csr', 'csc'])
    layer = rng.choice(['X', 'X', 'raw'])
    n_r, n_c = rng.randint(1, 4), rng.randint(1, 4)
    X = np.array([[rng.choice([0, 0, 1, 2, 7, 100]) for _ in range(n_c)] for _ in range(n_r)], dtype=dt)
    if not dt.startswith('u') and rng.random() < 0.5:
        X[rng.randrange(n_r), rng.randrange(n_c)] = rng.choice([-1, -3, -100])
    if X.max() == 0 and X.min() == 0:
        X[0, 0] = 5
    M_ = X if enc == 'dense' else (sp.csr_matrix(X) if enc == 'csr' else sp.csc_matrix(X))
    obs = pd.DataFrame(index=[f'c{i}' for i in range(n_r)])
    var = pd.DataFrame(index=[f'g{i}' for i in range(n_c)])
    if layer == 'X':
        a = anndata.AnnData(X=M_, obs=obs, var=var)
    else:
        a = anndata.AnnData(X=np.zeros((n_r, n_c), dtype='float32'), obs=obs, var=var, layers={'raw': M_})
    p = os.path.join(_files_dir(), f'ge0_{os.getpid()}_{_GE0_N[0] % 40}.h5ad')
    a.write_h5ad(p)
    return dict(h5ad_path=p, layer=layer)


def _true_min(h5ad_path, layer):
    import h5py
    import numpy as np
    key = 'X' if layer == 'X' else f'layers/{layer}'
    with h5py.File(h5ad_path, 'r') as f:
        g = f[key]
        if isinstance(g, h5py.Dataset):
            return float(g[()].min())
        data = g['data'][()]
        shape = tuple(g.attrs['shape'])
        stored = float(data.min()) if len(data) else 0.0
        return min(stored, 0.0) if len(data) < shape[0] * shape[1] else stored


contract(
    M + 'is_data_ge_zero#files',
    properties=['C07'], mode='bounded',
    native=dict(gen=_gen_ge0_file, env=dict(true_min=_true_min),
                bound='matrices <= 3 x 3, dtypes float64/32, int64/32/16/8, uint8/16/32, dense / CSR / CSC, X or a layer, '
                      'with and without a negative entry'),
    params=dict(h5ad_path='Name', layer='Name'),
    returns='Tuple[Bool,Opt[Real]]',
    ensures=[
        "result[0] == (true_min(h5ad_path, layer) >= 0)",
        "implies(not result[0], result[1] == true_min(h5ad_path, layer))",
    ],
)
