"""Configuration plumbing (C11, C02, C09, C12, C16): the selection criteria / mapping settings a
stage is called with are the ones handed, unchanged, to the function that applies them.  For every
link wrapper -> callee of the call chains below the contract states, per setting, that the keyword
argument the callee receives IS the wrapper's parameter of the same name, unchanged since entry
(an obligation at every call site of the callee in the real code; for worker processes the entries
of the `kwargs` dict given to multiprocessing.Process).  Settings that a wrapper legitimately transforms
(`max_gb` halved, `rng` re-seeded per chunk, `n_per_utility` overridden per parent, `tmp_dir`
replaced by a private sub-directory) are deliberately not listed."""
from pyvc.contracts import contract

TH = ['p_th', 'q1_th', 'qdiff_th', 'log2_fold_th', 'q1_min_th', 'qdiff_min_th', 'log2_fold_min_th']
PEN = ['q1_th', 'qdiff_th', 'log2_fold_th', 'q1_min_th', 'qdiff_min_th', 'log2_fold_min_th']

LINKS = [
    # (wrapper, callee (last name), settings, properties)
    ('cell_type_mapper.diff_exp.markers.find_markers_for_all_taxonomy_pairs', 'create_sparse_by_pair_marker_file',
     TH + ['exact_penetrance', 'n_valid', 'gene_list', 'taxonomy_tree'], ['C11']),
    ('cell_type_mapper.diff_exp.markers.create_sparse_by_pair_marker_file', '_find_markers_worker',
     TH + ['exact_penetrance', 'n_valid'], ['C11']),
    ('cell_type_mapper.diff_exp.markers._find_markers_worker', 'score_differential_genes',
     TH + ['exact_penetrance', 'n_valid', 'valid_gene_idx'], ['C11']),
    ('cell_type_mapper.diff_exp.p_value_mask.create_p_value_mask_file', '_create_p_value_mask_file',
     TH, ['C11']),
    ('cell_type_mapper.diff_exp.p_value_mask._create_p_value_mask_file', '_p_values_worker',
     TH, ['C11']),
    ('cell_type_mapper.diff_exp.p_value_mask._p_values_worker', 'penetrance_parameter_distance',
     PEN, ['C11']),
    ('cell_type_mapper.diff_exp.p_value_markers.find_markers_for_all_taxonomy_pairs_from_p_mask',
     '_find_markers_for_all_taxonomy_pairs_from_p_mask', ['n_valid', 'gene_list', 'drop_level'], ['C11']),
    ('cell_type_mapper.diff_exp.p_value_markers._find_markers_for_all_taxonomy_pairs_from_p_mask',
     'create_sparse_by_pair_marker_file_from_p_mask', ['n_valid', 'gene_list'], ['C11']),
    ('cell_type_mapper.diff_exp.p_value_markers._find_markers_from_p_mask_worker', '_get_validity_mask',
     ['n_valid', 'valid_gene_idx'], ['C11']),
    # mapping settings
    ('cell_type_mapper.type_assignment.election_runner.run_type_assignment_on_h5ad', 'run_type_assignment_on_h5ad_cpu',
     ['n_assignments', 'normalization', 'bootstrap_iteration', 'bootstrap_factor_lookup', 'taxonomy_tree',
      'chunk_size', 'n_processors', 'rng'], ['C02', 'C03']),
    ('cell_type_mapper.type_assignment.election.run_type_assignment_on_h5ad_cpu', '_run_type_assignment_on_h5ad_worker',
     ['taxonomy_tree', 'bootstrap_factor_lookup', 'bootstrap_iteration', 'n_assignments'], ['C02', 'C03']),
    ('cell_type_mapper.type_assignment.election._run_type_assignment_on_h5ad_worker', 'run_type_assignment',
     ['taxonomy_tree', 'bootstrap_factor_lookup', 'bootstrap_iteration', 'rng', 'n_assignments'], ['C02', 'C03']),
    ('cell_type_mapper.type_assignment.election.run_type_assignment', '_run_type_assignment',
     ['taxonomy_tree', 'bootstrap_iteration', 'rng', 'n_assignments'], ['C02', 'C03']),
    ('cell_type_mapper.type_assignment.election._run_type_assignment', 'choose_node',
     ['bootstrap_factor', 'bootstrap_iteration', 'rng', 'n_assignments'], ['C02', 'C03']),
    ('cell_type_mapper.type_assignment.election.choose_node', 'tally_votes',
     ['bootstrap_factor', 'bootstrap_iteration', 'rng'], ['C02', 'C03']),
    # query marker selection
    ('cell_type_mapper.type_assignment.marker_cache_v2.create_marker_gene_lookup_from_ref_list',
     'create_marker_gene_lookup_from_mapping',
     ['query_gene_names', 'n_per_utility', 'n_per_utility_override', 'n_processors', 'behemoth_cutoff',
      'genes_at_a_time', 'drop_level'], ['C12']),
    ('cell_type_mapper.type_assignment.marker_cache_v2.create_marker_gene_lookup_from_mapping',
     'create_raw_marker_gene_lookup',
     ['query_gene_names', 'n_per_utility', 'n_per_utility_override', 'n_processors', 'behemoth_cutoff',
      'genes_at_a_time'], ['C12']),
    ('cell_type_mapper.type_assignment.marker_cache_v2.create_raw_marker_gene_lookup', 'select_all_markers',
     ['query_gene_names', 'n_per_utility', 'n_per_utility_override', 'n_processors', 'behemoth_cutoff',
      'genes_at_a_time'], ['C12']),
    ('cell_type_mapper.marker_selection.selection_pipeline.select_all_markers', '_marker_selection_worker',
     ['query_gene_names', 'genes_at_a_time', 'taxonomy_tree'], ['C12']),
    ('cell_type_mapper.marker_selection.selection_pipeline._marker_selection_worker', 'select_marker_genes_v2',
     ['query_gene_names', 'genes_at_a_time', 'taxonomy_tree', 'n_per_utility'], ['C12']),
    ('cell_type_mapper.marker_selection.selection.select_marker_genes_v2', '_run_selection',
     ['n_per_utility', 'genes_at_a_time'], ['C12']),
    # reference statistics
    ('cell_type_mapper.diff_exp.precompute_from_anndata.precompute_summary_stats_from_h5ad',
     'precompute_summary_stats_from_h5ad_and_tree', ['rows_at_a_time', 'normalization', 'n_processors'], ['C09']),
    ('cell_type_mapper.diff_exp.precompute_from_anndata.precompute_summary_stats_from_h5ad_and_tree',
     'precompute_summary_stats_from_h5ad_and_lookup', ['rows_at_a_time', 'normalization', 'n_processors'], ['C09']),
    ('cell_type_mapper.diff_exp.precompute_from_anndata.precompute_summary_stats_from_h5ad_and_lookup',
     '_precompute_summary_stats_from_h5ad_and_lookup', ['rows_at_a_time', 'normalization', 'n_processors'], ['C09']),
    # validation
    ('cell_type_mapper.validation.validate_h5ad.validate_h5ad', '_validate_h5ad',
     ['expected_max', 'layer', 'round_to_int', 'gene_id_mapper', 'h5ad_path', 'valid_h5ad_path', 'output_dir'], ['C16']),
]

for wrapper, callee, settings, props in LINKS:
    contract(
        wrapper + '#forward_' + callee.lstrip('_'),
        properties=props,
        mode='slice', unexpected_exceptions='allowed',
        tracked=list(settings),
        params={},
        ghost=dict(forward={callee: list(settings)}, only_kinds=['forward']),
        min_obligations=len(settings),
    )
