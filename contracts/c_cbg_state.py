"""Normalisation state of CellByGeneMatrix (C07.a): a matrix is converted to log2(CPM+1) only
while it still holds every gene; the election normalises before it down-samples to marker genes."""
from pyvc.contracts import contract
from pyvc.types import record

record('CBG', _normalization='Name', _genes_downsampled='Bool', _data='Opaque',
       _gene_identifiers='Opaque',
       _aliases=dict(normalization='_normalization', data='_data',
                     gene_identifiers='_gene_identifiers'))

M = 'cell_type_mapper.cell_by_gene.cell_by_gene.CellByGeneMatrix.'

contract(
    M + 'to_log2CPM_in_place',
    properties=['C07', 'C02'], self_type='CBG', mode='slice', tracked=['self'],
    params=dict(), mutates=['self'],
    raises={'RuntimeError': ('iff', "self._normalization != 'raw' or self._genes_downsampled"),
            'Exception': True},
    ensures=["self._normalization == 'log2CPM'",
             "self._genes_downsampled == old(self._genes_downsampled)"],
)

contract(
    M + 'downsample_genes_in_place',
    properties=['C07', 'C02'], self_type='CBG', mode='slice', tracked=['self'],
    params=dict(selected_genes='Opaque'), mutates=['self'],
    raises={'Exception': True},
    ensures=["self._genes_downsampled", "self._normalization == old(self._normalization)"],
)


# constructor as seen by callers: normalisation as declared, nothing down-sampled yet
from pyvc.prims import qualified  # noqa: E402
from pyvc.values import fresh  # noqa: E402
from pyvc import types as _T  # noqa: E402
import z3 as _z3  # noqa: E402


@qualified('cell_type_mapper.cell_by_gene.cell_by_gene.CellByGeneMatrix')
def _q_cbg(ev, state, node):
    """trusted view of CellByGeneMatrix.__init__ (cell_by_gene.py:33-76): stores the declared
    normalisation, `_genes_downsampled = False`"""
    from pyvc.engine import coerce
    norm = None
    for k in node.keywords:
        v = None
        try:
            v = ev.eval(state, k.value)
        except Exception:
            if not ev.ctx.lenient:
                raise
        if k.arg == 'normalization':
            norm = v
    ty = _T.TRec('CBG')
    r = fresh(ty, 'cbg')
    state.assume(_z3.Not(_T.acc(ty, '_genes_downsampled')(r.term)))
    if norm is not None and norm.ty in (_T.NAME, _T.INT):
        state.assume(_T.acc(ty, '_normalization')(r.term) == norm.term)
    return r


contract(
    'cell_type_mapper.type_assignment.election.run_type_assignment_on_h5ad_cpu#norm',
    properties=['C07', 'C04', 'C02'],
    mode='slice', unexpected_exceptions='allowed',
    tracked=['data', 'normalization', 'rng', 'p'],
    params=dict(normalization='Name', n_processors='Int'),
    requires=["normalization == 'raw' or normalization == 'log2CPM'"],
    ghost=dict(vars=dict(started='Set[Int]', rng_draws='Int'),
               count_calls={'integers': 'rng_draws'}),
    inline_asserts={
        # C07.a / C02.f: what a worker receives is log2(CPM+1) data restricted to the marker genes,
        # and it was normalised while it still held every gene (to_log2CPM_in_place refuses otherwise)
        "p.start()": ["data._normalization == 'log2CPM'", "data._genes_downsampled",
                      # C04.a: the worker's seed was drawn by the parent, one draw per dispatched chunk
                      "rng_draws == len(started)"],
    },
    ensures=["rng_draws == len(started)"],
    loops={0: ["rng_draws == len(started)"], 1: ["rng_draws == len(started)"],
           2: ["rng_draws == len(started)"]},
    min_obligations=6,
)
