"""cell_type_mapper.diff_exp.p_value_markers  (C11.i: the p-value-mask route)

`_get_validity_mask` turns one row of the p-value mask (gene indices that passed the p-value cut
AND the floors, with their penetrance distances; strictly valid genes carry a distance <= 0) into
the validity mask of the pair.

FINDING D-6 (FIXED in /repo c5853a3; on the tree before it the IndexError obligation of
`sorted_dex[n_valid-1]` was the single failing obligation of this contract): out of range when
fewer than n_valid genes are strictly valid and n_valid > n_genes.  The other route clamps
(`n_valid = min(n_valid, len(q1_score))` in approx_penetrance_test).  Patch = the same clamp:

    +    n_valid = min(n_valid, n_genes)
"""
from pyvc.contracts import contract

M = 'cell_type_mapper.diff_exp.p_value_markers.'


def _gen_mask_row(rng, size):
    import numpy as np
    n_genes = rng.randint(1, size + 3)
    k = rng.randint(0, n_genes)
    idx = sorted(rng.sample(range(n_genes), k))
    dist = [rng.choice([-1.0, -1.0, 0.001, 0.5, 2.0, 7.5]) for _ in idx]
    vg = None
    if rng.random() < 0.5:
        vg = np.array(sorted(rng.sample(range(n_genes), rng.randint(0, n_genes))), dtype=int)
    return dict(n_valid=rng.choice([0, 1, 2, n_genes, n_genes + 1, 30]), n_genes=n_genes,
                gene_indices=np.array(idx, dtype=int), raw_distances=np.array(dist, dtype=float),
                valid_gene_idx=vg)


LISTED = "(valid_gene_idx is None or gene_indices[k] in valid_gene_idx)"

contract(
    M + '_get_validity_mask',
    properties=['C11'],
    native=dict(gen=_gen_mask_row),
    params=dict(n_valid='Int', n_genes='Int', gene_indices='Arr[Int]', raw_distances='Arr[Real]',
                valid_gene_idx='Opt[Arr[Int]]'),
    returns='Arr[Bool]',
    requires=[
        "n_genes >= 1",
        "len(gene_indices) == len(raw_distances)",
        "all(0 <= gene_indices[k] < n_genes for k in range(len(gene_indices)))",
        "dupfree(gene_indices)",             # one entry per gene in a row of the sparse mask
        "valid_gene_idx is None or all(0 <= valid_gene_idx[k] < n_genes for k in range(len(valid_gene_idx)))",
    ],
    ensures=[
        "len(result) == n_genes",
        # soundness: only genes of the mask row (p-value cut and floors passed) ...
        "all(implies(result[g], g in gene_indices) for g in range(n_genes))",
        # ... that belong to the gene list
        "all(implies(result[g], valid_gene_idx is None or g in valid_gene_idx) for g in range(n_genes))",
        # completeness: a strictly valid gene (distance <= 0) of the list is a marker
        "all(implies(raw_distances[k] <= 0 and " + LISTED + ", result[gene_indices[k]]) "
        "for k in range(len(gene_indices)))",
    ],
)


# ---------------------------------------------------------------------------------------------
# p_value_mask._merge_masks  (bounded; second witness of finding D-5)
# ---------------------------------------------------------------------------------------------
def _gen_mask_chunks(rng, size, allow_empty=False):
    import numpy as np
    n_genes = rng.randint(1, size + 2)
    n_chunks = rng.randint(1, 3)
    rows = []
    for c in range(n_chunks):
        n_here = 8 if c < n_chunks - 1 else rng.randint(1, 8)
        chunk = []
        for _ in range(n_here):
            genes = [] if allow_empty else sorted(rng.sample(range(n_genes), rng.randint(0, n_genes)))
            chunk.append([(g, rng.choice([-1.0, 0.5, 2.0])) for g in genes])
        rows.append(chunk)
    if not allow_empty and not any(r for ch in rows for r in ch):
        rows[0][0] = [(0, -1.0)]
    return dict(rows=rows, n_genes=n_genes)


def _call_merge_masks(rows, n_genes):
    import h5py
    import numpy as np
    import pathlib
    import shutil
    import tempfile
    from cell_type_mapper.diff_exp.p_value_mask import _merge_masks
    d = pathlib.Path(tempfile.mkdtemp(prefix='verif_masks_', dir='/tmp'))
    try:
        paths = []
        row0 = 0
        for c, chunk in enumerate(rows):
            p = d / f'mask_{c}.h5'
            indptr, indices, data = [0], [], []
            for r in chunk:
                indices += [g for g, _ in r]
                data += [v for _, v in r]
                indptr.append(len(indices))
            with h5py.File(p, 'w') as f:          # layout written by _p_values_worker
                f.create_dataset('n_genes', data=n_genes)
                f.create_dataset('n_pairs', data=len(chunk))
                f.create_dataset('indices', data=np.array(indices, dtype=np.int64))
                f.create_dataset('indptr', data=np.array(indptr, dtype=np.int64))
                f.create_dataset('data', data=np.array(data, dtype=np.float16))
                f.create_dataset('min_row', data=row0)
            row0 += len(chunk)
            paths.append(p)
        out = d / 'merged.h5'
        _merge_masks(src_path_list=paths, dst_path=out)
        with h5py.File(out, 'r') as f:
            return dict(indptr=np.array(f['indptr'][()]).astype(int), indices=np.array(f['indices'][()]).astype(int),
                        data=np.array(f['data'][()]).astype(float))
    finally:
        shutil.rmtree(d, ignore_errors=True)


def _masks_ok(rows, result):
    flat = [r for ch in rows for r in ch]
    ptr, idx, dat = result['indptr'], result['indices'], result['data']
    if len(ptr) != len(flat) + 1 or ptr[0] != 0 or ptr[-1] != len(idx) or len(dat) != len(idx):
        return False
    for k, r in enumerate(flat):
        if list(idx[ptr[k]:ptr[k + 1]]) != [g for g, _ in r]:
            return False
        if [float(x) for x in dat[ptr[k]:ptr[k + 1]]] != [float(v) for _, v in r]:
            return False
    return True


for _view, _empty, _bound in (('', False, 'at least one mask entry'),
                              ('#d5', True, 'NO mask entry at all (finding D-5, fixed in /repo 9a7222e: raised ValueError before)')):
    contract(
        'cell_type_mapper.diff_exp.p_value_mask._merge_masks' + _view,
        properties=['C11'], mode='bounded',
        native=dict(gen=(lambda e: (lambda rng, size: _gen_mask_chunks(rng, size, allow_empty=e)))(_empty),
                    call=_call_merge_masks, env=dict(masks_ok=_masks_ok),
                    bound='<= 3 chunks of <= 8 pairs, <= 6 genes; ' + _bound),
        params=dict(rows='Opaque', n_genes='Int'),
        returns='Opaque',
        ensures=["masks_ok(rows, result)"],   # merged mask = the chunks' rows in pair order
    )
