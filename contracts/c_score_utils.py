"""cell_type_mapper.diff_exp.score_utils  (C11.c: definitions of q1, qdiff, fold)

`ClusterStats` is the per-node dict produced by read_precomputed_stats: fixed keys, different
value types -> a record whose fields are read with `stats['mean']`.
"""
from pyvc.contracts import contract
from pyvc.types import record

M = 'cell_type_mapper.diff_exp.score_utils.'

record('ClusterStats', mean='Arr[Real]', var='Arr[Real]', n_cells='Int', ge1='Arr[Int]')


def _gen_pij(rng, size):
    import numpy as np
    n = rng.randint(0, size + 2)
    grid = [0.0, 0.0, 0.25, 0.5, 0.75, 1.0, -1.0]
    return dict(pij_1=np.array([rng.choice(grid) for _ in range(n)], dtype=float),
                pij_2=np.array([rng.choice(grid) for _ in range(n)], dtype=float))


contract(
    M + 'q_score_from_pij',
    properties=['C11'],
    native=dict(gen=_gen_pij),
    params=dict(pij_1='Arr[Real]', pij_2='Arr[Real]'),
    returns='Tuple[Arr[Real],Arr[Real]]',
    requires=["len(pij_1) == len(pij_2)"],
    ensures=[
        "len(result[0]) == len(pij_1) and len(result[1]) == len(pij_1)",
        # q1 = the larger penetrance ; qdiff = |p1 - p2| / max(p1, p2)  (denominator 1 when that is <= 0)
        "all(result[0][g] == max(pij_1[g], pij_2[g]) for g in range(len(pij_1)))",
        "all(result[1][g] == abs(pij_1[g] - pij_2[g]) / "
        "(max(pij_1[g], pij_2[g]) if max(pij_1[g], pij_2[g]) > 0.0 else 1.0) for g in range(len(pij_1)))",
    ],
)


def gen_cluster_stats(rng, size, n_genes=None, names=('cluster/a', 'cluster/b', 'cluster/c')):
    """dict name -> stats with consistent lengths; cluster sizes from 0/1 up, zero variances, ties"""
    import numpy as np
    if n_genes is None:
        n_genes = rng.randint(1, size + 2)
    out = {}
    for nm in names:
        n_cells = rng.choice([0, 1, 1, 2, 2, 3, 5, 10])
        mean = np.array([rng.choice([0.0, 0.5, 1.0, 2.0, 3.5, 2.0]) for _ in range(n_genes)], dtype=float)
        var = np.array([rng.choice([0.0, 0.0, 0.1, 1.0, 2.5]) for _ in range(n_genes)], dtype=float)
        ge1 = np.array([rng.randint(0, n_cells) for _ in range(n_genes)], dtype=int)
        out[nm] = dict(mean=mean, var=var, n_cells=n_cells, ge1=ge1)
    return out


def _gen_pij_from_stats(rng, size):
    cs = gen_cluster_stats(rng, size)
    names = sorted(cs)
    return dict(cluster_stats=cs, node_1=rng.choice(names), node_2=rng.choice(names))


contract(
    M + 'pij_from_stats',
    properties=['C11'],
    native=dict(gen=_gen_pij_from_stats),
    params=dict(cluster_stats='Dict[Name,ClusterStats]', node_1='Name', node_2='Name'),
    returns='Tuple[Arr[Real],Arr[Real],Arr[Real]]',
    requires=[
        "node_1 in cluster_stats and node_2 in cluster_stats",
        "len(cluster_stats[node_1]['mean']) == len(cluster_stats[node_2]['mean'])",
    ],
    ensures=[
        "len(result[0]) == len(cluster_stats[node_1]['ge1'])",
        "len(result[1]) == len(cluster_stats[node_2]['ge1'])",
        "len(result[2]) == len(cluster_stats[node_1]['mean'])",
        # fraction of cells at >= 1 CPM (an empty cluster counts as one cell: no division by zero)
        "all(result[0][g] == cluster_stats[node_1]['ge1'][g] / max(1, cluster_stats[node_1]['n_cells']) "
        "for g in range(len(result[0])))",
        "all(result[1][g] == cluster_stats[node_2]['ge1'][g] / max(1, cluster_stats[node_2]['n_cells']) "
        "for g in range(len(result[1])))",
        # |difference of mean log2(CPM+1)|
        "all(result[2][g] == abs(cluster_stats[node_1]['mean'][g] - cluster_stats[node_2]['mean'][g]) "
        "for g in range(len(result[2])))",
        # the results are fresh arrays: the statistics are not modified
        "same(cluster_stats, old(cluster_stats))",
    ],
)
