"""cell_type_mapper.utils.output_utils  (C01.a, C04.b, C15)

`re_order_blob` is proved in full.  The obs index of the query file enters through the trusted
contract of `anndata_utils.read_df_from_h5ad` (h5py + anndata I/O): the returned frame's
`.index.values` is `df_index(path, df_name)`, an uninterpreted function of the path - i.e. the
file is only read.  The native twin of `df_index` reads the real file, so the same clauses run
on real h5ad files in the native layer.

`_blob_to_hdf5_results` / `hdf5_to_blob` / `blob_to_csv` are h5py / pandas bodies: bounded
(bounded/c15.py), see the notes there.
"""
import atexit
import os
import shutil
import tempfile

from pyvc.contracts import contract
from pyvc.types import record

M = 'cell_type_mapper.utils.output_utils.'
A = 'cell_type_mapper.utils.anndata_utils.'

# a dataframe as far as the code under contract looks at it: frame.index.values
record('DfIndex', values='Arr[Name]')
record('DataFrame', index='DfIndex')
# one cell of the results blob: 'cell_id' plus one entry per taxonomy level (contents opaque here)
record('BlobCell', _rest='Dict[Name,Opaque]', cell_id='Name')

contract(
    A + 'read_df_from_h5ad',
    properties=['C01', 'C04', 'C15', 'C16'], trusted=True,
    params=dict(h5ad_path='Name', df_name='Name'),
    returns='DataFrame',
    ensures=["len(result.index.values) == len(df_index(h5ad_path, df_name))",
             "all(result.index.values[i] == df_index(h5ad_path, df_name)[i] "
             "for i in range(len(result.index.values)))"],
    note="h5py.File(path, 'r') + anndata.read_elem: read-only I/O; the index of the stored frame is "
         "a function of (path, df_name) while the file is not written (C16.d / C19.b frame)",
)

# ---------------------------------------------------------------------------------------------
_TMP = []


def _tmpdir():
    if not _TMP:
        d = tempfile.mkdtemp(prefix='verif_outputs_', dir='/tmp')
        _TMP.append(d)
        atexit.register(shutil.rmtree, d, ignore_errors=True)
        # pool workers of the driver leave through os._exit: atexit does not run there, the
        # multiprocessing finalizers do
        from multiprocessing import util as _mpu
        _mpu.Finalize(None, shutil.rmtree, args=(d,), kwargs=dict(ignore_errors=True), exitpriority=10)
    return _TMP[0]


def _write_obs_h5ad(names, tag):
    import anndata
    import numpy as np
    import pandas as pd
    path = os.path.join(_tmpdir(), f'obs_{os.getpid()}_{tag}.h5ad')
    obs = pd.DataFrame([{'cell_id': n, 'junk': i} for i, n in enumerate(names)]).set_index('cell_id') \
        if names else pd.DataFrame(index=pd.Index([], name='cell_id', dtype=object))
    a = anndata.AnnData(X=np.zeros((len(names), 2), dtype=np.float32), obs=obs,
                        var=pd.DataFrame(index=['g0', 'g1']))
    a.write_h5ad(path)
    return path


_POOL = []


def _obs_pool():
    """a few real h5ad files (written once per process) with 1..7 cells; ids include strings that
    need CSV quoting and digit strings that sort differently as text and as numbers"""
    if not _POOL:
        import random
        rng = random.Random(1234)
        names_pool = ['c%d' % i for i in range(8)] + ['a,b', 'x "q"', '10', '9']
        for k, n in enumerate([1, 1, 2, 3, 3, 4, 5, 6, 7, 7]):
            names = rng.sample(names_pool, n)
            _POOL.append((names, _write_obs_h5ad(names, k)))
    return _POOL


def _gen_re_order(rng, size):
    """blobs whose ids are a permutation of the obs ids (property's quantifier); now and then an
    id is missing / repeated so that `requires` is seen to reject"""
    names, path = rng.choice(_obs_pool())
    ids = list(names)
    rng.shuffle(ids)
    r = rng.random()
    if r < 0.1 and len(ids) > 1:
        ids[0] = ids[1]                 # repeated id / missing id: rejected by requires
    elif r < 0.25:
        ids.insert(rng.randint(0, len(ids)), 'extra_cell')   # a record no obs row asks for: allowed
    blob = [{'cell_id': c, 'lvl': {'assignment': 'n%d' % rng.randint(0, 3), 'k': k}} for k, c in enumerate(ids)]
    return dict(results_blob=blob, query_path=path)


contract(
    M + 're_order_blob',
    properties=['C01', 'C04', 'C15'],
    native=dict(gen=_gen_re_order, bound='10 real h5ad files with 1..7 cells x random permutations of the blob'),
    params=dict(results_blob='List[BlobCell]', query_path='Name'),
    returns='List[BlobCell]',
    requires=[
        # ids of the blob pairwise distinct ...
        "all(results_blob[a]['cell_id'] != results_blob[b]['cell_id'] "
        "for a in range(len(results_blob)) for b in range(len(results_blob)) if a < b)",
        # ... and every obs id has a record (the property's quantifier says: equal as sets; the
        # weaker inclusion is all the function needs)
        "all(any(results_blob[k]['cell_id'] == df_index(query_path, 'obs')[j] "
        "for k in range(len(results_blob))) for j in range(len(df_index(query_path, 'obs'))))",
    ],
    ensures=[
        # C01.a: one record per obs row, in obs order, carrying that row's id, taken from the blob
        "len(result) == len(df_index(query_path, 'obs'))",
        "all(result[j]['cell_id'] == df_index(query_path, 'obs')[j] for j in range(len(result)))",
        "all(result[j] in old(results_blob) for j in range(len(result)))",
        # C04.b (order independence): result[j] is THE record of the blob whose id is obs[j]; with
        # distinct ids this determines the output from the *set* of records, so any permutation
        # of the gathered list (worker completion order) yields the same list
        "all(implies(old(results_blob)[k]['cell_id'] == df_index(query_path, 'obs')[j], "
        "result[j] == old(results_blob)[k]) "
        "for j in range(len(result)) for k in range(len(old(results_blob))))",
        # the input list itself is not modified
        "results_blob == old(results_blob)",
    ],
)


# ---------------------------------------------------------------------------------------------
# _blob_to_hdf5_results (C15.a): the node <-> integer tables written next to the integer-coded
# assignments are mutually inverse at every level, so decoding (hdf5_to_blob: int_to_node[level][i])
# undoes encoding (node_to_int[level][node]).  Slice: only the table-building loop is tracked; the
# numpy / h5py part and the per-cell loop are covered by bounded/c15.py (hdf5-roundtrip).
# ---------------------------------------------------------------------------------------------
def _tables_ok(j):
    """tables of level hierarchy[j] are complete and mutually inverse"""
    lv = f"taxonomy_tree.hierarchy[{j}]"
    nodes = f"tree_nodes(taxonomy_tree, {lv})"
    return (f"({lv} in node_to_int and {lv} in int_to_node and len(int_to_node[{lv}]) == len({nodes}) and "
            f"all({nodes}[q] in node_to_int[{lv}] and node_to_int[{lv}][{nodes}[q]] == q and "
            f"int_to_node[{lv}][q] == {nodes}[q] for q in range(len({nodes}))))")


contract(
    M + '_blob_to_hdf5_results',
    properties=['C15'], mode='slice', unexpected_exceptions='allowed',
    tracked=['taxonomy_tree', 'node_to_int', 'int_to_node', 'these_nodes', 'i_node', 'node', 'i_level', 'level',
             'directly_assigned'],
    params=dict(output_blob='Opaque', dst_path='Opaque', metadata='Opaque'),
    locals=dict(taxonomy_tree='OutTree', node_to_int='Dict[Name,Dict[Name,Int]]',
                int_to_node='Dict[Name,List[Opt[Name]]]', these_nodes='List[Name]',
                directly_assigned='Arr[Bool]'),
    returns='None',
    ensures=[],
    loops={
        0: [f"all({_tables_ok('j')} for j in range(_i))",
            "len(directly_assigned) == len(taxonomy_tree.hierarchy)"],
        # when the per-cell loop starts (and all along it), every level has its pair of tables
        2: [f"all({_tables_ok('j')} for j in range(len(taxonomy_tree.hierarchy)))"],
        1: ["level in node_to_int and level in int_to_node and len(int_to_node[level]) == len(these_nodes)",
            "all(these_nodes[q] in node_to_int[level] and node_to_int[level][these_nodes[q]] == q "
            "and int_to_node[level][q] == these_nodes[q] for q in range(_i))",
            f"all(implies(_it0[j] != level, {_tables_ok('j')}) for j in range(_i0))"],
    },
)
