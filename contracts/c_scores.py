"""cell_type_mapper.diff_exp.scores  (C11.a, C11.b)

Pointwise contracts, gene by gene (g ranges over the genes):

  strict(g)   :  q1[g] > q1_th  and  qdiff[g] > qdiff_th  and  log2_fold[g] > log2_fold_th
  floor_ok(g) :  q1[g] >= q1_min_th and qdiff[g] >= qdiff_min_th and log2_fold[g] >= log2_fold_min_th

C11: strict(g) => accepted (completeness); accepted => floor_ok(g) (soundness w.r.t. the floors);
with exact penetrance accepted <=> strict(g).

FINDING S-4 (FIXED in /repo 4344378): the "absolutely valid" shortcut accepted distance^2 < 1e-10
without consulting the floors, so a gene slightly BELOW a floor was accepted when the strict
threshold is within 1e-5 of that floor.  The floor clause is now proved unconditionally; the
generators keep producing thresholds within 1e-6 of their floors (`tight`) and the former
witnesses, which now have to pass.
"""
from pyvc.contracts import contract
from pyvc.types import record

M = 'cell_type_mapper.diff_exp.scores.'

# the dict returned by penetrance_parameter_distance
record('D_PenDist', **{'true': 'Arr[Real]', 'q1': 'Arr[Real]', 'qdiff': 'Arr[Real]',
                       'fold': 'Arr[Real]', 'wgt': 'Arr[Real]', 'invalid': 'Arr[Bool]'})

GRID = [0.0, 0.05, 0.1, 0.3, 0.499995, 0.5, 0.500001, 0.7, 0.8, 0.95, 1.0, 1.5, 2.0]


def _arr(rng, n, grid=GRID):
    import numpy as np
    return np.array([rng.choice(grid) for _ in range(n)], dtype=float)


def _thresholds(rng, tight=False):
    """strict thresholds above their floors; `tight`: a floor within 1e-5 of its threshold (S-4)"""
    out = {}
    for name, lo_grid in (('q1', [0.1, 0.3, 0.499999]), ('qdiff', [0.1, 0.3, 0.7]),
                          ('log2_fold', [0.8, 0.5, 1.0])):
        lo = rng.choice(lo_grid)
        th = lo + rng.choice([0.000001, 0.2, 0.4] if tight else [0.1, 0.2, 0.4])
        out[name + '_th'] = th
        out[name + '_min_th'] = lo
    return out


# ---------------------------------------------------------------------------------------------
def _gen_exact(rng, size):
    n = rng.randint(0, size + 3)
    return dict(q1_score=_arr(rng, n), qdiff_score=_arr(rng, n),
                q1_th=rng.choice([0.3, 0.5, 0.7]), qdiff_th=rng.choice([0.3, 0.5, 0.7]))


contract(
    M + 'exact_penetrance_test',
    properties=['C11'],
    native=dict(gen=_gen_exact),
    params=dict(q1_score='Arr[Real]', qdiff_score='Arr[Real]', q1_th='Real', qdiff_th='Real'),
    returns='Arr[Bool]',
    requires=["len(q1_score) == len(qdiff_score)"],
    ensures=[
        "len(result) == len(q1_score)",
        # accepted exactly when both strict penetrance thresholds are exceeded - nothing else
        "all(result[g] == (q1_score[g] > q1_th and qdiff_score[g] > qdiff_th) for g in range(len(result)))",
    ],
)


# ---------------------------------------------------------------------------------------------
def _gen_dist(rng, size, tight=None):
    n = rng.randint(1, size + 3)
    d = dict(q1_score=_arr(rng, n), qdiff_score=_arr(rng, n), log2_fold=_arr(rng, n))
    d.update(_thresholds(rng, tight=bool(tight) if tight is not None else rng.random() < 0.3))
    if tight is None and rng.random() < 0.15:
        # thresholds not above their floors -> RuntimeError
        k = rng.choice(['q1', 'qdiff', 'log2_fold'])
        d[k + '_th'] = d[k + '_min_th'] - rng.choice([0.0, 0.1])
    if tight is None and rng.random() < 0.1:
        d['log2_fold'] = _arr(rng, n + 1)
    return d


SQ = "({x} - {t}) * ({x} - {t})"


def _term(x, t):
    """squared distance below the threshold, 0 above it"""
    return "(0.0 if {x} > {t} else sq({x} - {t}))".format(x=x, t=t)


Q1T = _term("q1_score[g]", "q1_th")
QDT = _term("qdiff_score[g]", "qdiff_th")
FT = _term("log2_fold[g]", "log2_fold_th")
BELOW_FLOOR = ("(q1_score[g] < q1_min_th or qdiff_score[g] < qdiff_min_th or "
               "log2_fold[g] < log2_fold_min_th)")
STRICT = "(q1_score[g] > q1_th and qdiff_score[g] > qdiff_th and log2_fold[g] > log2_fold_th)"
FLOOR_OK = ("(q1_score[g] >= q1_min_th and qdiff_score[g] >= qdiff_min_th and "
            "log2_fold[g] >= log2_fold_min_th)")
BAD_ORDER = "(q1_th <= q1_min_th or qdiff_th <= qdiff_min_th or log2_fold_th <= log2_fold_min_th)"
BAD_LEN = "(len(q1_score) != len(qdiff_score) or len(q1_score) != len(log2_fold))"

contract(
    M + 'penetrance_parameter_distance',
    properties=['C11'],
    native=dict(gen=_gen_dist),
    params=dict(q1_score='Arr[Real]', qdiff_score='Arr[Real]', log2_fold='Arr[Real]',
                q1_th='Real', q1_min_th='Real', qdiff_th='Real', qdiff_min_th='Real',
                log2_fold_th='Real', log2_fold_min_th='Real'),
    returns='D_PenDist',
    # observation: with no gene at all `.max()` of an empty array raises ValueError; a statistics
    # file without genes is outside the property's quantifier
    requires=["len(q1_score) >= 1"],
    raises={'RuntimeError': ('iff', BAD_LEN + " or " + BAD_ORDER)},   # shape / threshold-order validation
    ensures=[
        "len(result['true']) == len(q1_score) and len(result['q1']) == len(q1_score) and "
        "len(result['qdiff']) == len(q1_score) and len(result['fold']) == len(q1_score) and "
        "len(result['wgt']) == len(q1_score) and len(result['invalid']) == len(q1_score)",
        # floors: exactly the genes below some floor are flagged
        "all(result['invalid'][g] == " + BELOW_FLOOR + " for g in range(len(q1_score)))",
        # true squared distance to the strict corner
        "all(result['true'][g] == " + Q1T + " + " + QDT + " + " + FT + " for g in range(len(q1_score)))",
        # weighted distances of the genes above the floors
        "all(implies(not result['invalid'][g], result['q1'][g] == " + QDT + " + 1.5 * " + Q1T + " + " + FT +
        ") for g in range(len(q1_score)))",
        "all(implies(not result['invalid'][g], result['qdiff'][g] == 1.5 * " + QDT + " + " + Q1T + " + " + FT +
        ") for g in range(len(q1_score)))",
        "all(implies(not result['invalid'][g], result['fold'][g] == " + QDT + " + " + Q1T + " + 1.5 * " + FT +
        ") for g in range(len(q1_score)))",
        # flagged genes are pushed strictly behind every gene above the floors
        "all(implies(result['invalid'][g] and not result['invalid'][h], "
        "result['q1'][g] > result['q1'][h] and result['qdiff'][g] > result['qdiff'][h] and "
        "result['fold'][g] > result['fold'][h]) for g in range(len(q1_score)) for h in range(len(q1_score)))",
        # consequences used by the callers
        "all(result['true'][g] >= 0 and result['q1'][g] >= 0 and result['qdiff'][g] >= 0 and "
        "result['fold'][g] >= 0 for g in range(len(q1_score)))",
        "all(implies(" + STRICT + ", result['true'][g] == 0 and result['q1'][g] == 0 and "
        "result['qdiff'][g] == 0 and result['fold'][g] == 0 and not result['invalid'][g]) "
        "for g in range(len(q1_score)))",
        "all(result['wgt'][g] == min(result['q1'][g], result['qdiff'][g], result['fold'][g]) "
        "for g in range(len(q1_score)))",
    ],
)


# ---------------------------------------------------------------------------------------------
def _gen_approx(rng, size):
    d = _gen_dist(rng, size, tight=rng.random() < 0.4)
    n = len(d['q1_score'])
    d['n_valid'] = rng.choice([0, 1, 2, n, n + 3, 30])
    if rng.random() < 0.1:
        k = rng.choice(['q1', 'qdiff', 'log2_fold'])
        d[k + '_th'] = d[k + '_min_th']
    return d


APPROX_PARAMS = dict(q1_score='Arr[Real]', qdiff_score='Arr[Real]', log2_fold='Arr[Real]',
                     q1_th='Real', q1_min_th='Real', qdiff_th='Real', qdiff_min_th='Real',
                     log2_fold_th='Real', log2_fold_min_th='Real', n_valid='Int')

APPROX_COMMON = dict(
    params=APPROX_PARAMS,
    returns='Arr[Bool]',
    requires=["len(q1_score) >= 1"],
    raises={'RuntimeError': ('iff', BAD_LEN + " or " + BAD_ORDER)},
    inline_asserts={
        # the candidate set only holds gene positions (np.where of a mask over the genes)
        "to_use = set(np.where(qdiff_dist <= cutoff)[0])": [
            "all(0 <= x < len(q1_score) for x in to_use)"],
        "to_use = to_use.union(set(np.where(q1_dist <= cutoff)[0]))": [
            "all(0 <= x < len(q1_score) for x in to_use)"],
        "to_use = to_use.union(set(np.where(fold_dist <= cutoff)[0]))": [
            "all(0 <= x < len(q1_score) for x in to_use)"],
    },
)

def _gen_approx_with_witness(rng, size):
    if rng.random() < 0.05:
        import numpy as np           # the former S-4 witness
        return dict(q1_score=np.array([0.499995]), qdiff_score=np.array([0.9]), log2_fold=np.array([2.0]),
                    q1_th=0.5, q1_min_th=0.499999, qdiff_th=0.7, qdiff_min_th=0.1, log2_fold_th=1.0,
                    log2_fold_min_th=0.8, n_valid=rng.choice([0, 1]))
    return _gen_approx(rng, size)


contract(
    M + 'approx_penetrance_test',
    properties=['C11'],
    native=dict(gen=_gen_approx_with_witness, weight=2),
    ensures=[
        "len(result) == len(q1_score)",
        # C11 completeness: every gene that passes the strict thresholds is accepted
        "all(implies(" + STRICT + ", result[g]) for g in range(len(q1_score)))",
        # C11 soundness w.r.t. the floors: an accepted gene lies on or above every floor
        "all(implies(result[g], " + FLOOR_OK + ") for g in range(len(q1_score)))",
    ],
    **APPROX_COMMON,
)


# ---------------------------------------------------------------------------------------------
# penetrance_tests: the same clauses with q1 / qdiff spelled out from the penetrances
Q1E = "max(pij_1[g], pij_2[g])"
QDE = "(abs(pij_1[g] - pij_2[g]) / (max(pij_1[g], pij_2[g]) if max(pij_1[g], pij_2[g]) > 0.0 else 1.0))"


def _from_pij(text):
    return text.replace("q1_score[g]", Q1E).replace("qdiff_score[g]", QDE)


def _gen_pen_tests(rng, size):
    import numpy as np
    n = rng.randint(1, size + 3)
    pg = [0.0, 0.0, 0.1, 0.25, 0.499995, 0.5, 0.75, 1.0, -1.0]
    d = dict(pij_1=np.array([rng.choice(pg) for _ in range(n)], dtype=float),
             pij_2=np.array([rng.choice(pg) for _ in range(n)], dtype=float),
             log2_fold=_arr(rng, n), exact=rng.random() < 0.4,
             n_valid=rng.choice([0, 1, 2, n, n + 3, 30]))
    d.update(_thresholds(rng, tight=rng.random() < 0.4))
    return d


contract(
    M + 'penetrance_tests',
    properties=['C11'],
    native=dict(gen=_gen_pen_tests),
    params=dict(pij_1='Arr[Real]', pij_2='Arr[Real]', log2_fold='Arr[Real]', q1_th='Real',
                qdiff_th='Real', log2_fold_th='Real', exact='Bool', q1_min_th='Real',
                qdiff_min_th='Real', log2_fold_min_th='Real', n_valid='Int'),
    returns='Arr[Bool]',
    requires=["len(pij_1) == len(pij_2) and len(pij_1) == len(log2_fold)",
              "implies(not exact, len(pij_1) >= 1)"],
    raises={'RuntimeError': ('iff', "not exact and " + BAD_ORDER)},
    ensures=[
        "len(result) == len(pij_1)",
        # exact penetrance requested: accepted <=> strict thresholds passed, nothing else
        "implies(exact, all(result[g] == " + _from_pij(STRICT) + " for g in range(len(pij_1))))",
        # completeness
        "all(implies(" + _from_pij(STRICT) + ", result[g]) for g in range(len(pij_1)))",
        # soundness w.r.t. the floors (thresholds above their floors: validated in approximate mode,
        # a hypothesis in exact mode)
        "implies(not " + BAD_ORDER + ", all(implies(result[g], " + _from_pij(FLOOR_OK) +
        ") for g in range(len(pij_1))))",
    ],
)


# ---------------------------------------------------------------------------------------------
# p-values (plumbing around the Welch test and the Holm correction)
import contracts.c_stats_utils_ttest as _tt     # noqa: E402
import contracts.c_score_utils as _su           # noqa: E402


contract(
    M + 'diffexp_p_values',
    properties=['C11'],
    native=dict(gen=lambda rng, size: dict(_tt._gen_welch(rng, size), p_th=rng.choice([None, 0.01, 0.5]))),
    params=dict(mean1='Arr[Real]', var1='Arr[Real]', n1='Int', mean2='Arr[Real]', var2='Arr[Real]',
                n2='Int', boring_t='Opt[Real]', big_nu='Opt[Real]', p_th='Opt[Real]'),
    returns='Arr[Real]',
    requires=["len(mean1) == len(var1) and len(mean1) == len(mean2) and len(mean1) == len(var2)"],
    ensures=["len(result) == len(mean1)",
             "all(0 < result[g] <= 1 for g in range(len(mean1)))"],
)


def _gen_p_from_stats(rng, size):
    cs = _su.gen_cluster_stats(rng, size)
    names = sorted(cs)
    bt = rng.choice([None, 2.5])
    return dict(node_1=rng.choice(names), node_2=rng.choice(names), precomputed_stats=cs,
                p_th=rng.choice([0.01, 0.5]), big_nu=None, boring_t=bt)


STATS_OK = [
    "node_1 in precomputed_stats and node_2 in precomputed_stats",
    # the statistics of one file: every per-gene array has the same length
    "len(precomputed_stats[node_1]['mean']) == len(precomputed_stats[node_2]['mean'])",
    "len(precomputed_stats[node_1]['var']) == len(precomputed_stats[node_1]['mean'])",
    "len(precomputed_stats[node_2]['var']) == len(precomputed_stats[node_1]['mean'])",
    "len(precomputed_stats[node_1]['ge1']) == len(precomputed_stats[node_1]['mean'])",
    "len(precomputed_stats[node_2]['ge1']) == len(precomputed_stats[node_1]['mean'])",
]

contract(
    M + 'diffexp_p_values_from_stats',
    properties=['C11'],
    native=dict(gen=_gen_p_from_stats),
    params=dict(node_1='Name', node_2='Name', precomputed_stats='Dict[Name,ClusterStats]',
                p_th='Real', big_nu='Opt[Real]', boring_t='Opt[Real]'),
    returns='Arr[Real]',
    requires=STATS_OK,
    ensures=["len(result) == len(precomputed_stats[node_1]['mean'])",
             "all(0 < result[g] <= 1 for g in range(len(result)))",
             "same(precomputed_stats, old(precomputed_stats))"],
)


# ---------------------------------------------------------------------------------------------
# penetrance_from_stats / score_differential_genes: the clauses in terms of the statistics
P1 = "(precomputed_stats[node_1]['ge1'][g] / max(1, precomputed_stats[node_1]['n_cells']))"
P2 = "(precomputed_stats[node_2]['ge1'][g] / max(1, precomputed_stats[node_2]['n_cells']))"
S_Q1 = "max(" + P1 + ", " + P2 + ")"
S_QD = "(abs(" + P1 + " - " + P2 + ") / (" + S_Q1 + " if " + S_Q1 + " > 0.0 else 1.0))"
S_FOLD = "abs(precomputed_stats[node_1]['mean'][g] - precomputed_stats[node_2]['mean'][g])"
INLIST = "(valid_gene_idx is None or g in valid_gene_idx)"
NG = "len(precomputed_stats[node_1]['mean'])"


def _from_stats(text):
    return text.replace("q1_score[g]", S_Q1).replace("qdiff_score[g]", S_QD).replace("log2_fold[g]", S_FOLD)


SANE = "(q1_min_th >= 0 and not " + BAD_ORDER + ")"


def _gen_pen_from_stats(rng, size):
    import numpy as np
    cs = _su.gen_cluster_stats(rng, size)
    names = sorted(cs)
    n = len(cs[names[0]]['mean'])
    d = dict(node_1=rng.choice(names), node_2=rng.choice(names), precomputed_stats=cs,
             exact_penetrance=rng.random() < 0.4, n_valid=rng.choice([0, 1, 2, n, 30]),
             valid_gene_idx=None)
    if rng.random() < 0.5:
        d['valid_gene_idx'] = np.array(sorted(rng.sample(range(n), rng.randint(0, n))), dtype=int)
    d.update(_thresholds(rng, tight=rng.random() < 0.3))
    return d


PEN_STATS_PARAMS = dict(node_1='Name', node_2='Name', precomputed_stats='Dict[Name,ClusterStats]',
                        q1_th='Real', q1_min_th='Real', qdiff_th='Real', qdiff_min_th='Real',
                        log2_fold_th='Real', log2_fold_min_th='Real', valid_gene_idx='Opt[Arr[Int]]',
                        exact_penetrance='Bool', n_valid='Int')

IDX_OK = "valid_gene_idx is None or all(0 <= valid_gene_idx[k] < " + NG + \
         " for k in range(len(valid_gene_idx)))"

contract(
    M + 'penetrance_from_stats',
    properties=['C11'],
    native=dict(gen=_gen_pen_from_stats),
    params=PEN_STATS_PARAMS,
    returns='Arr[Bool]',
    requires=STATS_OK + [IDX_OK, "implies(not exact_penetrance, " + NG + " >= 1)"],
    raises={'RuntimeError': ('iff', "not exact_penetrance and " + BAD_ORDER)},
    inline_asserts={
        # the complement mask flags exactly the genes outside the list ...
        "invalid_mask = np.logical_not(invalid_mask)": [
            "all(invalid_mask[g] == (g not in valid_gene_idx) for g in range(len(invalid_mask)))"],
        # ... and those genes carry the sentinel -1 in all three quantities
        "log2_fold[invalid_mask] = -1.0": [
            "all(implies(g not in valid_gene_idx, pij_1[g] == -1.0 and pij_2[g] == -1.0 and log2_fold[g] == -1.0) "
            "for g in range(len(invalid_mask)))"],
    },
    ensures=[
        "len(result) == " + NG,
        # gene-list restriction (the sentinel -1 written over unlisted genes must fall below a floor)
        "implies(" + SANE + ", all(implies(result[g], " + INLIST + ") for g in range(" + NG + ")))",
        # exact penetrance: accepted <=> listed and strict, nothing else
        "implies(exact_penetrance and " + SANE + ", all(result[g] == (" + INLIST + " and " + _from_stats(STRICT) +
        ") for g in range(" + NG + ")))",
        # completeness
        "all(implies(" + INLIST + " and " + _from_stats(STRICT) + ", result[g]) for g in range(" + NG + "))",
        # soundness w.r.t. the floors
        "implies(" + SANE + ", all(implies(result[g], " + _from_stats(FLOOR_OK) + ") for g in range(" + NG + ")))",
        "same(precomputed_stats, old(precomputed_stats))",
    ],
)


# ---------------------------------------------------------------------------------------------
# score_differential_genes  (C11.a)
N1 = "precomputed_stats[node_1]['n_cells']"
N2 = "precomputed_stats[node_2]['n_cells']"
ENOUGH = "(" + N1 + " >= n_cells_min and " + N2 + " >= n_cells_min)"
ORIG_LIST = "(old(valid_gene_idx) is None or g in old(valid_gene_idx))"
# result[0] = -ln(adjusted p) : "adjusted p below the threshold" read off the score
P_OK = "(result[0][g] > -1.0 * ln(p_th))"


def _post_facts(mask):
    """what the last penetrance mask satisfies, stated against the ORIGINAL gene list (so that the
    facts do not mention the loop-carried, re-assigned `valid_gene_idx`)"""
    m = mask
    return [
        "len(%s) == " % m + NG,
        "implies(" + SANE + ", all(implies(%s[g], " % m + ORIG_LIST + ") for g in range(" + NG + ")))",
        "implies(exact_penetrance and " + SANE + ", all(implies(%s[g], " % m + _from_stats(STRICT) +
        ") for g in range(" + NG + ")))",
        "all(implies(" + ORIG_LIST + " and pvalue_valid[g] and " + _from_stats(STRICT) + ", %s[g]) " % m +
        "for g in range(" + NG + "))",
        "implies(" + SANE + ", all(implies(%s[g], " % m + _from_stats(FLOOR_OK) + ") for g in range(" + NG + ")))",
    ]


def _gen_score(rng, size):
    d = _gen_pen_from_stats(rng, size)
    d.update(p_th=rng.choice([0.01, 0.2, 0.9]), n_cells_min=rng.choice([2, 2, 2, 1, 3]),
             boring_t=rng.choice([None, 2.5]), big_nu=None,
             n_valid_min=rng.choice([0, 1, 2, 10]))
    return d


def _gen_score_s4(rng, size):
    """half of the cases: a fold change 5e-6 below its floor with the strict threshold 1e-6 above it
    (the former S-4 witness class: such a gene must NOT be recorded)"""
    import numpy as np
    if rng.random() < 0.5:
        return _gen_score(rng, size)
    n = rng.randint(1, 3)
    floor = rng.choice([0.5, 0.8])
    a = dict(mean=np.zeros(n), var=np.full(n, 1.0e-4), n_cells=50, ge1=np.zeros(n, dtype=int))
    b = dict(mean=np.full(n, floor - 0.000005), var=np.full(n, 1.0e-4), n_cells=50, ge1=np.full(n, 50, dtype=int))
    return dict(node_1='cluster/a', node_2='cluster/b', precomputed_stats={'cluster/a': a, 'cluster/b': b},
                p_th=0.01, q1_th=0.5, q1_min_th=0.1, qdiff_th=0.7, qdiff_min_th=0.1,
                log2_fold_th=floor + 0.000001, log2_fold_min_th=floor, n_cells_min=2, boring_t=None, big_nu=None,
                exact_penetrance=False, n_valid=rng.choice([0, 1, 30]), n_valid_min=rng.choice([0, 10]),
                valid_gene_idx=None)


SCORE_COMMON = dict(
    params=dict(node_1='Name', node_2='Name', precomputed_stats='Dict[Name,ClusterStats]', p_th='Real',
                q1_th='Real', qdiff_th='Real', log2_fold_th='Real', q1_min_th='Real', qdiff_min_th='Real',
                log2_fold_min_th='Real', n_cells_min='Int', boring_t='Opt[Real]', big_nu='Opt[Real]',
                exact_penetrance='Bool', n_valid='Int', n_valid_min='Int', valid_gene_idx='Opt[Arr[Int]]'),
    returns='Tuple[Arr[Real],Arr[Bool],Arr[Int]]',
    locals=dict(validity_mask='Arr[Bool]', penetrance_mask='Arr[Bool]', gene_mask='Arr[Bool]'),
    requires=STATS_OK + [IDX_OK, NG + " >= 1"],
    raises={'RuntimeError': ('iff', ENOUGH + " and not exact_penetrance and " + BAD_ORDER)},
    loops={0: [
        "n_iteration >= 0",
        "implies(n_iteration == 0, keep_going)",
        # an iteration that completed got past the threshold validation of penetrance_from_stats
        "implies(n_iteration >= 1, exact_penetrance or not " + BAD_ORDER + ")",
        IDX_OK,
        # the working gene list only ever shrinks, and keeps every listed gene that passed the p-value cut
        "old(valid_gene_idx) is None or (valid_gene_idx is not None and "
        "all(valid_gene_idx[k] in old(valid_gene_idx) for k in range(len(valid_gene_idx))))",
        "all(implies(" + ORIG_LIST + " and pvalue_valid[g], " + INLIST + ") for g in range(" + NG + "))",
        "implies(not keep_going, bound('validity_mask') and bound('penetrance_mask'))",
        "implies(not keep_going, all(validity_mask[g] == (pvalue_valid[g] and penetrance_mask[g]) "
        "for g in range(" + NG + ")))",
        "implies(not keep_going, len(validity_mask) == " + NG + ")",
    ] + ["implies(not keep_going, " + f + ")" for f in _post_facts('penetrance_mask')]},
)

contract(
    M + 'score_differential_genes',
    properties=['C11'],
    native=dict(gen=_gen_score_s4, weight=2),
    ensures=[
        "len(result[0]) == " + NG + " and len(result[1]) == " + NG + " and len(result[2]) == " + NG,
        # fewer than n_cells_min (default 2) cells on either side: no marker at all
        "implies(not " + ENOUGH + ", all(not result[1][g] for g in range(" + NG + ")))",
        # a marker has an adjusted p-value below the threshold ...
        "all(implies(result[1][g], " + P_OK + ") for g in range(" + NG + "))",
        # ... and belongs to the gene list when one is given
        "implies(" + SANE + ", all(implies(result[1][g], " + ORIG_LIST + ") for g in range(" + NG + ")))",
        # completeness: listed, significant, strictly passing => recorded
        "implies(" + ENOUGH + " and p_th > 0, all(implies(" + ORIG_LIST + " and " + P_OK + " and " +
        _from_stats(STRICT) + ", result[1][g]) for g in range(" + NG + ")))",
        # exact penetrance: nothing else is recorded
        "implies(exact_penetrance and " + SANE + ", all(implies(result[1][g], " + _from_stats(STRICT) +
        ") for g in range(" + NG + ")))",
        # C11: a recorded marker lies on or above every penetrance / fold-change floor
        "implies(" + SANE + ", all(implies(result[1][g], " + _from_stats(FLOOR_OK) + ") for g in range(" + NG + ")))",
        # direction = sign of the difference of the mean log2(CPM+1)
        "implies(" + ENOUGH + ", all(result[2][g] == (1 if precomputed_stats[node_2]['mean'][g] > "
        "precomputed_stats[node_1]['mean'][g] else 0) for g in range(" + NG + ")))",
        "same(precomputed_stats, old(precomputed_stats))",
    ],
    **SCORE_COMMON,
)
