"""Dispatch / drain loops of the parallel stages as slices (C14.b, C04.a).

Ghost `started` = pids of the workers whose start() was called.  `final_code(pid)` is the exit code
the worker ends with (A-PROC: non-zero for every abnormal termination - killed, non-zero exit,
uncaught exception - before, during or after its work).  Each slice proves, on the real function:
the call returns normally only if every started worker ended with exit code 0; in other words any
abnormal worker termination makes the call raise (winnow_* raises, nothing catches it).
"""
from pyvc.contracts import contract
from . import c_multiprocessing_utils  # noqa: F401  (declares Proc)

POOL_INV = [
    # every pooled process was started; pids in the pool are pairwise distinct
    "all(q.pid in started for q in process_list)",
    "all(process_list[a].pid != process_list[b].pid for a in range(len(process_list)) "
    "for b in range(len(process_list)) if a < b)",
    # a started process is still in the pool or ended with exit code 0
    "all(implies(not any(q.pid == pid for q in process_list), final_code(pid) == 0) for pid in started)",
]

ALL_OK = "all(final_code(pid) == 0 for pid in started)"

contract(
    'cell_type_mapper.type_assignment.election.run_type_assignment_on_h5ad_cpu#procs',
    properties=['C14', 'C04'],
    mode='slice', unexpected_exceptions='allowed',
    tracked=['process_list', 'p', 'n_processors'],
    params=dict(n_processors='Int'),
    locals=dict(process_list='List[Proc]'),
    ghost=dict(vars=dict(started='Set[Int]')),
    ensures=[ALL_OK],
    loops={0: POOL_INV, 1: POOL_INV, 2: POOL_INV},
    min_obligations=10,
)
