"""Dispatch / drain loops of the parallel stages as slices (C14.b, C04.a).

Ghost `started` = pids of the workers whose start() was called.  `final_code(pid)` is the exit code
the worker ends with (A-PROC: non-zero for every abnormal termination - killed, non-zero exit,
uncaught exception - before, during or after its work).  Each slice proves, on the real function:
the call returns normally only if every started worker ended with exit code 0; in other words any
abnormal worker termination makes the call raise (winnow_* raises, nothing catches it).
"""
from pyvc.contracts import contract
from . import c_multiprocessing_utils  # noqa: F401  (declares Proc)

POOL_INV = [
    # every pooled process was started; pids in the pool are pairwise distinct
    "all(q.pid in started for q in process_list)",
    "all(process_list[a].pid != process_list[b].pid for a in range(len(process_list)) "
    "for b in range(len(process_list)) if a < b)",
    # a started process is still in the pool or ended with exit code 0
    "all(implies(not any(q.pid == pid for q in process_list), final_code(pid) == 0) for pid in started)",
]

ALL_OK = "all(final_code(pid) == 0 for pid in started)"

def loops_after_first_assignment(qualname, var, inv, role_extra=None):
    """loop ordinal -> invariants, for the loops that come after the first assignment of `var`
    (read from the current source on every run); role_extra(loop_node, inside_dispatch) -> list"""
    import ast
    from pyvc.contracts import find_function
    from pyvc.contracts import DynamicLoops
    try:
        fn = find_function(qualname)[1]
    except Exception:
        return {}
    first = None
    for n in ast.walk(fn):
        if isinstance(n, ast.Assign) and any(isinstance(t, ast.Name) and t.id == var for t in n.targets):
            first = n.lineno if first is None else min(first, n.lineno)
    out = {}
    k = [0]

    def walk(node, inside, in_handler=False):
        for ch in ast.iter_child_nodes(node):
            if isinstance(ch, ast.ExceptHandler):
                # clean-up loops of an exception handler run on a pool the failed call left behind
                walk(ch, inside, True)
                continue
            if isinstance(ch, (ast.For, ast.While)):
                kk = k[0]
                k[0] += 1
                if first is not None and ch.lineno > first and not in_handler:
                    out[kk] = list(inv) + (role_extra(ch, inside) if role_extra else [])
                is_dispatch = isinstance(ch, ast.For) and isinstance(ch.target, ast.Name) \
                    and ch.target.id == 'col0'
                walk(ch, inside or is_dispatch, in_handler)
            else:
                walk(ch, inside, in_handler)
    walk(fn, False)
    return DynamicLoops(out)



contract(
    'cell_type_mapper.type_assignment.election.run_type_assignment_on_h5ad_cpu#procs',
    properties=['C14', 'C04'],
    mode='slice', unexpected_exceptions='allowed',
    tracked=['process_list', 'p', 'n_processors'],
    params=dict(n_processors='Int'),
    locals=dict(process_list='List[Proc]'),
    ghost=dict(vars=dict(started='Set[Int]')),
    ensures=[ALL_OK],
    loops=loops_after_first_assignment(
        'cell_type_mapper.type_assignment.election.run_type_assignment_on_h5ad_cpu', 'process_list', POOL_INV),
    min_obligations=10,
)

# ---- list-based pools ----------------------------------------------------------------------------
contract(
    'cell_type_mapper.diff_exp.precompute_from_anndata._precompute_summary_stats_from_h5ad_and_lookup#procs',
    properties=['C14', 'C04'],
    mode='slice', unexpected_exceptions='allowed',
    tracked=['process_list', 'p', 'n_processors'],
    params=dict(n_processors='Int'),
    locals=dict(process_list='List[Proc]'),
    ghost=dict(vars=dict(started='Set[Int]')),
    ensures=[ALL_OK],
    loops=loops_after_first_assignment(
        'cell_type_mapper.diff_exp.precompute_from_anndata._precompute_summary_stats_from_h5ad_and_lookup',
        'process_list', POOL_INV),
    min_obligations=10,
)

contract(
    'cell_type_mapper.utils.csc_to_csr_parallel._transpose_sparse_matrix_on_disk_v2#procs',
    properties=['C14', 'C04'],
    mode='slice', unexpected_exceptions='allowed',
    tracked=['process_list', 'p', 'n_processors'],
    params=dict(n_processors='Int'),
    locals=dict(process_list='List[Proc]'),
    ghost=dict(vars=dict(started='Set[Int]')),
    ensures=[ALL_OK],
    loops=loops_after_first_assignment(
        'cell_type_mapper.utils.csc_to_csr_parallel._transpose_sparse_matrix_on_disk_v2',
        'process_list', POOL_INV),
    min_obligations=10,
)

# ---- dict-based pools ----------------------------------------------------------------------------
DICT_INV = [
    "all(process_dict[k].pid in started for k in process_dict)",
    "all(implies(a != b, process_dict[a].pid != process_dict[b].pid) for a in process_dict for b in process_dict)",
    "all(implies(not any(process_dict[k].pid == pid for k in process_dict), final_code(pid) == 0) for pid in started)",
]



def _dict_role(loop, inside_dispatch):
    import ast
    if isinstance(loop, ast.For) and isinstance(loop.target, ast.Name) and loop.target.id == 'col0':
        return ["all(k < col0 for k in process_dict)"]
    if inside_dispatch:
        return ["all(k <= col0 for k in process_dict)"]
    return []


def _dict_loops(qualname):
    return loops_after_first_assignment(qualname, 'process_dict', DICT_INV, _dict_role)


for q in ('cell_type_mapper.diff_exp.markers.create_sparse_by_pair_marker_file',
          'cell_type_mapper.diff_exp.p_value_mask._create_p_value_mask_file',
          'cell_type_mapper.diff_exp.p_value_markers.create_sparse_by_pair_marker_file_from_p_mask'):
    contract(
        q + '#procs',
        properties=['C14', 'C04'],
        mode='slice', unexpected_exceptions='allowed',
        tracked=['process_dict', 'p', 'n_processors', 'col0', 'n_per', 'n_pairs'],
        params=dict(n_processors='Int'),
        requires=["n_processors >= 1"],
        locals=dict(process_dict='Dict[Int,Proc]', n_per='Int', n_pairs='Int'),
        ghost=dict(vars=dict(started='Set[Int]')),
        ensures=[ALL_OK],
        # the dispatch loop hands out strictly increasing keys: a live entry is never overwritten
        loops=_dict_loops(q),
        min_obligations=10,
    )


# query-marker selection: the pool is keyed by parent node; a parent is dispatched at most once
# (it is added to started_parents first), so a live entry is never overwritten
SEL_INV = DICT_INV + ["all(k in started_parents for k in process_dict)"]
# the two search loops (`for parent in ...`) pick a parent that has not been started yet
SEL_PICK = ["implies(have_chosen_parent, bound('chosen_parent') and chosen_parent not in started_parents)"]


def _sel_loops(qualname):
    """invariants only for the loops after `process_dict = dict()` (read from the current source)"""
    import ast
    from pyvc.contracts import find_function
    try:
        fn = find_function(qualname)[1]
    except Exception:
        return {}
    first = None
    for n in ast.walk(fn):
        if isinstance(n, ast.Assign) and any(isinstance(t, ast.Name) and t.id == 'process_dict'
                                             for t in n.targets):
            first = n.lineno if first is None else min(first, n.lineno)
    out = {}
    k = [0]

    def walk(node):
        for ch in ast.iter_child_nodes(node):
            if isinstance(ch, (ast.For, ast.While)):
                if first is not None and ch.lineno > first:
                    out[k[0]] = list(SEL_INV)
                    if isinstance(ch, ast.For) and isinstance(ch.target, ast.Name) and ch.target.id == 'parent':
                        out[k[0]] += SEL_PICK
                k[0] += 1
            walk(ch)
    walk(fn)
    from pyvc.contracts import DynamicLoops
    return DynamicLoops(out)


contract(
    'cell_type_mapper.marker_selection.selection_pipeline.select_all_markers#procs',
    properties=['C14', 'C04'],
    mode='slice', unexpected_exceptions='allowed',
    tracked=['process_dict', 'p', 'n_processors', 'started_parents', 'chosen_parent',
             'have_chosen_parent'],
    params=dict(n_processors='Int'),
    requires=["n_processors >= 1"],
    # parent nodes (None or (level, node)) are abstract identifiers here: only equality matters
    locals=dict(process_dict='Dict[Name,Proc]', started_parents='Set[Name]',
                chosen_parent='Name', have_chosen_parent='Bool', parent='Name'),
    ghost=dict(vars=dict(started='Set[Int]')),
    ensures=[ALL_OK],
    loops=_sel_loops('cell_type_mapper.marker_selection.selection_pipeline.select_all_markers'),
    min_obligations=10,
)
