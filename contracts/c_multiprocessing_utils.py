"""cell_type_mapper.utils.multiprocessing_utils  (C14.a)

`Proc` abstracts multiprocessing.Process: `pid` identifies the process (distinct processes have
distinct pids - A-PROC), `exitcode` is the value observed during the call (None while running;
stable once set - A-PROC; the contracts never claim that a survivor is *still* running).
"""
from pyvc.contracts import contract
from pyvc.types import record
from pyvc.native import Rec


def _gen_procs(rng, size):
    n = rng.randint(0, size + 2)
    return dict(process_list=[Rec(pid=i, exitcode=rng.choice([None, None, 0, 0, 1, -9, 3]))
                              for i in range(n)])


record('Proc', pid='Int', exitcode='Opt[Int]')

M = 'cell_type_mapper.utils.multiprocessing_utils.'

contract(
    M + 'winnow_process_list',
    properties=['C14', 'C04'],
    native=dict(gen=_gen_procs),
    assumptions=['A-PROC: Process.exitcode is None while running, stable once set, non-zero for every abnormal termination; distinct processes have distinct pids'],
    params=dict(process_list='List[Proc]'),
    returns='List[Proc]', returns_alias='process_list', mutates=['process_list'],
    locals=dict(to_pop='List[Int]'),
    raises={'RuntimeError': ('iff', "any(p.exitcode is not None and p.exitcode != 0 "
                                    "for p in process_list)")},
    volatile=dict(process_list=['exitcode']),
    env_assumes=[
        # A-PROC: an observed exit code is the code the process ended with
        "all(implies(p.exitcode is not None, p.exitcode == final_code(p.pid)) for p in process_list)"],
    requires=[
        "all(process_list[a].pid != process_list[b].pid for a in range(len(process_list)) "
        "for b in range(len(process_list)) if a < b)"],
    ensures=[
        # caller's view (by pid): no process appears from nowhere, a process leaves the pool only
        # after ending with exit code 0, pids stay pairwise distinct
        "all(any(q.pid == p.pid for q in old(process_list)) for p in result)",
        "all(implies(not any(q.pid == p.pid for q in result), final_code(p.pid) == 0) "
        "for p in old(process_list))",
        "all(result[a].pid != result[b].pid for a in range(len(result)) "
        "for b in range(len(result)) if a < b)",
        # survivors come from the input, everything that was dropped had exited with code 0,
        # nothing that had exited survives
        "all(p in old(process_list) for p in result)",
        "all(implies(p not in result, p.exitcode is not None and p.exitcode == 0) "
        "for p in old(process_list))",
        "all(p.exitcode is None for p in result)",
        "len(result) <= len(old(process_list))",
    ],
    loops={
        0: ["-1 <= ii < len(process_list)",
            "all(ii < q < len(process_list) for q in to_pop)",
            "all(to_pop[a] > to_pop[b] for a in range(len(to_pop)) for b in range(len(to_pop)) if a < b)",
            "all(process_list[q].exitcode is not None and process_list[q].exitcode == 0 for q in to_pop)",
            "all(implies(ii < q and process_list[q].exitcode is not None, q in to_pop) "
            "for q in range(len(process_list)))"],
        1: ["len(process_list) == len(old(process_list)) - _i",
            "implies(_i < len(_it), _it[_i] < len(process_list))",
            # the prefix below the next index to pop is untouched
            "all(process_list[q] == old(process_list)[q] for q in range(len(process_list)) "
            "if implies(_i > 0, q < _it[_i - 1]))",
            # beyond it only running processes remain
            "all(process_list[q].exitcode is None for q in range(len(process_list)) "
            "if _i > 0 and q >= _it[_i - 1])",
            "all(p in old(process_list) for p in process_list)",
            "all(implies(p not in process_list, p.exitcode is not None and p.exitcode == 0) "
            "for p in old(process_list))",
            "all(process_list[a].pid != process_list[b].pid for a in range(len(process_list)) "
            "for b in range(len(process_list)) if a < b)"],
    },
)


def _gen_proc_dict(rng, size):
    n = rng.randint(0, size + 2)
    return dict(process_dict={f"k{i}": Rec(pid=i, exitcode=rng.choice([None, None, 0, 0, 1, -9]))
                              for i in range(n)})


contract(
    M + 'winnow_process_dict',
    properties=['C14', 'C04'],
    native=dict(gen=_gen_proc_dict),
    params=dict(process_dict='Dict[Name,Proc]'),
    returns='Dict[Name,Proc]', returns_alias='process_dict', mutates=['process_dict'],
    raises={'RuntimeError': ('iff', "any(process_dict[k].exitcode is not None and "
                                    "process_dict[k].exitcode != 0 for k in process_dict)")},
    volatile=dict(process_dict=['exitcode']),
    env_assumes=[
        "all(implies(process_dict[k].exitcode is not None, "
        "process_dict[k].exitcode == final_code(process_dict[k].pid)) for k in process_dict)"],
    ensures=[
        # caller's view (by pid): a process leaves the pool only after ending with exit code 0
        "all(k in old(process_dict) and result[k].pid == old(process_dict)[k].pid for k in result)",
        "all(implies(k not in result, final_code(old(process_dict)[k].pid) == 0) for k in old(process_dict))",
        "all(k in old(process_dict) and result[k] == old(process_dict)[k] for k in result)",
        "all(implies(k not in result, old(process_dict)[k].exitcode is not None "
        "and old(process_dict)[k].exitcode == 0) for k in old(process_dict))",
        "all(result[k].exitcode is None for k in result)",
    ],
    loops={
        0: ["all(k in old(process_dict) for k in process_dict)",
            "all(process_dict[k] == old(process_dict)[k] for k in process_dict)",
            # keys not yet visited are all still there
            "all(implies(_it[j] in old(process_dict), _it[j] in process_dict) "
            "for j in range(_i, len(_it)))",
            "all(implies(k not in process_dict, old(process_dict)[k].exitcode is not None and "
            "old(process_dict)[k].exitcode == 0) for k in old(process_dict))",
            "all(implies(k in process_dict, process_dict[k].exitcode is None) "
            "for k in _it[:_i])" if False else
            "all(implies(_it[j] in process_dict, process_dict[_it[j]].exitcode is None) "
            "for j in range(0, _i))",
            ],
    },
)
