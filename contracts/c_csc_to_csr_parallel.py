"""cell_type_mapper.utils.csc_to_csr_parallel  (C13.e, C13.c)

`_transpose_sparse_matrix_on_disk_v2#layout` - slice over the index-range split and the join:
* the worker ranges (i0, i1) are non-empty, consecutive and end at indices_max
  (`indices_chunk_size = ceil(indices_max / n_processors) >= 1`);
* join: the destination cursor of the inner copy loop starts at the running entry offset, advances
  by exactly the number of entries copied and ends at `indices_idx + src_n`; both running offsets
  are non-negative and accumulate;
* every create_dataset call respects the h5py chunk pre-condition (exposed D-4, fixed in /repo by
  e2722ed: `min(indices_size, ...)` was 0 for a matrix without entries and the `data` set was
  chunked by `indptr_size`, which may exceed `indices_size`).
* the dtype choice goes through `choose_int_dtype`, whose contract carries the open finding S-6
  (no integer type beyond uint64); recorded below as a known finding of this slice.
The process handling of the same function is the view `#procs` (C14, other contract file).
Contents of the joined file: bounded, /verif/bounded/c13.py.
"""
from pyvc.contracts import contract

M = 'cell_type_mapper.utils.csc_to_csr_parallel.'

contract(
    M + '_transpose_sparse_matrix_on_disk_v2#layout',
    # C11 / C12: the gene-major tables of the reference marker file are produced by this join
    properties=['C13', 'C11'],
    mode='slice', unexpected_exceptions='allowed',
    ghost=dict(h5_shapes=True),
    assumptions=['A-H5SHAPE: entries of h5py dataset shapes are non-negative integers; the members '
                 'data / indices / indptr of a sparse group are 1-D'],
    tracked=['i0', 'i1', 'indices_max', 'indices_chunk_size', 'n_processors', 'indices_size',
             'indptr_size', 'use_data', 'data_tag', 'indices_idx', 'indptr_idx', 'src_n', 'src_n_ptr',
             'dst0', 'dst1', 'src0', 'src1', 'chunk_size'],
    params=dict(indices_max='Int', max_gb='Real', n_processors='Int', uint_ok='Bool', verbose='Bool',
                data_tag='Opt[Name]'),
    locals=dict(indices_size='Int', indptr_size='Int', src_n='Int', src_n_ptr='Int'),
    # indices_max == 0 (a matrix with an empty minor axis) makes the step of the range 0
    # (ValueError); outside the property's quantifier (patterns have at least one row / column)
    requires=["indices_max >= 1", "n_processors >= 1"],
    # S-6 (open finding of choose_int_dtype: no type beyond uint64): the calls
    # `choose_int_dtype((0, n_orig_indptr))` / `((0, indices_size))` use the callee's contract,
    # which is proved outside its witness class only.  The class (a file with more than 2**64 - 1
    # entries) cannot be written over the entry state of this function - both sizes are read from
    # files - so it is recorded here without an `exclude` expression.
    known_findings=[dict(id='S-6', what='choose_int_dtype((0, size)) for size > 2**64 - 1 returns `int`; '
                                        'sizes are read from HDF5 files and unbounded in the model')],
    inline_asserts={
        # (keyed on the statement that follows the one computing i1 / dst1 / indices_idx)
        'tmp_path = pathlib.Path(': [
            "i0 < i1 <= indices_max",
            "i1 == i0 + indices_chunk_size or i1 == indices_max"],
        'indices[dst0:dst1] = src_indices[src0:src1]': ["dst0 <= dst1", "dst1 - dst0 == src1 - src0",
                                       "dst1 == indices_idx + src1"],
        'indptr_idx += src_n_ptr': ["dst0 == indices_idx"],
    },
    loops={
        0: ["indices_chunk_size >= 1", "0 <= i0"],
        3: ["indices_size >= 0"],
        4: ["indices_idx >= 0"],
        5: ["0 <= src0", "dst0 == indices_idx + min(src0, src_n)", "chunk_size == 1000000"],
    },
    note="the chunk obligations exposed D-4 (fixed by e2722ed)",
)
