"""Scratch discipline of the stage entry points (C19.a): whatever a call creates under the scratch
directory it was given (tempfile.mkdtemp / mkstemp_clean, A-TMP) is removed again on every exit,
normal or exceptional.  Entries created inside a directory that the call itself created are removed
with it.  Ghost `live` = entries created by this call and not yet removed."""
from pyvc.contracts import contract

STAGES = [
    ('cell_type_mapper.diff_exp.precompute_from_anndata.precompute_summary_stats_from_h5ad_and_lookup', ['C19', 'C09']),
    ('cell_type_mapper.validation.validate_h5ad.validate_h5ad', ['C19', 'C16']),
    ('cell_type_mapper.diff_exp.p_value_mask.create_p_value_mask_file', ['C19', 'C11']),
    ('cell_type_mapper.diff_exp.p_value_markers.find_markers_for_all_taxonomy_pairs_from_p_mask', ['C19', 'C11']),
    ('cell_type_mapper.utils.csc_to_csr_parallel.transpose_sparse_matrix_on_disk_v2', ['C19', 'C13']),
    ('cell_type_mapper.utils.csc_to_csr.transpose_by_way_of_disk', ['C19', 'C13']),
    ('cell_type_mapper.utils.anndata_utils.amalgamate_h5ad', ['C19', 'C13']),
    ('cell_type_mapper.utils.anndata_utils.pivot_csr_h5ad', ['C19', 'C13']),
]

# the property demands an empty scratch directory "once it has returned"; these stages have no
# try/finally, so the clause is stated for normal returns only (a mapping run is the only stage for
# which the property also covers exceptional exits - run_mapping#effects)
STAGES_NORMAL_EXIT = [
    ('cell_type_mapper.diff_exp.markers.find_markers_for_all_taxonomy_pairs', ['C19', 'C11']),
    ('cell_type_mapper.validation.utils.round_x_to_integers', ['C19', 'C16']),
    ('cell_type_mapper.diff_exp.markers.add_sparse_by_gene_markers_to_file', ['C19', 'C11']),
]

for q, props in STAGES:
    contract(
        q + '#scratch',
        properties=props,
        mode='slice',
        tracked=['tmp_dir', 'buffer_dir', 'inner_tmp_dir', 'tmp_path', 'tmp_output_path', 'tmp_thinned_path'],
        params=dict(tmp_dir='Opt[Name]'),
        ghost=dict(vars=dict(live='Set[Name]')),
        raises={'Exception': True},
        ensures_all=["len(live) == 0"],
        min_obligations=1,
    )

for q, props in STAGES_NORMAL_EXIT:
    contract(
        q + '#scratch',
        properties=props,
        mode='slice', unexpected_exceptions='allowed',
        tracked=['tmp_dir', 'buffer_dir', 'inner_tmp_dir', 'tmp_path', 'tmp_output_path', 'tmp_thinned_path',
                 'transposed_path'],
        params=dict(tmp_dir='Opt[Name]'),
        ghost=dict(vars=dict(live='Set[Name]')),
        ensures=["len(live) == 0"],
        min_obligations=1,
    )
