"""cell_type_mapper.marker_selection.utils  (C12.a: initial utilities and the census)

`create_utility_array` is BOUNDED (native execution only): its batch loop adds block slices of the
pair-major pointer differences into the census (2-D block updates are outside the generator).
Clauses: census[t, 0 / 1] = number of down / up markers of the t-th relevant pair; utility[g] =
number of (relevant pair, direction) slots gene g marks - the definitions the greedy loop of
`selection._run_selection` starts from.
"""
from pyvc.contracts import contract

import contracts.c_selection as _sel

M = 'cell_type_mapper.marker_selection.utils.'


def _gen_utility(rng, size):
    import numpy as np
    up, down = _sel.gen_tables(rng, size, min_pairs=1)
    n_pairs = up.shape[0]
    mask = None
    if rng.random() < 0.7:
        mask = np.array(sorted(rng.sample(range(n_pairs), rng.randint(1, n_pairs))), dtype=int)
    return dict(marker_gene_array=_sel.make_mga(up, down), gb_size=rng.choice([10, 1, 1e-9]), taxonomy_mask=mask)


def _census_ok(mga, taxonomy_mask, result):
    import numpy as np
    pairs = list(range(mga.n_pairs)) if taxonomy_mask is None else [int(p) for p in taxonomy_mask]
    util, census = result
    if census.shape != (len(pairs), 2) or len(util) != mga.n_genes:
        return False
    for t, p in enumerate(pairs):
        if census[t, 0] != int(mga.down[p].sum()) or census[t, 1] != int(mga.up[p].sum()):
            return False
    for g in range(mga.n_genes):
        if util[g] != sum(int(mga.up[p, g]) + int(mga.down[p, g]) for p in pairs):
            return False
    return True


contract(
    M + 'create_utility_array',
    properties=['C12'], mode='bounded',
    native=dict(gen=_gen_utility, env=dict(census_ok=_census_ok), weight=2,
                bound='<= 4 pairs, <= 5 genes, with / without a pair subset, 3 batch sizes (incl. one pair per batch)'),
    params=dict(marker_gene_array='Opaque', gb_size='Real', taxonomy_mask='Opaque'),
    returns='Opaque',
    ensures=["census_ok(marker_gene_array, taxonomy_mask, result)"],
)
