"""cell_type_mapper.marker_selection.utils  (C12.a: initial utilities and the census)

`create_utility_array` is BOUNDED (native execution only): its batch loop adds block slices of the
pair-major pointer differences into the census (2-D block updates are outside the generator).
Clauses: census[t, 0 / 1] = number of down / up markers of the t-th relevant pair; utility[g] =
number of (relevant pair, direction) slots gene g marks - the definitions the greedy loop of
`selection._run_selection` starts from.
"""
from pyvc.contracts import contract

import contracts.c_selection as _sel

M = 'cell_type_mapper.marker_selection.utils.'


def _gen_utility(rng, size):
    import numpy as np
    up, down = _sel.gen_tables(rng, size + 3, min_pairs=1)
    n_pairs = up.shape[0]
    mask = None
    if rng.random() < 0.7:
        mask = np.array(sorted(rng.sample(range(n_pairs), rng.randint(1, n_pairs))), dtype=int)
    # batch sizes of 2 and 3 pairs as well (they need not divide the number of pairs): the batch size is
    # round(gb_size * 1024**3 / (3 * n_genes)), at least 1
    n_genes = up.shape[1]
    gb = rng.choice([10, 1, 1e-9, 2 * 3 * n_genes / 1024 ** 3, 3 * 3 * n_genes / 1024 ** 3])
    return dict(marker_gene_array=_sel.make_mga(up, down), gb_size=gb, taxonomy_mask=mask)


def _census_ok(mga, taxonomy_mask, result):
    import numpy as np
    pairs = list(range(mga.n_pairs)) if taxonomy_mask is None else [int(p) for p in taxonomy_mask]
    util, census = result
    if census.shape != (len(pairs), 2) or len(util) != mga.n_genes:
        return False
    for t, p in enumerate(pairs):
        if census[t, 0] != int(mga.down[p].sum()) or census[t, 1] != int(mga.up[p].sum()):
            return False
    for g in range(mga.n_genes):
        if util[g] != sum(int(mga.up[p, g]) + int(mga.down[p, g]) for p in pairs):
            return False
    return True


contract(
    M + 'create_utility_array',
    properties=['C12'], mode='bounded',
    native=dict(gen=_gen_utility, env=dict(census_ok=_census_ok), weight=2,
                bound='<= 7 pairs, <= 8 genes, with / without a pair subset, batch sizes 1, 2, 3 pairs and everything at once'),
    params=dict(marker_gene_array='Opaque', gb_size='Real', taxonomy_mask='Opaque'),
    returns='Opaque',
    ensures=["census_ok(marker_gene_array, taxonomy_mask, result)"],
)
