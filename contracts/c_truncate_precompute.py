"""cell_type_mapper.diff_exp.truncate_precompute  (C09.e)

`_convert_to_new_leaves` (slice): for every new leaf the rows that are summed are a sorted
permutation of the rows of the old leaves merged into it, the reads stay inside `data_array`, the
destination row is `new_leaf_to_row[new_leaf]` and lies inside the new array.  The numpy reduction
itself (`data_array[src_rows, :].sum(axis=0)`) is outside the prover: the value clause ("new row =
sum of the rows of the merged leaves", rows not named stay zero) is executed natively in the
bounded view `#values`, and on real files by bounded/c09.py.
"""
from pyvc.contracts import contract
import pyvc.ext.precompute as _pe

_pe.install_hooks()

M = 'cell_type_mapper.diff_exp.truncate_precompute.'

OLDS = 'new_leaf_to_old_leaves[new_leaf]'

REQ = [
    # interface guaranteed by truncate_precomputed_stats_file: every merged leaf has a row in the old
    # file, every new leaf has a row in the new file, rows are valid indices
    "all(k in new_leaf_to_row for k in new_leaf_to_old_leaves)",
    "all(new_leaf_to_old_leaves[k][m] in old_leaf_to_row for k in new_leaf_to_old_leaves "
    "for m in range(len(new_leaf_to_old_leaves[k])))",
    "all(0 <= old_leaf_to_row[k] and old_leaf_to_row[k] < data_array.shape[0] for k in old_leaf_to_row)",
    "all(0 <= new_leaf_to_row[k] and new_leaf_to_row[k] < len(new_leaf_to_row) for k in new_leaf_to_row)",
]

for _view, _dty in (('', 'Arr2[Real]'), ('#1d', 'Arr[Int]')):
    contract(
        M + '_convert_to_new_leaves' + _view,
        properties=['C09'],
        mode='slice',
        tracked=['data_array', 'old_leaf_to_row', 'new_leaf_to_row', 'new_leaf_to_old_leaves', 'new_leaf',
                 'dst_row', 'src_rows', 'new_array', 'new_row'],
        unexpected_exceptions='allowed',
        params=dict(data_array=_dty, old_leaf_to_row='Dict[Name,Int]', new_leaf_to_row='Dict[Name,Int]',
                    new_leaf_to_old_leaves='Dict[Name,List[Name]]'),
        locals={'__zeros_elem__': 'Int'} if _view else {},
        returns=_dty,
        requires=REQ,
        ensures=["result.shape[0] == len(new_leaf_to_row)"] +
                ([] if _view else ["result.shape[1] == data_array.shape[1]"]),
        inline_asserts={
            'src_rows = np.array(src_rows)': [
                # the rows read for this new leaf: a sorted rearrangement of the rows of its old leaves
                f"len(src_rows) == len({OLDS})",
                "sorted_nondecr(src_rows)",
                f"all(any(src_rows[i] == old_leaf_to_row[{OLDS}[m]] for m in range(len({OLDS}))) "
                "for i in range(len(src_rows)))",
                f"all(any(src_rows[i] == old_leaf_to_row[{OLDS}[m]] for i in range(len(src_rows))) "
                f"for m in range(len({OLDS})))",
                "all(0 <= src_rows[i] and src_rows[i] < data_array.shape[0] for i in range(len(src_rows)))",
                # the row written for it
                "dst_row == new_leaf_to_row[new_leaf]",
                "0 <= dst_row and dst_row < len(new_leaf_to_row)",
            ],
        },
        loops={0: ["new_array.shape[0] == len(new_leaf_to_row)"] +
                  ([] if _view else ["new_array.shape[1] == data_array.shape[1]"])},
    )


def _gen_convert(rng, size):
    import numpy as np
    n_old = rng.randint(1, size + 3)
    old = [f"o{i}" for i in range(n_old)]
    rows = list(range(n_old))
    rng.shuffle(rows)
    old_leaf_to_row = dict(zip(old, rows))
    n_new = rng.randint(1, n_old)
    new = [f"n{i}" for i in range(n_new)]
    extra = rng.randint(0, 1)                       # a new leaf with no old leaf keeps a zero row
    new_rows = list(range(n_new + extra))
    rng.shuffle(new_rows)
    new_leaf_to_row = dict(zip(new + [f"x{i}" for i in range(extra)], new_rows))
    assign = [rng.randrange(n_new) for _ in old]
    for i in range(n_new):                          # every listed new leaf has at least one old leaf
        assign[i % n_old] = assign[i % n_old] if i >= n_old else i
    groups = {}
    for o, a in zip(old, assign):
        groups.setdefault(new[a], []).append(o)
    two_d = rng.random() < 0.6
    if two_d:
        n_g = rng.randint(1, 3)
        data = np.array([[float(rng.randint(0, 9)) + rng.random() for _ in range(n_g)]
                         for _ in range(n_old)]).reshape(n_old, n_g)
    else:
        data = np.array([rng.randint(0, 9) for _ in range(n_old)], dtype=int)
    return dict(data_array=data, old_leaf_to_row=old_leaf_to_row, new_leaf_to_row=new_leaf_to_row,
                new_leaf_to_old_leaves=groups)


def _expected(data_array, old_leaf_to_row, new_leaf_to_row, new_leaf_to_old_leaves):
    import numpy as np
    shape = (len(new_leaf_to_row),) + tuple(data_array.shape[1:])
    out = np.zeros(shape, dtype=float)
    for nl, olds in new_leaf_to_old_leaves.items():
        for o in olds:
            out[new_leaf_to_row[nl]] = out[new_leaf_to_row[nl]] + data_array[old_leaf_to_row[o]]
    return out


contract(
    M + '_convert_to_new_leaves#values',
    properties=['C09'],
    mode='bounded',
    params=dict(data_array='Opaque', old_leaf_to_row='Dict[Name,Int]', new_leaf_to_row='Dict[Name,Int]',
                new_leaf_to_old_leaves='Dict[Name,List[Name]]'),
    requires=[
        "all(k in new_leaf_to_row for k in new_leaf_to_old_leaves)",
        "all(o in old_leaf_to_row for k in new_leaf_to_old_leaves for o in new_leaf_to_old_leaves[k])",
        "all(0 <= old_leaf_to_row[k] < data_array.shape[0] for k in old_leaf_to_row)",
        "all(0 <= new_leaf_to_row[k] < len(new_leaf_to_row) for k in new_leaf_to_row)",
        "len(set(new_leaf_to_row.values())) == len(new_leaf_to_row)",
    ],
    ensures=[
        # new row = sum of the rows of the merged leaves; rows of leaves with nothing merged stay 0
        "result.shape == (len(new_leaf_to_row),) + tuple(data_array.shape[1:])",
        "result.dtype == data_array.dtype",
        "allclose(result, expected(data_array, old_leaf_to_row, new_leaf_to_row, new_leaf_to_old_leaves))",
        "array_equal(data_array, old(data_array))",
    ],
    native=dict(gen=_gen_convert, bound='<= 7 old leaves, 1-D int and 2-D float arrays, shuffled rows',
                env=dict(expected=_expected, set=set, tuple=tuple, len=len,
                         allclose=lambda a, b: __import__('numpy').allclose(a, b, rtol=1e-9, atol=1e-12),
                         array_equal=lambda a, b: __import__('numpy').array_equal(a, b))),
)


# ---------------------------------------------------------------------------------------------
# C09.e  truncate_precomputed_stats_file: level bookkeeping (slice)
# ---------------------------------------------------------------------------------------------
from pyvc.types import record   # noqa: E402

# the taxonomy tree as far as the bookkeeping looks at it
record('PcTree', hierarchy='List[Name]', leaf_level='Name')

OLD = 'old_tree.hierarchy'

contract(
    M + 'truncate_precomputed_stats_file#levels',
    properties=['C09'],
    mode='slice',
    tracked=['new_hierarchy', 'old_tree', 'bad_levels', 'level', 'level_to_idx', 'new_idx',
             'sorted_new_idx', 'to_drop'],
    unexpected_exceptions='allowed',
    params=dict(new_hierarchy='List[Name]'),
    locals=dict(old_tree='PcTree', bad_levels='List[Name]', to_drop='List[Name]',
                level_to_idx='Dict[Name,Int]', new_idx='List[Int]', sorted_new_idx='List[Int]'),
    requires=[],
    ghost=dict(feasible_ms=60),
    inline_asserts={
        # when the dropping of levels starts, the request is an order-preserving proper
        # sub-hierarchy and `to_drop` lists exactly the levels that are absent from it
        'new_tree = None': [
            f"all(any({OLD}[i] == new_hierarchy[j] for i in range(len({OLD}))) for j in range(len(new_hierarchy)))",
            f"new_hierarchy != {OLD}",
            "len(new_idx) == len(new_hierarchy)",
            f"all(0 <= new_idx[j] and new_idx[j] < len({OLD}) and {OLD}[new_idx[j]] == new_hierarchy[j] "
            "for j in range(len(new_hierarchy)))",
            "sorted_nondecr(new_idx)",
            f"all(any({OLD}[i] == to_drop[d] for i in range(len({OLD}))) and "
            "not any(new_hierarchy[j] == to_drop[d] for j in range(len(new_hierarchy))) "
            "for d in range(len(to_drop)))",
            f"all(implies({OLD}[i] not in new_hierarchy, {OLD}[i] in to_drop) for i in range(len({OLD})))",
        ],
    },
    loops={
        0: ["all(implies(not any(old_tree.hierarchy[i] == new_hierarchy[j] for i in range(len(old_tree.hierarchy))), "
            "len(bad_levels) > 0) for j in range(_i))"],
        1: [f"all(any({OLD}[i] == to_drop[d] for i in range(len({OLD}))) and "
            "not any(new_hierarchy[j] == to_drop[d] for j in range(len(new_hierarchy))) "
            "for d in range(len(to_drop)))",
            f"all(implies({OLD}[i] not in new_hierarchy, {OLD}[i] in to_drop) for i in range(_i))",
            # the level appended last is the last absent level visited (ground witness for the clause above)
            "implies(_i >= 1 and _it[_i - 1] not in new_hierarchy, "
            "len(to_drop) >= 1 and to_drop[len(to_drop) - 1] == _it[_i - 1])"],
    },
)
