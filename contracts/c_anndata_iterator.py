"""cell_type_mapper.anndata_iterator.anndata_iterator  (C05.a, C06)

The chunk iterators are modelled as records of the fields the stepping logic uses.  `get_chunk`
is a trusted contract (h5py slicing, proved separately for the CSR loader under C05.b/c): it
returns the triple (rows r0:r1, r0, r1) and does not touch the stepping state.
"""
from pyvc.contracts import contract
from pyvc.types import record

M = 'cell_type_mapper.anndata_iterator.anndata_iterator.'

# the open file as seen by get_batch: dataset name -> stored 2-D matrix (ghost view of the file);
# `with self.h5_handler as h5_handle` yields that file (h5_handler_manager.__enter__)
record('H5File', _rest='Dict[Name,Arr2[Real]]')
record('H5Handler', file='H5File')

for cls in ('CSRRowIterator', 'DenseArrayRowIterator'):
    record(cls, r0='Int', n_rows='Int', n_cols='Int', row_chunk_size='Int', h5_handle='Opt[Opaque]',
           h5_handler='H5Handler', data_key='Name')

    contract(
        M + cls + '.get_chunk',
        properties=['C05'], trusted=True, self_type=cls,
        params=dict(r0='Int', r1='Int'),
        returns='Tuple[Opaque,Int,Int]',
        requires=["0 <= r0 <= r1 <= self.n_rows"],
        ensures=["result[1] == r0", "result[2] == r1"],
        note="body is h5py slicing (dense) / load_csr (CSR); contents are covered by C05.b/c and the bounded layer",
    )

    contract(
        M + cls + '.__next__',
        properties=['C05', 'C06', 'C01'], self_type=cls,
        params=dict(),
        returns='Tuple[Opaque,Int,Int]',
        mutates=['self'],
        requires=["self.row_chunk_size >= 1", "0 <= self.r0 <= self.n_rows"],
        raises={'StopIteration': ('iff', "self.r0 >= self.n_rows")},
        ensures=[
            # the chunk handed out starts where the previous one ended, is non-empty, stays
            # inside the matrix, is as long as requested unless the matrix ends, and the
            # cursor advances to its end
            "result[1] == old(self.r0)",
            "result[2] > result[1]",
            "result[2] <= self.n_rows",
            "result[2] == old(self.r0) + self.row_chunk_size or result[2] == self.n_rows",
            "result[2] <= old(self.r0) + self.row_chunk_size",
            "self.r0 == result[2]",
            "self.n_rows == old(self.n_rows) and self.row_chunk_size == old(self.row_chunk_size)"
            " and self.n_cols == old(self.n_cols)",
        ],
    )


# ---------------------------------------------------------------------------------------------
# C05.e  DenseArrayRowIterator.get_batch: the un-sorting loop
# ---------------------------------------------------------------------------------------------
from pyvc import ghost as _ghost          # noqa: E402
from pyvc.symexec import select as _select   # noqa: E402


@_ghost.method('H5Handler', '__enter__')
def _h5_enter(ev, state, node, recv, ref):
    """`with self.h5_handler as h: ...` binds h to the open file (trusted: h5_handler_manager
    opens self.h5_path read-only and returns the h5py.File)"""
    return _select(recv, ('fld', 'file'))


class _NativeDense:
    """native stand-in for `self`: the fields the clauses read; the real iterator (and its file)
    is built inside the call and removed again (h5py handles cannot be deep-copied by the runner)"""

    def __init__(self, x, h5_chunks, row_chunk_size, keep_open):
        from pyvc.native import Rec
        self.h5_chunks, self.row_chunk_size, self.keep_open = h5_chunks, row_chunk_size, keep_open
        self.n_rows, self.n_cols = x.shape
        self.data_key = 'X'
        self.h5_handler = Rec(file={'X': x})

    def __repr__(self):
        return f"<dense {self.n_rows}x{self.n_cols} {self.h5_handler.file['X'].tolist()} chunks={self.h5_chunks}>"


def _gen_batch(rng, size):
    import numpy as np
    n_rows, n_cols = rng.randint(1, size + 2), rng.randint(1, size + 1)
    x = np.array([[float(rng.randint(0, 9)) for _ in range(n_cols)] for _ in range(n_rows)])
    k = rng.randint(0, n_rows)
    rows = rng.sample(range(n_rows), k)
    return dict(self=_NativeDense(x, (rng.randint(1, n_rows), rng.randint(1, n_cols)),
                                  rng.randint(1, n_rows + 1), rng.random() < 0.5),
                row_idx=rows, sparse=rng.random() < 0.4)


def _call_batch(self, row_idx, sparse):
    import os
    import shutil
    import tempfile
    import h5py
    from cell_type_mapper.anndata_iterator.anndata_iterator import DenseArrayRowIterator
    d = tempfile.mkdtemp(prefix='pyvc_get_batch_', dir='/tmp')
    it = None
    try:
        path = os.path.join(d, 'x.h5')
        with h5py.File(path, 'w') as f:
            f.create_dataset('X', data=self.h5_handler.file['X'], chunks=self.h5_chunks)
        it = DenseArrayRowIterator(path, row_chunk_size=self.row_chunk_size,
                                   array_shape=(self.n_rows, self.n_cols), keep_open=self.keep_open)
        return it.get_batch(row_idx, sparse=sparse)
    finally:
        if it is not None:
            it.h5_handler.close()
        shutil.rmtree(d, ignore_errors=True)


contract(
    M + 'DenseArrayRowIterator.get_batch',
    properties=['C05'], self_type='DenseArrayRowIterator',
    assumptions=['T-H5READ: h5py `dataset[idx, :]` with a strictly increasing in-range index list '
                 'returns exactly the stored rows idx (for every chunk layout and dtype); '
                 'scipy.sparse.csr_matrix(dense) denotes the same matrix'],
    native=dict(gen=_gen_batch, call=_call_batch),
    params=dict(row_idx='List[Int]', sparse='Bool'),
    returns='Arr2[Real]',
    locals={'__zeros_elem__': 'Real'},
    requires=[
        "self.data_key in self.h5_handler.file",
        "self.h5_handler.file[self.data_key].shape[0] == self.n_rows",
        "self.h5_handler.file[self.data_key].shape[1] == self.n_cols",
        "all(0 <= row_idx[k] < self.n_rows for k in range(len(row_idx)))",
        # S-3: a repeated row is refused by h5py (index lists must be strictly increasing)
        "dupfree(row_idx)",
        # S-EMPTY (finding, new): an empty row list makes np.array([]) a float64 array, which h5py refuses
        # (TypeError: Indexing arrays must have integer dtypes); the CSR path fails too
        # (merge_index_list: IndexError).  Reported, not assumed away silently.
        "len(row_idx) >= 1",
    ],
    inline_asserts={
        # pre-condition of the h5py fancy read that follows
        'sorted_row_idx = sorted_row_idx[meta_sort]': ["sorted_strict(sorted_row_idx)"],
    },
    ensures=[
        # the requested rows, in the requested order, with the stored values
        "result.shape[0] == len(row_idx) and result.shape[1] == self.n_cols",
        "all(result[k, c] == self.h5_handler.file[self.data_key][row_idx[k], c] "
        "for k in range(len(row_idx)) for c in range(self.n_cols))",
    ],
    loops={0: [
        "output.shape[0] == raw.shape[0] and output.shape[1] == raw.shape[1]",
        "all(output[meta_sort[q], c] == raw[q, c] for q in range(_i) for c in range(raw.shape[1]))",
    ]},
)


# ---------------------------------------------------------------------------------------------
# S-12  AnnDataRowIterator._initialize_as_csc: definite assignment of `attrs`
# When the scratch volume has too little free space the function is meant to raise RuntimeError
# with a message that quotes `attrs` - but `attrs` is only bound on the other branch, so the
# caller saw UnboundLocalError instead (reproduced natively with os.statvfs patched to report no
# free blocks).  Fixed in /repo by 56239b0 (attrs are read before the free-space test).  The slice
# tracks the branch variables only; since the fix `attrs` is bound on every path, so the
# definite-assignment check is decided while the VCs are generated and no obligation is left
# (min_obligations=0); reverting the fix brings back the refuted obligation
# `UnboundLocalError: attrs is assigned`.
# ---------------------------------------------------------------------------------------------
contract(
    M + 'AnnDataRowIterator._initialize_as_csc',
    properties=['C05'],
    mode='slice', unexpected_exceptions='allowed',
    tracked=['write_as_csr', 'attrs', 'free_bytes', 'file_size_bytes', 'fudge_factor'],
    params=dict(row_chunk_size='Int', keep_open='Bool'),
    locals=dict(free_bytes='Int', file_size_bytes='Int'),
    raises={'RuntimeError': True},
    min_obligations=0,
    note="S-12 (fixed by 56239b0): UnboundLocalError (attrs) instead of RuntimeError when free space is insufficient",
)


# ---------------------------------------------------------------------------------------------
# Tall matrices (C05, C06): more rows than any plausible internal block size (4096, 8192, 10000),
# iterated with chunk sizes that do not divide it.  Bounded: real CSR / CSC / dense h5ad files of
# 5 000 - 10 007 rows x 3 columns; every chunk of the iteration equals the stored rows.
# ---------------------------------------------------------------------------------------------
_TALL = {}


def _tall_file(n_rows, enc):
    import atexit
    import os
    import shutil
    import tempfile
    import numpy as np
    import anndata
    import pandas as pd
    import scipy.sparse as sp
    if 'dir' not in _TALL:
        _TALL['dir'] = tempfile.mkdtemp(prefix='verif_tall_', dir='/tmp')
        atexit.register(shutil.rmtree, _TALL['dir'], True)
    key = (n_rows, enc)
    if key not in _TALL:
        X = np.zeros((n_rows, 3))
        idx = np.arange(n_rows)
        X[:, 0] = idx % 7
        X[:, 1] = (idx // 4096) + 1.0          # differs from block to block
        X[idx % 5 == 0, 2] = idx[idx % 5 == 0] % 11 + 0.5
        X[idx % 13 == 0, :] = 0.0              # empty rows
        Mx = X if enc == 'dense' else (sp.csr_matrix(X) if enc == 'csr' else sp.csc_matrix(X))
        a = anndata.AnnData(X=Mx, obs=pd.DataFrame(index=[f'c{i}' for i in range(n_rows)]),
                            var=pd.DataFrame(index=['g0', 'g1', 'g2']))
        p = os.path.join(_TALL['dir'], f'tall_{os.getpid()}_{n_rows}_{enc}.h5ad')
        a.write_h5ad(p)
        _TALL[key] = (p, X)
    return _TALL[key]


def _iterate_tall(n_rows, enc, chunk):
    """-> number of rows whose values differ from the stored matrix (or that are missing / repeated)"""
    import tempfile
    import numpy as np
    from cell_type_mapper.anndata_iterator.anndata_iterator import AnnDataRowIterator
    import contextlib
    import io
    p, X = _tall_file(n_rows, enc)
    tmp = tempfile.mkdtemp(prefix='it_', dir=_TALL['dir'])
    with contextlib.redirect_stdout(io.StringIO()):      # the CSC -> CSR rewrite prints its progress
        it = AnnDataRowIterator(h5ad_path=p, row_chunk_size=chunk, layer='X', tmp_dir=tmp, max_gb=1)
    bad = 0
    expected_r0 = 0
    for block, r0, r1 in it:
        block = np.asarray(block)
        if r0 != expected_r0 or block.shape != (r1 - r0, 3):
            return n_rows
        bad += int((np.abs(block - X[r0:r1]).max(axis=1) > 0).sum()) if r1 > r0 else 0
        expected_r0 = r1
    del it
    return bad + (n_rows - expected_r0)


_TALL_N = [0]


def _gen_tall(rng, size):
    _TALL_N[0] += 1
    cases = [(5000, 'csr', 1000), (5000, 'csr', 1024), (10007, 'csr', 4097), (5000, 'csc', 1000),
             (8200, 'csr', 3000), (5000, 'dense', 1000), (10007, 'csc', 2500), (8200, 'dense', 4095)]
    n, enc, ch = cases[_TALL_N[0] % len(cases)]
    return dict(n_rows=n, enc=enc, chunk=ch)


contract(
    M + 'AnnDataRowIterator.__next__#tall',
    properties=['C05', 'C06'], mode='bounded',
    native=dict(call=_iterate_tall, gen=_gen_tall, weight=0.04,
                bound='files of 5 000 / 8 200 / 10 007 rows x 3 columns (CSR, CSC, dense), chunk sizes 1000, 1024, 2500, '
                      '3000, 4095, 4097: 8 combinations'),
    params=dict(n_rows='Int', enc='Name', chunk='Int'),
    returns='Int',
    ensures=["result == 0"],
)
