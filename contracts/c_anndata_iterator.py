"""cell_type_mapper.anndata_iterator.anndata_iterator  (C05.a, C06)

The chunk iterators are modelled as records of the fields the stepping logic uses.  `get_chunk`
is a trusted contract (h5py slicing, proved separately for the CSR loader under C05.b/c): it
returns the triple (rows r0:r1, r0, r1) and does not touch the stepping state.
"""
from pyvc.contracts import contract
from pyvc.types import record

M = 'cell_type_mapper.anndata_iterator.anndata_iterator.'

for cls in ('CSRRowIterator', 'DenseArrayRowIterator'):
    record(cls, r0='Int', n_rows='Int', n_cols='Int', row_chunk_size='Int', h5_handle='Opt[Opaque]')

    contract(
        M + cls + '.get_chunk',
        properties=['C05'], trusted=True, self_type=cls,
        params=dict(r0='Int', r1='Int'),
        returns='Tuple[Opaque,Int,Int]',
        requires=["0 <= r0 <= r1 <= self.n_rows"],
        ensures=["result[1] == r0", "result[2] == r1"],
        note="body is h5py slicing (dense) / load_csr (CSR); contents are covered by C05.b/c and the bounded layer",
    )

    contract(
        M + cls + '.__next__',
        properties=['C05', 'C06', 'C01'], self_type=cls,
        params=dict(),
        returns='Tuple[Opaque,Int,Int]',
        mutates=['self'],
        requires=["self.row_chunk_size >= 1", "0 <= self.r0 <= self.n_rows"],
        raises={'StopIteration': ('iff', "self.r0 >= self.n_rows")},
        ensures=[
            # the chunk handed out starts where the previous one ended, is non-empty, stays
            # inside the matrix, is as long as requested unless the matrix ends, and the
            # cursor advances to its end
            "result[1] == old(self.r0)",
            "result[2] > result[1]",
            "result[2] <= self.n_rows",
            "result[2] == old(self.r0) + self.row_chunk_size or result[2] == self.n_rows",
            "result[2] <= old(self.r0) + self.row_chunk_size",
            "self.r0 == result[2]",
            "self.n_rows == old(self.n_rows) and self.row_chunk_size == old(self.row_chunk_size)"
            " and self.n_cols == old(self.n_cols)",
        ],
    )
