"""cell_type_mapper.gene_id.gene_id_mapper / gene_id.utils  (C16.b)

Strings are outside the prover.  The three string facts the proofs rest on are trusted spec
functions with independent native twins (pyvc/ext/outputs.py), each checked on the real code by
the native layer:

  is_ens(s)          hand-written scanner for  ENS[A-Z]+[0-9]+(\\.[0-9]+)?  (full match)   vs  is_ensembl
  strip_version(s)   text before the first '.'                                            vs  _post_process
  placeholder_ct(s)  the int between 'unmapped_' and the next '_'                         vs  RandomNameGenerator.name
                     (axiom on the f-string: injective in the counter, also after strip_version)

Everything else - which branch a gene takes, the counters, the placeholder counter bookkeeping,
the two error conditions - is proved on the real AST of `map_gene_identifiers`.
"""
from pyvc.contracts import contract
from pyvc.types import record

G = 'cell_type_mapper.gene_id.gene_id_mapper.'
U = 'cell_type_mapper.gene_id.utils.'

record('RandomNameGenerator', ct='Int')
record('GeneIdMapper', random_name_generator='RandomNameGenerator', _lookup='Dict[Name,Name]',
       log='Opt[OutLog]', _preferred_type='Name', preferred_type='Name')
record('GeneMapOut', mapped_genes='List[Name]', n_unmapped='Int')

ENS_POOL = ['ENSG00000139618', 'ENSMUSG00000051951', 'ENSMUSG00000051951.5', 'ENSG1.12', 'ENSX9',
            'ENSG00000139618.', 'ENS0001', 'ENSG', 'ENSg001', 'ensg001', 'ENSG001.1.2', 'ENSG001 ',
            ' ENSG001', 'ENSG001\n', 'XENSG001', 'ENSG001a', 'ENSG00.x', 'ENSMUSG0001.', 'ENS',
            'ENSGÉ001', 'ENSG٣٤', 'ENSG001.٣', '', 'ENSGG1', 'ENSG1.0', 'unmapped_0_x', 'Xkr4', 'Gm1992']


def _gen_is_ensembl(rng, size):
    if rng.random() < 0.6:
        return dict(gene_id=rng.choice(ENS_POOL))
    # random strings over a small alphabet around the pattern
    n = rng.randint(0, 8)
    return dict(gene_id=''.join(rng.choice(['E', 'N', 'S', 'G', '0', '7', '.', 'a', '_', ' ']) for _ in range(n)))


def _enum_is_ensembl(size):
    import itertools
    for s in ENS_POOL:
        yield dict(gene_id=s)
    alpha = ['E', 'N', 'S', 'Z', '1', '.', 'a']
    for n in range(0, 6):
        for t in itertools.product(alpha, repeat=n):
            yield dict(gene_id='ENS' + ''.join(t))
            if n <= 4:
                yield dict(gene_id=''.join(t))


contract(
    U + 'is_ensembl',
    properties=['C16'], trusted=True,
    native=dict(gen=_gen_is_ensembl, enumerate=_enum_is_ensembl,
                bound="hand-picked near-misses + every string 'ENS'+w, |w| <= 5 and w, |w| <= 4 over {E,N,S,Z,1,.,a}"),
    params=dict(gene_id='Name'), returns='Bool',
    ensures=["result == is_ens(gene_id)"],
    note="regular expression (re.fullmatch); the prover sees the uninterpreted predicate is_ens; the native "
         "layer compares the regex with an independent hand-written scanner",
)

contract(
    'cell_type_mapper.utils.utils.get_timestamp',
    properties=['C16'], trusted=True, params=dict(), returns='Name', ensures=[],
    note="wall clock; nothing is assumed about the returned string",
)


def _gen_rng_obj(rng, size):
    from cell_type_mapper.gene_id.gene_id_mapper import RandomNameGenerator
    g = RandomNameGenerator()
    g.ct = rng.choice([0, 1, 9, 10, 99, 100, rng.randint(0, 10**6)])
    return dict(self=g)


contract(
    G + 'RandomNameGenerator.name',
    properties=['C16'], self_type='RandomNameGenerator',
    native=dict(gen=_gen_rng_obj),
    params=dict(self='RandomNameGenerator'), returns='Name', mutates=['self'],
    ensures=[
        # the counter is readable from the name (so names drawn at different counter values are
        # different strings), also after the version-suffix clipping applied to every output
        "placeholder_ct(result) == old(self.ct)",
        "placeholder_ct(strip_version(result)) == old(self.ct)",
        "self.ct == old(self.ct) + 1",
    ],
)


def _gen_mapper(rng, size, with_ids=True):
    from cell_type_mapper.gene_id.gene_id_mapper import GeneIdMapper
    from cell_type_mapper.cli.cli_log import CommandLog
    symbols = ['Xkr4', 'Gm1992', 'Rp1', 'Sox17', 'a.b', 'ENSG', 'unmapped_0_x']
    known = rng.sample(symbols, rng.randint(0, len(symbols)))
    lookup = {s: rng.choice(['ENSMUSG%05d' % rng.randint(0, 3), 'ENSMUSG%05d.%d' % (rng.randint(0, 3), rng.randint(1, 9)),
                             'NCBI:77']) for s in known}
    m = GeneIdMapper(data=lookup, log=(CommandLog() if rng.random() < 0.4 else None))
    m.random_name_generator.ct = rng.choice([0, 0, 3, 10])
    out = dict(self=m)
    if with_ids:
        pool = symbols + ['nonsense', 'zzz', '', 'ENSMUSG00001', 'ENSMUSG00001.7', 'ENSG00000139618', 'ENSG1.1.1']
        n = rng.randint(0, size + 3)
        mode = rng.random()
        if mode < 0.2:
            ids = [rng.choice(['nonsense', 'zzz', 'q1', 'q2', '']) for _ in range(n)]     # nothing maps
        elif mode < 0.4:
            ids = [rng.choice(['ENSMUSG00001', 'ENSMUSG00001.7', 'ENSG00000139618']) for _ in range(n)]
        else:
            ids = [rng.choice(pool) for _ in range(n)]
        out.update(gene_id_list=ids, strict=rng.random() < 0.35)
    return out


contract(
    G + 'GeneIdMapper._is_valid',
    properties=['C16'], self_type='GeneIdMapper',
    params=dict(self='GeneIdMapper', gene_id='Name'), returns='Bool',
    native=dict(gen=lambda rng, size: dict(_gen_mapper(rng, size, False), gene_id=rng.choice(ENS_POOL))),
    ensures=["result == is_ens(gene_id)"],
)


def _gen_post(rng, size):
    d = _gen_mapper(rng, size, False)
    pool = ['ENSG001.5', 'ENSG001', 'a.b.c', '.x', 'x.', '', '..', 'unmapped_3_2024-01-01-00-00-00', 'unmapped_3_1.5']
    d['gene_id_array'] = [rng.choice(pool) for _ in range(rng.randint(0, size + 2))]
    return d


contract(
    G + 'GeneIdMapper._post_process',
    properties=['C16'], self_type='GeneIdMapper', trusted=True,
    native=dict(gen=_gen_post),
    params=dict(self='GeneIdMapper', gene_id_array='List[Name]'), returns='List[Name]',
    ensures=["len(result) == len(gene_id_array)",
             "all(result[i] == strip_version(gene_id_array[i]) for i in range(len(result)))"],
    note="str.split('.')[0]: string manipulation, outside the prover; checked natively against the "
         "independent twin of strip_version",
)

UNMAPPABLE = "(not is_ens(gene_id_list[{i}]) and gene_id_list[{i}] not in self._lookup)"
U_I, U_J, U_Q = UNMAPPABLE.format(i='i'), UNMAPPABLE.format(i='j'), UNMAPPABLE.format(i='q')

contract(
    G + 'GeneIdMapper.map_gene_identifiers',
    properties=['C16'], self_type='GeneIdMapper',
    native=dict(gen=_gen_mapper, weight=2),
    params=dict(self='GeneIdMapper', gene_id_list='List[Name]', strict='Bool'),
    returns='GeneMapOut', mutates=['self'],
    locals=dict(output='List[Name]', bad_genes='List[Name]'),
    raises={'RuntimeError': ('iff',
                             f"len(gene_id_list) > 0 and (all({U_I} for i in range(len(gene_id_list))) "
                             f"or (strict and any({U_I} for i in range(len(gene_id_list)))))")},
    ensures=[
        "len(result['mapped_genes']) == len(gene_id_list)",
        # Ensembl ids are kept minus the version suffix
        "all(implies(is_ens(gene_id_list[i]), "
        "result['mapped_genes'][i] == strip_version(gene_id_list[i])) for i in range(len(gene_id_list)))",
        # known symbols are replaced by their Ensembl id (minus suffix)
        # (written with `or`: the native rendering must not evaluate the table lookup eagerly)
        "all(is_ens(gene_id_list[i]) or gene_id_list[i] not in self._lookup or "
        "result['mapped_genes'][i] == strip_version(old(self._lookup)[gene_id_list[i]]) "
        "for i in range(len(gene_id_list)))",
        # unknown names get placeholders drawn at counter values of this call ...
        f"all(implies({U_I}, old(self.random_name_generator.ct) <= placeholder_ct(result['mapped_genes'][i]) "
        "and placeholder_ct(result['mapped_genes'][i]) < self.random_name_generator.ct) "
        "for i in range(len(gene_id_list)))",
        # ... which are pairwise distinct within the call
        f"all(implies({U_I} and {U_J} and i < j, result['mapped_genes'][i] != result['mapped_genes'][j]) "
        "for i in range(len(gene_id_list)) for j in range(len(gene_id_list)))",
        # n_unmapped is exactly the number of placeholders
        "result['n_unmapped'] == n_unmappable(old(self._lookup), gene_id_list, len(gene_id_list))",
        "self.random_name_generator.ct == old(self.random_name_generator.ct) + result['n_unmapped']",
        # the mapper's table is not touched
        "self._lookup == old(self._lookup)",
    ],
    loops={0: [
        "len(output) == _i",
        "mapped_genes >= 0 and unmappable_genes >= 0 and already_fine >= 0",
        "mapped_genes + unmappable_genes + already_fine == _i",
        "self._lookup == old(self._lookup) and self.log == old(self.log) "
        "and self.preferred_type == old(self.preferred_type)",
        "unmappable_genes == n_unmappable(old(self._lookup), gene_id_list, _i)",
        f"iff(unmappable_genes == _i, all({U_Q} for q in range(_i)))",
        f"iff(unmappable_genes > 0, any({U_Q} for q in range(_i)))",
        "self.random_name_generator.ct == old(self.random_name_generator.ct) + unmappable_genes",
        "implies(strict, bound('bad_genes'))",
        "all(implies(is_ens(gene_id_list[q]), output[q] == gene_id_list[q]) for q in range(_i))",
        "all(implies(not is_ens(gene_id_list[q]) and gene_id_list[q] in self._lookup, "
        "output[q] == self._lookup[gene_id_list[q]]) for q in range(_i))",
        f"all(implies({U_Q}, old(self.random_name_generator.ct) <= placeholder_ct(strip_version(output[q])) "
        "and placeholder_ct(strip_version(output[q])) < self.random_name_generator.ct) for q in range(_i))",
        f"all(implies({U_Q} and {UNMAPPABLE.format(i='p')} and p < q, "
        "placeholder_ct(strip_version(output[p])) < placeholder_ct(strip_version(output[q]))) "
        "for p in range(_i) for q in range(_i))",
    ]},
)
