"""cell_type_mapper.utils.csc_to_csr  (C13.a-d, C05.g)

* `_calculate_csr_indptr` (full): pointer array has one slot per major slice plus one, starts at 0,
  is monotone; the chunk loop walks [0, n) in steps of `load_chunk_size >= 100`; every
  `cumulative_count[unq_val] += unq_ct` stays in range.  The counting clause
  (`ptr[k+1]-ptr[k]` = number of entries with index k, `ptr[-1]` = n_non_zero) needs induction
  over sums and is carried by the bounded view `..._calculate_csr_indptr#counts`.
* `transpose_sparse_matrix_on_disk` (slice over the block cursor): blocks [r0, r1) are
  consecutive, non-empty, end at the number of slices; variant `N - r0`; budgets >= 100;
  every `create_dataset` call respects the h5py chunk pre-condition (this obligation exposed
  D-2 / D-3, fixed in /repo by 8e80b01: it fails again if the guard `n_non_zero > 0` is removed).
* the fill pass (argsort / unique / searchsorted) is bounded: /verif/bounded/c13.py.
"""
from pyvc.contracts import contract

M = 'cell_type_mapper.utils.csc_to_csr.'


# ---------------------------------------------------------------------------------------------
def _gen_dtype(rng, size):
    import numpy as np
    return dict(this_dtype=np.dtype(rng.choice(
        [np.uint8, np.int8, np.uint16, np.int16, np.uint32, np.int32, np.uint64, np.int64,
         np.float16, np.float32, np.float64])))


contract(
    M + '_get_bytes_for_type',
    properties=['C13', 'C05'], trusted=True,
    native=dict(gen=_gen_dtype, env=dict(itemsize=lambda d: d.itemsize)),
    params=dict(this_dtype='Opaque'), returns='Int',
    ensures=["result >= 1"],
    note="numpy dtype introspection (iinfo/finfo bits // 8): the item size in bytes, >= 1 for "
         "every numeric dtype; executed natively for all integer / float dtypes",
)


def _gen_maxval(rng, size):
    edges = [0, 1, 254, 255, 256, 65534, 65535, 65536, 2**32 - 2, 2**32 - 1, 2**32, 2**64 - 2,
             2**64 - 1, 2**64]
    return dict(max_value=rng.choice(edges + [rng.randint(0, 70000)]))


contract(
    M + '_get_uint_dtype',
    properties=['C13', 'C05'],
    native=dict(gen=_gen_maxval),
    params=dict(max_value='Int'), returns='Int',
    requires=["max_value >= 0"],
    raises={'RuntimeError': ('iff', "max_value >= 18446744073709551615")},
    ensures=[
        # the type holds every index below max_value (and max_value itself) ...
        "iinfo_min(result) == 0", "max_value < iinfo_max(result)",
        "result == DT_UINT8 or result == DT_UINT16 or result == DT_UINT32 or result == DT_UINT",
        # ... and is the narrowest candidate that does
        "implies(result != DT_UINT8, max_value >= 255)",
        "implies(result == DT_UINT32 or result == DT_UINT, max_value >= 65535)",
        "implies(result == DT_UINT, max_value >= 4294967295)",
    ],
)


# ---------------------------------------------------------------------------------------------
def _gen_indices(rng, size, with_slice=None):
    import numpy as np
    m = rng.randint(0, size + 1)
    n = rng.choice([0, 0, 1, 2, rng.randint(0, 3 * size), rng.randint(90, 260)]) if m > 0 else 0
    idx = np.array([rng.randrange(m) for _ in range(n)], dtype=rng.choice([np.int32, np.int64]))
    sl = None
    if with_slice or (with_slice is None and rng.random() < 0.5):
        a = rng.randint(0, m)
        sl = (a, rng.randint(a, m))
    # budgets around the enforced minimum chunk (100 entries) and far above it
    gb = rng.choice([1e-12, 1e-7, 8e-7, 2e-6, 1.0])
    return dict(indices_handle=idx, indices_max=m, max_gb=gb, verbose=False, indices_slice=sl)


_CSR_PTR_PARAMS = dict(indices_handle='Arr[Int]', indices_max='Int', max_gb='Real', verbose='Bool',
                       indices_slice='Opt[Tuple[Int,Int]]')
_CSR_PTR_REQUIRES = [
    "indices_max >= 0",
    # valid input: minor indices inside the declared extent (any CSC/CSR file scipy accepts)
    "all(0 <= indices_handle[e] < indices_max for e in range(len(indices_handle)))",
    "indices_slice is None or 0 <= indices_slice[0] <= indices_slice[1]",
]

contract(
    M + '_calculate_csr_indptr',
    properties=['C13', 'C05'],
    native=dict(gen=_gen_indices),
    params=_CSR_PTR_PARAMS,
    returns='Tuple[Arr[Int],Int]',
    requires=_CSR_PTR_REQUIRES,
    ensures=[
        "implies(indices_slice is None, len(result[0]) == indices_max + 1)",
        "indices_slice is None or len(result[0]) == indices_slice[1] - indices_slice[0] + 1",
        "result[0][0] == 0",
        "all(result[0][a] <= result[0][b] for a in range(len(result[0])) for b in range(len(result[0])) if a <= b)",
        "0 <= result[1] <= len(indices_handle)",
        "implies(indices_slice is None, result[1] == len(indices_handle))",
    ],
    loops={0: [
        "load_chunk_size >= 100",
        "n_indices == len(indices_handle)",
        "len(cumulative_count) == indices_max",
        "all(cumulative_count[k] >= 0 for k in range(len(cumulative_count)))",
        # the chunks handled so far are exactly [0, min(i0, n)): consecutive, no gap
        "0 <= n_non_zero <= min(i0, n_indices)",
        "implies(indices_slice is None, n_non_zero == min(i0, n_indices))",
    ]},
)


def _call_csr_ptr(**kw):
    from cell_type_mapper.utils.csc_to_csr import _calculate_csr_indptr
    return _calculate_csr_indptr(**kw)


def _count_in_slice(arr, sl, k):
    import numpy as np
    arr = np.asarray(arr)
    off = 0 if sl is None else sl[0]
    return int((arr == k + off).sum())


contract(
    M + '_calculate_csr_indptr#counts',
    properties=['C13', 'C05'], mode='bounded',
    native=dict(gen=_gen_indices, call=_call_csr_ptr, env=dict(count_in_slice=_count_in_slice),
                weight=2, bound='random index arrays: extent <= 5, up to 260 entries (chunk '
                                'minimum 100 crossed), 5 budgets, with / without indices_slice'),
    params=_CSR_PTR_PARAMS,
    returns='Tuple[Arr[Int],Int]',
    requires=_CSR_PTR_REQUIRES,
    ensures=[
        "all(result[0][k + 1] - result[0][k] == count_in_slice(indices_handle, indices_slice, k) "
        "for k in range(len(result[0]) - 1))",
        "result[0][len(result[0]) - 1] == result[1]",
    ],
    note="counting clause: needs induction over sums of np.unique counts (kept bounded)",
)


# ---------------------------------------------------------------------------------------------
# transpose_sparse_matrix_on_disk: slice over the block cursor (DESIGN appendix A.5)
# ---------------------------------------------------------------------------------------------
contract(
    M + 'transpose_sparse_matrix_on_disk',
    properties=['C13', 'C05'],
    mode='slice', unexpected_exceptions='allowed',
    tracked=['r0', 'r1', 'csr_indptr', 'n_non_zero', 'candidate', 'e0', 'e1', 'elements_at_a_time',
             'load_chunk_size', 'd0', 'd1', 'chunks', 'use_data_array', 'data_handle',
             'indptr_handle', 'max_gb', 'max_load_gb', 'max_el_gb', 'load_bytes', 'el_bytes',
             'data_bytes', 'indptr_bytes', 'indices_bytes', 'dex_bytes'],
    params=dict(indices_handle='Arr[Int]', indptr_handle='Arr[Int]', data_handle='Opt[Arr[Real]]',
                indices_max='Int', max_gb='Real', output_path='Opaque', verbose='Bool',
                indices_slice='Opt[Tuple[Int,Int]]'),
    locals=dict(load_chunk_size='Int', elements_at_a_time='Int', chunks='Opt[Tuple[Int]]',
                load_bytes='Int', el_bytes='Int'),
    requires=_CSR_PTR_REQUIRES + ["len(indptr_handle) >= 1"],
    raises={'RuntimeError': "len(indptr_handle) - 1 >= 18446744073709551615"},
    ensures=[
        # the block loop is left only when every major slice has been written
        "final('r0') == len(final('csr_indptr')) - 1",
    ],
    loops={
        0: dict(inv=["0 <= r0 <= len(csr_indptr) - 1",
                     "elements_at_a_time >= 100", "load_chunk_size >= 100"],
                decreases="len(csr_indptr) - 1 - r0"),
        # a block ends at the first candidate that fills the budget or at the last slice;
        # until then no end has been chosen
        1: ["r1 is None", "r0 + 1 <= candidate",
            "candidate <= len(csr_indptr) - 1 or candidate == r0 + 1"],
        # the block handed to the fill pass: non-empty, inside the matrix, and its buffer is
        # exactly the entry range [ptr[r0], ptr[r1])
        2: ["r0 < r1 <= len(csr_indptr) - 1", "d0 == csr_indptr[r0]", "d1 == csr_indptr[r1]",
            "0 <= d0 <= d1"],
    },
    native=None,
    note="fill pass (loops 2/3: argsort / unique / searchsorted) abstracted here; bounded in "
         "/verif/bounded/c13.py.  The create_dataset chunk obligations are the ones that exposed "
         "D-2 / D-3 (fixed by 8e80b01).",
)
