"""cell_type_mapper.utils.anndata_utils  (C13.c / C13.f)

`amalgamate_csr_to_x` - slice over the sizes and cursors: every create_dataset call respects the
h5py chunk pre-condition and the `.max()` reduction is applied to a non-empty array (these
obligations exposed D-9, fixed in /repo by 6d881a8); the data cursor is non-negative and advances
by the size of each piece.  The written
matrix is compared with the in-memory stack in /verif/bounded/c13.py.
"""
from pyvc.contracts import contract

M = 'cell_type_mapper.utils.anndata_utils.'

contract(
    M + 'amalgamate_csr_to_x',
    properties=['C13'],
    mode='slice', unexpected_exceptions='allowed',
    ghost=dict(h5_shapes=True),
    assumptions=['A-H5SHAPE: entries of h5py dataset shapes are non-negative integers; the members '
                 'data / indices / indptr of a sparse group are 1-D'],
    tracked=['n_valid', 'n_indptr', 'indices_max', 'this_max', 'final_shape', 'indptr0', 'data0',
             'n_data', 'n_rows', 'dst_grp'],
    params=dict(final_shape='Tuple[Int,Int]', dst_grp='Name', compression='Bool'),
    locals=dict(n_valid='Int', n_data='Int', n_rows='Int', indices_max='Int', this_max='Int'),
    requires=["final_shape[0] >= 0", "final_shape[1] >= 0"],
    raises={'NotImplementedError': ('iff', "dst_grp != 'X'")},
    inline_asserts={
        'n_rows = src[': ["n_data >= 0", "data0 >= 0"],
    },
    loops={0: ["n_valid >= 0"], 1: ["data0 >= 0", "n_valid >= 0"]},
    note="the obligations `max() of a non-empty array` and the chunk pre-condition of 'data' / "
         "'indices' exposed D-9 (fixed by 6d881a8)",
)


# ---------------------------------------------------------------------------------------------
# copy_layer_to_x helpers (C13.c/h): chunk shapes handed to create_dataset, and the tilings
# ---------------------------------------------------------------------------------------------
_H5_ASSUME = ['A-H5SHAPE: entries of h5py dataset shapes are non-negative integers; chunk shapes are '
              'None or positive per dimension (not assumed <= shape: resizable datasets); '
              'A-H5ITEM: group[name] denotes the same object within one call']

contract(
    M + '_copy_layer_to_x_sparse',
    properties=['C13'],
    mode='slice', unexpected_exceptions='allowed',
    ghost=dict(h5_shapes=True), assumptions=_H5_ASSUME,
    tracked=['src_dataset', 'chunks', 'i0', 'i1', 'el'],
    params=dict(layer_key='Name'),
    loops={2: ["0 <= i0"]},
    note="D-10: same defect as h5_utils._copy_h5_element (chunks of a resizable empty source "
         "re-used for a fixed-shape destination)",
)
