"""cell_type_mapper.marker_selection.selection  (C12.a: helpers of the greedy loop, pointwise per
(pair t, direction s); s = 0 down, s = 1 up)

`MarkerCounts` is the dict {'marker_counts': (n_pairs, 2) ints, 'aggregate': (n_pairs,) ints}.

The three "fill" conditions of a slot (t, s)  (DESIGN appendix A.2):
    F1  counts[t, s] >= n  and  possible[t]      (possible: both directions have >= n markers)
    F2  counts[t, s] == census[t, s]             (every marker of the slot taken)
    F3  aggregate[t] >= 2 n                      (the pair holds twice the target)
Terminal lemma (pure arithmetic, proved as the contract of no function - it is checked inside
`_update_been_filled#terminal`): a pair whose two slots each satisfy F1 or F2 or F3, with
aggregate = counts[t,0] + counts[t,1] and counts <= census, has
aggregate >= min(2 n, census[t,0] + census[t,1]).

The main-loop invariant of `_run_selection` (utility[g] = number of unfilled slots g marks) needs
counting over sets and is NOT proved; the terminal property is bounded end to end in
/verif/bounded/c12.py.
"""
from pyvc.contracts import contract
from pyvc.types import record

M = 'cell_type_mapper.marker_selection.selection.'

record('MarkerCounts', marker_counts='Arr2[Int]', aggregate='Arr[Int]')


def _mat(rng, n, hi):
    import numpy as np
    return np.array([[rng.randint(0, hi), rng.randint(0, hi)] for _ in range(n)], dtype=int).reshape((n, 2))


def _gen_possible(rng, size):
    n = rng.randint(0, size + 2)
    return dict(marker_census=_mat(rng, n, 4), n_per_utility=rng.choice([1, 2, 3]))


contract(
    M + '_get_are_possible',
    properties=['C12'],
    native=dict(gen=_gen_possible),
    params=dict(marker_census='Arr2[Int]', n_per_utility='Int'),
    returns='Arr[Bool]',
    requires=["marker_census.shape[1] == 2"],
    ensures=[
        "len(result) == marker_census.shape[0]",
        # possible[t]: both directions of the pair can reach the target
        "all(result[t] == (marker_census[t, 0] >= n_per_utility and marker_census[t, 1] >= n_per_utility) "
        "for t in range(marker_census.shape[0]))",
    ],
)


def _gen_counts(rng, size, with_census=False):
    import numpy as np
    n = rng.randint(0, size + 2)
    census = _mat(rng, n, 4)
    counts = np.array([[rng.randint(0, census[t, 0]), rng.randint(0, census[t, 1])] for t in range(n)],
                      dtype=int).reshape((n, 2))
    npu = rng.choice([1, 2, 3])
    mc = dict(marker_counts=counts, aggregate=counts.sum(axis=1) if n else np.zeros(0, dtype=int))
    d = dict(marker_counts=mc, n_per_utility=npu)
    if with_census:
        d['marker_census'] = census
    else:
        d['are_possible'] = np.array([bool(census[t, 0] >= npu and census[t, 1] >= npu) for t in range(n)], dtype=bool)
    return d


contract(
    M + '_get_newly_full_mask',
    properties=['C12'],
    native=dict(gen=_gen_counts),
    params=dict(marker_counts='MarkerCounts', n_per_utility='Int', are_possible='Arr[Bool]'),
    returns='Arr2[Bool]',
    requires=["marker_counts['marker_counts'].shape[1] == 2",
              "len(are_possible) == marker_counts['marker_counts'].shape[0]"],
    ensures=[
        "result.shape[0] == marker_counts['marker_counts'].shape[0] and result.shape[1] == 2",
        # F1
        "all(result[t, s] == (marker_counts['marker_counts'][t, s] >= n_per_utility and are_possible[t]) "
        "for t in range(result.shape[0]) for s in range(2))",
        "same(marker_counts, old(marker_counts))",
    ],
)

contract(
    M + '_get_maxed_out',
    properties=['C12'],
    native=dict(gen=lambda rng, size: _gen_counts(rng, size, with_census=True)),
    params=dict(marker_counts='MarkerCounts', marker_census='Arr2[Int]', n_per_utility='Int'),
    returns='Arr2[Bool]',
    requires=["marker_counts['marker_counts'].shape[1] == 2", "marker_census.shape[1] == 2",
              "marker_census.shape[0] == marker_counts['marker_counts'].shape[0]",
              "len(marker_counts['aggregate']) == marker_census.shape[0]"],
    ensures=[
        "result.shape[0] == marker_census.shape[0] and result.shape[1] == 2",
        # F2 or F3
        "all(result[t, s] == (marker_counts['marker_counts'][t, s] == marker_census[t, s] or "
        "marker_counts['aggregate'][t] >= 2 * n_per_utility) "
        "for t in range(result.shape[0]) for s in range(2))",
        "same(marker_counts, old(marker_counts))",
    ],
)


# ---------------------------------------------------------------------------------------------
# MarkerGeneArray, abstractly: the two boolean tables up / down indexed [pair, gene]
# (ghost view of the sparse arrays; the methods below are TRUSTED against it and natively checked
# on real MarkerGeneArray objects built from dense tables)
# ---------------------------------------------------------------------------------------------
record('MGA', n_pairs='Int', n_genes='Int', gene_names='List[Name]', up='Arr2[Bool]', down='Arr2[Bool]')
MA = 'cell_type_mapper.marker_selection.marker_array.MarkerGeneArray.'

WF_MGA = [
    "{m}.n_pairs >= 0 and {m}.n_genes >= 0 and len({m}.gene_names) == {m}.n_genes",
    "{m}.up.shape[0] == {m}.n_pairs and {m}.up.shape[1] == {m}.n_genes",
    "{m}.down.shape[0] == {m}.n_pairs and {m}.down.shape[1] == {m}.n_genes",
    # no gene both up and down for a pair (C11)
    "all(not ({m}.up[p, g] and {m}.down[p, g]) for p in range({m}.n_pairs) for g in range({m}.n_genes))",
]


def wf_mga(m):
    return [c.format(m=m) for c in WF_MGA]


def make_mga(up, down):
    """real MarkerGeneArray from dense (n_pairs, n_genes) tables, with the ghost tables attached"""
    import numpy as np
    from cell_type_mapper.marker_selection.marker_array import MarkerGeneArray
    from cell_type_mapper.diff_exp.sparse_markers_by_pair import SparseMarkersByPair
    from cell_type_mapper.diff_exp.sparse_markers_by_gene import SparseMarkersByGene

    def csr(t):
        ptr, idx = [0], []
        for row in t:
            idx += [int(i) for i in np.where(row)[0]]
            ptr.append(len(idx))
        return np.array(ptr, dtype=np.int64), np.array(idx, dtype=np.int64)
    n_pairs, n_genes = up.shape
    parts = {}
    for name, tab in (('up', up), ('down', down)):
        ptr, idx = csr(tab)
        parts[name + '_by_pair'] = SparseMarkersByPair(gene_idx=idx, pair_idx=ptr)
        gptr, pidx = csr(tab.T)
        parts[name + '_by_gene'] = SparseMarkersByGene(gene_idx=gptr, pair_idx=pidx)
    mga = MarkerGeneArray(gene_names=[f'g{i}' for i in range(n_genes)], taxonomy_pair_to_idx={},
                          n_pairs=n_pairs, **parts)
    mga.up = np.array(up, dtype=bool)
    mga.down = np.array(down, dtype=bool)
    return mga


def gen_tables(rng, size, min_pairs=0, min_genes=1):
    import numpy as np
    n_pairs = rng.randint(min_pairs, size + 1)
    n_genes = rng.randint(min_genes, size + 2)
    up = np.zeros((n_pairs, n_genes), dtype=bool)
    down = np.zeros((n_pairs, n_genes), dtype=bool)
    dens = rng.choice([0.2, 0.5, 0.9])
    for p in range(n_pairs):
        for g in range(n_genes):
            if rng.random() < dens:
                (up if rng.random() < 0.5 else down)[p, g] = True
    return up, down


def _gen_mask_gene(rng, size):
    up, down = gen_tables(rng, size)
    return dict(self=make_mga(up, down), gene_idx=rng.randrange(up.shape[1]))


def _call_method(name):
    def call(self, **kw):
        return getattr(self, name)(**kw)
    return call


contract(
    MA + 'marker_mask_from_gene_idx',
    properties=['C12'], trusted=True, self_type='MGA',
    native=dict(gen=_gen_mask_gene, call=_call_method('marker_mask_from_gene_idx')),
    params=dict(gene_idx='Int'),
    returns='Tuple[Arr[Bool],Arr[Bool]]',
    requires=wf_mga('self') + ["0 <= gene_idx < self.n_genes"],
    ensures=[
        "len(result[0]) == self.n_pairs and len(result[1]) == self.n_pairs",
        "all(result[0][p] == (self.up[p, gene_idx] or self.down[p, gene_idx]) for p in range(self.n_pairs))",
        "all(result[1][p] == self.up[p, gene_idx] for p in range(self.n_pairs))",
    ],
    note="body reads the gene-major sparse arrays (SparseMarkersByGene.get_pairs_for_gene)",
)


def _gen_update_counts(rng, size):
    import numpy as np
    up, down = gen_tables(rng, size)
    n_pairs, n_genes = up.shape
    k = rng.randint(0, n_pairs)
    tax = np.array(sorted(rng.sample(range(n_pairs), k)), dtype=int)
    counts = _mat(rng, k, 3)
    return dict(marker_gene_array=make_mga(up, down), chosen_gene_idx=rng.randrange(n_genes),
                taxonomy_idx_array=tax,
                marker_counts=dict(marker_counts=counts,
                                   aggregate=counts.sum(axis=1) if k else np.zeros(0, dtype=int)))


TAX_OK = ["all(0 <= taxonomy_idx_array[t] < marker_gene_array.n_pairs for t in range(len(taxonomy_idx_array)))"]
COUNTS_SHAPE = ["marker_counts['marker_counts'].shape[0] == len(taxonomy_idx_array)",
                "marker_counts['marker_counts'].shape[1] == 2",
                "len(marker_counts['aggregate']) == len(taxonomy_idx_array)"]
UP_T = "marker_gene_array.up[taxonomy_idx_array[t], {g}]"
DOWN_T = "marker_gene_array.down[taxonomy_idx_array[t], {g}]"


def counts_step(new, old_, g):
    """the chosen gene g adds one to every slot it marks"""
    up, down = UP_T.format(g=g), DOWN_T.format(g=g)
    return [
        "{n}['marker_counts'].shape[0] == len(taxonomy_idx_array) and {n}['marker_counts'].shape[1] == 2 and "
        "len({n}['aggregate']) == len(taxonomy_idx_array)".format(n=new),
        "all({n}['marker_counts'][t, 1] == {o}['marker_counts'][t, 1] + (1 if {u} else 0) "
        "for t in range(len(taxonomy_idx_array)))".format(n=new, o=old_, u=up),
        "all({n}['marker_counts'][t, 0] == {o}['marker_counts'][t, 0] + (1 if {d} else 0) "
        "for t in range(len(taxonomy_idx_array)))".format(n=new, o=old_, d=down),
        "all({n}['aggregate'][t] == {o}['aggregate'][t] + (1 if ({u} or {d}) else 0) "
        "for t in range(len(taxonomy_idx_array)))".format(n=new, o=old_, u=up, d=down),
    ]


contract(
    M + '_update_marker_counts',
    properties=['C12'],
    native=dict(gen=_gen_update_counts),
    params=dict(marker_gene_array='MGA', chosen_gene_idx='Int', taxonomy_idx_array='Arr[Int]',
                marker_counts='MarkerCounts'),
    returns='MarkerCounts', returns_alias='marker_counts', mutates=['marker_counts'],
    requires=wf_mga('marker_gene_array') + TAX_OK + COUNTS_SHAPE +
    ["0 <= chosen_gene_idx < marker_gene_array.n_genes"],
    ensures=counts_step('marker_counts', 'old(marker_counts)', 'chosen_gene_idx') + [
        # hence aggregate == down + up is preserved
        "implies(all(old(marker_counts)['aggregate'][t] == old(marker_counts)['marker_counts'][t, 0] + "
        "old(marker_counts)['marker_counts'][t, 1] for t in range(len(taxonomy_idx_array))), "
        "all(marker_counts['aggregate'][t] == marker_counts['marker_counts'][t, 0] + "
        "marker_counts['marker_counts'][t, 1] for t in range(len(taxonomy_idx_array))))",
    ],
)


# ---------------------------------------------------------------------------------------------
# batch masks of the marker table (trusted against the ghost tables; natively checked)
# ---------------------------------------------------------------------------------------------
def _gen_batch(rng, size):
    import numpy as np
    up, down = gen_tables(rng, size)
    n_pairs = up.shape[0]
    k = rng.randint(0, n_pairs)
    return dict(self=make_mga(up, down),
                pair_idx_list=np.array([rng.randrange(n_pairs) for _ in range(k)] if n_pairs else [], dtype=int))


for _d in ('up', 'down'):
    contract(
        MA + _d + '_mask_from_pair_idx_batch',
        properties=['C12'], trusted=True, self_type='MGA',
        native=dict(gen=_gen_batch, call=_call_method(_d + '_mask_from_pair_idx_batch')),
        params=dict(pair_idx_list='Arr[Int]'),
        returns='Arr[Int]',
        requires=wf_mga('self') + ["all(0 <= pair_idx_list[k] < self.n_pairs for k in range(len(pair_idx_list)))"],
        ensures=[
            # per gene: in how many of the listed pairs it is an up- (down-) regulated marker
            "len(result) == self.n_genes",
            "all(0 <= result[g] <= len(pair_idx_list) for g in range(self.n_genes))",
            "all((result[g] == 0) == (not any(self.%s[pair_idx_list[k], g] for k in range(len(pair_idx_list)))) "
            "for g in range(self.n_genes))" % _d,
        ],
        note="body loops over the pair-major sparse arrays; the exact count is not needed by the callers' clauses",
    )


def _gen_recalc(rng, size):
    import numpy as np
    up, down = gen_tables(rng, size)
    n_pairs, n_genes = up.shape
    k = rng.randint(0, n_pairs)
    return dict(utility_array=np.array([float(rng.randint(0, 6)) for _ in range(n_genes)]),
                marker_gene_array=make_mga(up, down),
                pair_batch=np.array([rng.randrange(n_pairs) for _ in range(k)] if n_pairs else [], dtype=int),
                sign_batch=np.array([rng.choice([-1, 1]) for _ in range(k)], dtype=int))


contract(
    M + 'recalculate_utility_array_batch',
    properties=['C12'],
    native=dict(gen=_gen_recalc),
    params=dict(utility_array='Arr[Real]', marker_gene_array='MGA', pair_batch='Arr[Int]', sign_batch='Arr[Int]'),
    returns='Arr[Real]', returns_alias='utility_array', mutates=['utility_array'],
    requires=wf_mga('marker_gene_array') + [
        "len(utility_array) == marker_gene_array.n_genes", "len(pair_batch) == len(sign_batch)",
        "all(0 <= pair_batch[k] < marker_gene_array.n_pairs for k in range(len(pair_batch)))"],
    ensures=[
        "len(utility_array) == marker_gene_array.n_genes",
        # utilities only go down, and only for genes that mark one of the newly filled slots
        "all(utility_array[g] <= old(utility_array)[g] for g in range(len(utility_array)))",
        "all(implies(not any((sign_batch[k] > 0 and marker_gene_array.up[pair_batch[k], g]) or "
        "(sign_batch[k] < 0 and marker_gene_array.down[pair_batch[k], g]) for k in range(len(pair_batch))), "
        "utility_array[g] == old(utility_array)[g]) for g in range(len(utility_array)))",
        # a gene that marks a newly filled slot loses at least one unit
        "all(implies(any((sign_batch[k] > 0 and marker_gene_array.up[pair_batch[k], g]) or "
        "(sign_batch[k] < 0 and marker_gene_array.down[pair_batch[k], g]) for k in range(len(pair_batch))), "
        "utility_array[g] <= old(utility_array)[g] - 1) for g in range(len(utility_array)))",
    ],
)


# ---------------------------------------------------------------------------------------------
# _update_been_filled: a slot becomes filled exactly when F1 or F2 or F3 holds; never un-filled
# ---------------------------------------------------------------------------------------------
F1 = "(marker_counts['marker_counts'][t, s] >= n_per_utility and are_possible[t])"
F2 = "(marker_counts['marker_counts'][t, s] == marker_census[t, s])"
F3 = "(marker_counts['aggregate'][t] >= 2 * n_per_utility)"
NEWLY = "(not old(been_filled)[t, s] and (" + F1 + " or " + F2 + " or " + F3 + "))"
ANY_NEW = "any(" + NEWLY + " for t in range(len(taxonomy_idx_array)) for s in range(2))"
MARKS_NEW = ("any(" + NEWLY + " and ((s == 1 and marker_gene_array.up[taxonomy_idx_array[t], g]) or "
             "(s == 0 and marker_gene_array.down[taxonomy_idx_array[t], g])) "
             "for t in range(len(taxonomy_idx_array)) for s in range(2))")


def _gen_been_filled(rng, size):
    import numpy as np
    up, down = gen_tables(rng, size, min_pairs=0)
    n_pairs, n_genes = up.shape
    k = rng.randint(0, n_pairs)
    tax = np.array(sorted(rng.sample(range(n_pairs), k)), dtype=int)
    census = np.array([[int(down[p].sum()), int(up[p].sum())] for p in tax], dtype=int).reshape((k, 2))
    counts = np.array([[rng.randint(0, census[t, 0]), rng.randint(0, census[t, 1])] for t in range(k)],
                      dtype=int).reshape((k, 2))
    npu = rng.choice([1, 2, 3])
    util = np.array([float(rng.randint(-1, 5)) for _ in range(n_genes)])
    srt = None if rng.random() < 0.3 else [int(i) for i in np.argsort(util)]
    return dict(marker_counts=dict(marker_counts=counts, aggregate=counts.sum(axis=1) if k else np.zeros(0, dtype=int)),
                been_filled=np.array([[rng.random() < 0.3, rng.random() < 0.3] for _ in range(k)], dtype=bool).reshape((k, 2)),
                utility_array=util, marker_census=census,
                are_possible=np.array([bool(census[t, 0] >= npu and census[t, 1] >= npu) for t in range(k)], dtype=bool),
                sorted_utility_idx=srt, n_per_utility=npu, marker_gene_array=make_mga(up, down),
                taxonomy_idx_array=tax, n_min=5)


contract(
    M + '_update_been_filled',
    properties=['C12'],
    native=dict(gen=_gen_been_filled),
    params=dict(marker_counts='MarkerCounts', been_filled='Arr2[Bool]', utility_array='Arr[Real]',
                marker_census='Arr2[Int]', are_possible='Arr[Bool]', sorted_utility_idx='Opt[List[Int]]',
                n_per_utility='Int', marker_gene_array='MGA', taxonomy_idx_array='Arr[Int]', n_min='Int'),
    returns='Tuple[Arr2[Bool],Arr[Real],Opt[List[Int]]]',
    mutates=['been_filled', 'utility_array'],
    requires=wf_mga('marker_gene_array') + TAX_OK + COUNTS_SHAPE + [
        "marker_census.shape[0] == len(taxonomy_idx_array) and marker_census.shape[1] == 2",
        "been_filled.shape[0] == len(taxonomy_idx_array) and been_filled.shape[1] == 2",
        "len(are_possible) == len(taxonomy_idx_array)",
        "len(utility_array) == marker_gene_array.n_genes",
    ],
    ensures=[
        "result[0].shape[0] == len(taxonomy_idx_array) and result[0].shape[1] == 2",
        # filled' = filled or F1 or F2 or F3, slot by slot (monotone: nothing is ever un-filled)
        "all(result[0][t, s] == (old(been_filled)[t, s] or " + F1 + " or " + F2 + " or " + F3 + ") "
        "for t in range(len(taxonomy_idx_array)) for s in range(2))",
        "same(result[0], been_filled) and same(result[1], utility_array)",
        # utilities: untouched when no slot is newly filled, otherwise they only go down
        "len(result[1]) == marker_gene_array.n_genes",
        "all(result[1][g] <= old(utility_array)[g] for g in range(len(result[1])))",
        "implies(not " + ANY_NEW + ", same(result[1], old(utility_array)))",
        # exactly the genes that mark a newly filled slot (s = 1: up, s = 0: down) lose utility
        "all(implies(not " + MARKS_NEW + ", result[1][g] == old(utility_array)[g]) for g in range(len(result[1])))",
        "all(implies(" + MARKS_NEW + ", result[1][g] <= old(utility_array)[g] - 1) for g in range(len(result[1])))",
        # the order handed back: recomputed (an arg-sort of the utilities) whenever something changed
        # or none was given, otherwise the one passed in
        "result[2] is not None",
        "implies(" + ANY_NEW + " or old(sorted_utility_idx) is None, "
        "len(some(result[2])) == len(result[1]) and dupfree(some(result[2])) and "
        "all(0 <= some(result[2])[i] < len(result[1]) for i in range(len(some(result[2])))) and "
        "all(result[1][some(result[2])[i]] <= result[1][some(result[2])[j]] for i in range(len(some(result[2]))) "
        "for j in range(len(some(result[2]))) if i < j))",
        "implies(not " + ANY_NEW + " and old(sorted_utility_idx) is not None, "
        "same(some(result[2]), some(old(sorted_utility_idx))))",
        "same(marker_counts, old(marker_counts))",
    ],
)


# ---------------------------------------------------------------------------------------------
# _choose_one_gene  (C12: no duplicates - a normal return means the gene was not chosen before)
# two views, one per form of the call:  chosen_idx=None (greedy pick = last of the utility order)
# and chosen_idx=<gene> ("desperate" pick)
# ---------------------------------------------------------------------------------------------
def _gen_choose(given):
    def gen(rng, size):
        import numpy as np
        up, down = gen_tables(rng, size, min_pairs=0, min_genes=1)
        n_pairs, n_genes = up.shape
        k = rng.randint(0, n_pairs)
        tax = np.array(sorted(rng.sample(range(n_pairs), k)), dtype=int)
        counts = _mat(rng, k, 3)
        util = np.array([float(rng.randint(0, 5)) for _ in range(n_genes)])
        chosen = set(rng.sample(range(n_genes), rng.randint(0, n_genes)))
        for g in chosen:
            util[g] = -1.0
        order = [int(i) for i in np.argsort(util)]
        if rng.random() < 0.6:
            order = [g for g in order if g not in chosen] or order     # usually: chosen genes already popped
        names = [f'g{i}' for i in sorted(chosen)]
        d = dict(marker_gene_idx_set=set(chosen), marker_gene_name_list=names, utility_array=util,
                 sorted_utility_idx=order, marker_gene_array=make_mga(up, down),
                 marker_counts=dict(marker_counts=counts, aggregate=counts.sum(axis=1) if k else np.zeros(0, dtype=int)),
                 taxonomy_idx_array=tax, chosen_idx=None)
        if given:
            d['chosen_idx'] = rng.choice(order)
        return d
    return gen


def _choose_contract(view, given):
    c = "chosen_idx" if given else "old(sorted_utility_idx)[len(old(sorted_utility_idx)) - 1]"
    contract(
        M + '_choose_one_gene' + view,
        properties=['C12'],
        native=dict(gen=_gen_choose(given)),
        params=dict(marker_gene_idx_set='Set[Int]', marker_gene_name_list='List[Name]', utility_array='Arr[Real]',
                    sorted_utility_idx='List[Int]', marker_gene_array='MGA', marker_counts='MarkerCounts',
                    taxonomy_idx_array='Arr[Int]', chosen_idx='Int' if given else 'None'),
        returns='Tuple[Set[Int],List[Name],Arr[Real],List[Int],MarkerCounts]',
        mutates=['marker_gene_idx_set', 'marker_gene_name_list', 'utility_array', 'sorted_utility_idx',
                 'marker_counts'],
        requires=wf_mga('marker_gene_array') + TAX_OK + COUNTS_SHAPE + [
            "len(utility_array) == marker_gene_array.n_genes",
            "len(sorted_utility_idx) >= 1",
            "all(0 <= sorted_utility_idx[i] < marker_gene_array.n_genes for i in range(len(sorted_utility_idx)))",
        ] + (["chosen_idx in sorted_utility_idx"] if given else []),
        # a gene is never selected twice: picking a gene that is already in the set is an error
        raises={'RuntimeError': ('iff', c.replace('old(sorted_utility_idx)', 'sorted_utility_idx') +
                                 " in marker_gene_idx_set")},
        loops={} if not given else {0: [
            "0 <= ii", "not bound('to_pop')",
            "all(sorted_utility_idx[j] != chosen_idx for j in range(ii) if j < len(sorted_utility_idx))"]},
        ensures=[
            # no duplicates: the gene picked was not in the set before, and is now
            c + " not in old(marker_gene_idx_set)",
            "all((g in marker_gene_idx_set) == (g in old(marker_gene_idx_set) or g == " + c + ") "
            "for g in range(marker_gene_array.n_genes))",
            "len(marker_gene_idx_set) == len(old(marker_gene_idx_set)) + 1",
            # its name is appended to the result
            "len(marker_gene_name_list) == len(old(marker_gene_name_list)) + 1",
            "marker_gene_name_list[len(marker_gene_name_list) - 1] == marker_gene_array.gene_names[" + c + "]",
            "all(marker_gene_name_list[i] == old(marker_gene_name_list)[i] "
            "for i in range(len(old(marker_gene_name_list))))",
            # it can never be the maximum-utility gene again; other utilities are untouched
            "utility_array[" + c + "] == -1",
            "all(implies(g != " + c + ", utility_array[g] == old(utility_array)[g]) "
            "for g in range(len(utility_array)))",
            # one occurrence of it leaves the utility order
            "len(sorted_utility_idx) == len(old(sorted_utility_idx)) - 1",
        ] + counts_step('marker_counts', 'old(marker_counts)', c) + [
            "same(result[0], marker_gene_idx_set) and same(result[1], marker_gene_name_list) and "
            "same(result[2], utility_array) and same(result[3], sorted_utility_idx) and "
            "same(result[4], marker_counts)",
        ],
    )


_choose_contract('', False)
_choose_contract('#given', True)


# ---------------------------------------------------------------------------------------------
# terminal lemma, exit "every slot filled" (DESIGN 4 C12.c / appendix A.2), on the real
# _update_been_filled: under the loop invariant
#     aggregate = down + up,  0 <= counts <= census,  possible[t] <=> both census >= n,
#     filled slots satisfy F1 or F2 or F3 (monotone: counts only grow and never pass the census)
# the update keeps "filled => F1 or F2 or F3", and a pair whose two slots are filled afterwards is
# covered:  aggregate[t] >= min(2 n, census[t,0] + census[t,1]).
# (The other exit, "max utility <= 0", needs the counting invariant on the utilities - bounded.)
# ---------------------------------------------------------------------------------------------
INV_COUNTS = [
    "n_per_utility >= 1",
    "all(marker_counts['aggregate'][t] == marker_counts['marker_counts'][t, 0] + marker_counts['marker_counts'][t, 1] "
    "for t in range(len(taxonomy_idx_array)))",
    "all(0 <= marker_counts['marker_counts'][t, s] <= marker_census[t, s] "
    "for t in range(len(taxonomy_idx_array)) for s in range(2))",
    "all(are_possible[t] == (marker_census[t, 0] >= n_per_utility and marker_census[t, 1] >= n_per_utility) "
    "for t in range(len(taxonomy_idx_array)))",
    "all(implies(been_filled[t, s], " + F1 + " or " + F2 + " or " + F3 + ") "
    "for t in range(len(taxonomy_idx_array)) for s in range(2))",
]


def _gen_terminal(rng, size):
    import numpy as np
    d = _gen_been_filled(rng, size)
    k = len(d['taxonomy_idx_array'])
    mc, census, npu = d['marker_counts'], d['marker_census'], d['n_per_utility']
    bf = np.zeros((k, 2), dtype=bool)
    for t in range(k):
        for s in range(2):
            ok = (mc['marker_counts'][t, s] >= npu and d['are_possible'][t]) or \
                mc['marker_counts'][t, s] == census[t, s] or mc['aggregate'][t] >= 2 * npu
            bf[t, s] = bool(ok and rng.random() < 0.5)
    d['been_filled'] = bf
    return d


_base = __import__('pyvc.contracts', fromlist=['REGISTRY']).REGISTRY.get(M + '_update_been_filled')
contract(
    M + '_update_been_filled#terminal',
    properties=['C12'],
    native=dict(gen=_gen_terminal),
    params=dict(_base.params), returns=_base.returns, mutates=list(_base.mutates),
    requires=list(_base.requires) + INV_COUNTS,
    ensures=[
        # the invariant on filled slots is re-established
        "all(implies(result[0][t, s], " + F1 + " or " + F2 + " or " + F3 + ") "
        "for t in range(len(taxonomy_idx_array)) for s in range(2))",
        # terminal lemma: both slots of a pair filled => the pair is covered as far as possible
        "all(implies(result[0][t, 0] and result[0][t, 1], marker_counts['aggregate'][t] >= "
        "min(2 * n_per_utility, marker_census[t, 0] + marker_census[t, 1])) "
        "for t in range(len(taxonomy_idx_array)))",
    ],
)
