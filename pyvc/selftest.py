"""Guard G-M: contract-strength self-test (thorough tier).

For every function verified in full or slice mode a handful of semantic mutations is applied to
its body in a scratch copy of the source tree (never in /repo); the verifier must lose at least one
obligation on a mutated body.  The kill table goes into the evidence; a function whose contract
survives *every* mutation (and had at least MIN_MUTANTS of them) is reported as a checker error:
a proof that cannot tell the function from its mutants proves nothing about it.
"""
import ast
import copy
import json
import multiprocessing as mp
import os
import random
import shutil
import subprocess
import sys
import tempfile

MIN_MUTANTS = 4
HERE = os.path.dirname(os.path.dirname(os.path.abspath(__file__)))

CMP_SWAP = {ast.Lt: ast.LtE, ast.LtE: ast.Lt, ast.Gt: ast.GtE, ast.GtE: ast.Gt,
            ast.Eq: ast.NotEq, ast.NotEq: ast.Eq}


def _names(node):
    out = set()
    for n in ast.walk(node):
        if isinstance(n, ast.Name):
            out.add(n.id)
        elif isinstance(n, ast.Attribute):
            out.add(n.attr)
        elif isinstance(n, ast.keyword) and n.arg:
            out.add(n.arg)
    return out


def _relevant_statements(fn, focus):
    """ids of the nodes inside a simple statement (or a compound statement's header) that mentions
    one of the names in `focus` - a view of a function (slice / forwarding contract) states
    something about those names only, so only mutations touching them can be expected to be seen"""
    ok = set()
    for st in ast.walk(fn):
        if not isinstance(st, ast.stmt) or st is fn:
            continue
        if isinstance(st, (ast.For, ast.While, ast.If, ast.With, ast.Try)):
            heads = [getattr(st, 'test', None), getattr(st, 'iter', None), getattr(st, 'target', None)]
            heads = [h for h in heads if h is not None]
            if any(_names(h) & focus for h in heads):
                for h in heads:
                    ok.update(id(n) for n in ast.walk(h))
            continue
        if _names(st) & focus:
            ok.update(id(n) for n in ast.walk(st))
    return ok


def candidate_sites(fn, focus=None, callees=()):
    """(kind, node path index) for every mutable site of the function body; with `focus` (a set of
    names) only sites in statements mentioning one of them; `callees`: names of calls whose
    keyword arguments are mutation sites (forwarding views)"""
    sites = []
    relevant = _relevant_statements(fn, set(focus)) if focus else None
    for i, node in enumerate(ast.walk(fn)):
        if isinstance(node, ast.Call) and callees:
            f = node.func
            fname = f.id if isinstance(f, ast.Name) else (f.attr if isinstance(f, ast.Attribute) else None)
            if fname in callees or fname == 'Process':
                for k, kw in enumerate(node.keywords):
                    if kw.arg is not None and (not focus or kw.arg in focus):
                        sites.append((f'callarg{k}', i))
            continue
        if isinstance(node, ast.Dict) and callees and focus:
            # kwargs={...} dictionaries handed to multiprocessing.Process
            for k, key in enumerate(node.keys):
                if isinstance(key, ast.Constant) and key.value in focus:
                    sites.append((f'dictarg{k}', i))
            continue
        if relevant is not None and id(node) not in relevant:
            continue
        if isinstance(node, ast.Compare) and len(node.ops) == 1 and type(node.ops[0]) in CMP_SWAP:
            sites.append(('cmp', i))
        elif isinstance(node, ast.BinOp) and isinstance(node.op, (ast.Add, ast.Sub)) \
                and not _is_str_concat(node):
            sites.append(('arith', i))
        elif isinstance(node, ast.Constant) and isinstance(node.value, int) and not isinstance(node.value, bool) \
                and 0 <= node.value <= 16:
            sites.append(('const', i))
        elif isinstance(node, ast.BoolOp):
            sites.append(('boolop', i))
        elif isinstance(node, (ast.AugAssign,)):
            sites.append(('dropstmt', i))
        elif isinstance(node, ast.Expr) and isinstance(node.value, ast.Call) and \
                isinstance(node.value.func, ast.Attribute) and \
                node.value.func.attr in ('append', 'add', 'pop', 'sort', 'start', 'reverse', 'update'):
            sites.append(('dropstmt', i))
        elif isinstance(node, ast.Raise):
            sites.append(('dropraise', i))
    return sites


def _is_str_concat(node):
    for n in ast.walk(node):
        if isinstance(n, (ast.JoinedStr,)) or (isinstance(n, ast.Constant) and isinstance(n.value, str)):
            return True
    return False


def apply_mutation(fn, kind, index):
    fn = copy.deepcopy(fn)
    target = None
    for i, node in enumerate(ast.walk(fn)):
        if i == index:
            target = node
            break
    if target is None:
        return None, ''
    before = ast.unparse(target)[:70]
    if kind == 'cmp':
        target.ops = [CMP_SWAP[type(target.ops[0])]()]
    elif kind == 'arith':
        target.op = ast.Sub() if isinstance(target.op, ast.Add) else ast.Add()
    elif kind == 'const':
        target.value = target.value + 1
    elif kind == 'boolop':
        target.op = ast.Or() if isinstance(target.op, ast.And) else ast.And()
    elif kind.startswith('callarg'):
        k = int(kind[7:])
        kw = target.keywords[k]
        # a forwarded setting replaced by a constant / dropped: the callee no longer sees the caller's value
        if isinstance(kw.value, ast.Constant):
            return None, ''
        before = f"{kw.arg}={ast.unparse(kw.value)[:40]}"
        kw.value = ast.Constant(value=None)
        ast.fix_missing_locations(fn)
        return fn, f"callarg: `{before}` -> `{kw.arg}=None`"
    elif kind.startswith('dictarg'):
        k = int(kind[7:])
        if isinstance(target.values[k], ast.Constant):
            return None, ''
        before = f"{ast.unparse(target.keys[k])}: {ast.unparse(target.values[k])[:40]}"
        target.values[k] = ast.Constant(value=None)
        ast.fix_missing_locations(fn)
        return fn, f"dictarg: `{before}` -> None"
    elif kind in ('dropstmt', 'dropraise'):
        # replace the statement by `pass`
        for parent in ast.walk(fn):
            for fld in ('body', 'orelse', 'finalbody'):
                lst = getattr(parent, fld, None)
                if isinstance(lst, list) and target in lst:
                    lst[lst.index(target)] = ast.Pass()
                    ast.fix_missing_locations(fn)
                    return fn, f"{kind}: `{before}` -> pass"
        return None, ''
    ast.fix_missing_locations(fn)
    return fn, f"{kind}: `{before}` -> `{ast.unparse(target)[:70]}`"


def _run_mutant(args):
    qualname, modpath_rel, mutated_src, desc, timeout = args
    scr = tempfile.mkdtemp(prefix='verif_gm_', dir='/tmp')
    try:
        repo = os.environ.get('VERIF_REPO', '/repo')
        shutil.copytree(os.path.join(repo, 'src'), os.path.join(scr, 'src'),
                        ignore=shutil.ignore_patterns('*.egg-info', '__pycache__', 'data'))
        # the data package is large: link it instead of copying
        dsrc = os.path.join(repo, 'src', 'cell_type_mapper', 'data')
        if os.path.isdir(dsrc):
            os.symlink(dsrc, os.path.join(scr, 'src', 'cell_type_mapper', 'data'))
        with open(os.path.join(scr, modpath_rel), 'w') as f:
            f.write(mutated_src)
        env = dict(os.environ, VERIF_REPO=scr, PYTHONPATH=f"{HERE}:{scr}/src", VERIF_Z3_TIMEOUT_MS='6000')
        code = ("import sys, json; sys.path.insert(0, %r); import contracts; contracts.load_all();"
                "from pyvc.contracts import REGISTRY; from pyvc.verify import verify_function;"
                "r, _ = verify_function(REGISTRY.get(%r));"
                "bad = [o['id'] for o in r.obligations if o['verdict'] != 'proved'];"
                "print('GMRESULT ' + json.dumps(dict(status=r.status, bad=bad[:3], n=len(r.obligations))))"
                % (HERE, qualname))
        p = subprocess.run([sys.executable, '-c', code], env=env, capture_output=True, text=True,
                           timeout=timeout)
        line = [l for l in p.stdout.splitlines() if l.startswith('GMRESULT ')]
        if not line:
            return dict(function=qualname, mutation=desc, outcome='error', detail=p.stderr[-300:])
        r = json.loads(line[-1][9:])
        if r['status'] == 'ok' and not r['bad']:
            return dict(function=qualname, mutation=desc, outcome='survived')
        if r['status'] in ('unsupported', 'crash', 'contract-out-of-date'):
            return dict(function=qualname, mutation=desc, outcome='not-analysable', detail=r['status'])
        return dict(function=qualname, mutation=desc, outcome='killed',
                    detail=(r['bad'] or [r['status']])[0])
    except subprocess.TimeoutExpired:
        return dict(function=qualname, mutation=desc, outcome='killed', detail='timeout (undecided)')
    except BaseException as e:     # noqa
        return dict(function=qualname, mutation=desc, outcome='error', detail=f"{type(e).__name__}: {e}")
    finally:
        shutil.rmtree(scr, ignore_errors=True)


def run(contracts, seed, jobs, per_function=5, timeout=240):
    """contracts: list of Contract objects (non-trusted, full/slice).  returns (rows, errors)"""
    from .contracts import find_function
    rng = random.Random(seed)
    work = []
    for c in contracts:
        try:
            info, fn, cls = find_function(c.qualname)
        except Exception:
            continue
        fwd = (c.ghost or {}).get('forward') or {}
        focus = None
        if fwd:
            focus = set(x for v in fwd.values() for x in v) | set(fwd)
        elif c.mode == 'slice' and c.tracked:
            focus = set(c.tracked)
        sites = candidate_sites(fn, focus, set(fwd))
        rng.shuffle(sites)
        if fwd:
            # call-argument mutations first: they are what a forwarding view is about
            sites.sort(key=lambda kv: 0 if kv[0].startswith(('callarg', 'dictarg')) else 1)
        chosen = 0
        seen_desc = set()
        for kind, idx in sites:
            if chosen >= per_function:
                break
            mfn, desc = apply_mutation(fn, kind, idx)
            if mfn is None or desc in seen_desc:
                continue
            seen_desc.add(desc)
            tree = copy.deepcopy(info['tree'])
            replaced = False
            for parent in ast.walk(tree):
                body = getattr(parent, 'body', None)
                if isinstance(body, list):
                    for k, n in enumerate(body):
                        if isinstance(n, ast.FunctionDef) and n.name == fn.name and n.lineno == fn.lineno:
                            body[k] = mfn
                            replaced = True
            if not replaced:
                continue
            try:
                src = ast.unparse(tree)
            except Exception:
                continue
            rel = os.path.relpath(info['path'], os.environ.get('VERIF_REPO', '/repo'))
            work.append((c.qualname, rel, src, desc, timeout))
            chosen += 1
    if not work:
        return [], []
    ctx = mp.get_context('fork')
    with ctx.Pool(processes=max(1, min(jobs, len(work)))) as pool:
        rows = pool.map(_run_mutant, work, chunksize=1)
    errors = []
    by_fn = {}
    for r in rows:
        by_fn.setdefault(r['function'], []).append(r)
    for fn, rs in by_fn.items():
        analysable = [r for r in rs if r['outcome'] in ('killed', 'survived')]
        if len(analysable) >= MIN_MUTANTS and not any(r['outcome'] == 'killed' for r in analysable):
            errors.append(f"{fn}: guard G-M: contract survives all {len(analysable)} mutations of the body "
                          f"({'; '.join(r['mutation'] for r in analysable[:3])})")
    return rows, errors
