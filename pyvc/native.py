"""Native rendering of contracts: the same clause text is executed on the real function.

Used for (i) replaying / searching counter-examples when an obligation fails, (ii) the G-X
cross-check (contract and encoding agree with CPython on generated inputs), (iii) the bounded
stand-ins (functions whose bodies are outside the generator's reach).
"""
import ast
import copy
import importlib
import itertools
import random
import types as pytypes

from . import types as T
from .contracts import Contract


# ---- spec helpers, natively -------------------------------------------------------------------
def implies(a, b):
    return (not a) or bool(b)


def iff(a, b):
    return bool(a) == bool(b)


def dupfree(xs):
    xs = list(xs)
    for i in range(len(xs)):
        for j in range(i + 1, len(xs)):
            if _eq(xs[i], xs[j]):
                return False
    return True


def sorted_strict(xs):
    xs = list(xs)
    return all(xs[i] < xs[i + 1] for i in range(len(xs) - 1))


def sorted_nondecr(xs):
    xs = list(xs)
    return all(xs[i] <= xs[i + 1] for i in range(len(xs) - 1))


def is_none(x):
    return x is None


def some(x):
    return x


def _eq(a, b):
    try:
        import numpy as np
        if isinstance(a, np.ndarray) or isinstance(b, np.ndarray):
            return np.array_equal(a, b)
    except Exception:
        pass
    return a == b


# clauses mentioning these ghost functions have no native rendering (proof only)
PROOF_ONLY = ('final_code(', 'live_under(', 'sanitized(')


class Rec(pytypes.SimpleNamespace):
    """native stand-in for an object record (attribute access, structural equality)"""

    def __hash__(self):
        return id(self)


HELPERS = dict(implies=implies, iff=iff, dupfree=dupfree, sorted_strict=sorted_strict,
               sorted_nondecr=sorted_nondecr, is_none=is_none, some=some)


class _OldRewriter(ast.NodeTransformer):
    def __init__(self, params):
        self.params = set(params)
        self.inside = 0

    def visit_Call(self, node):
        if isinstance(node.func, ast.Name) and node.func.id == 'old' and len(node.args) == 1:
            self.inside += 1
            inner = self.visit(node.args[0])
            self.inside -= 1
            return inner
        return self.generic_visit(node)

    def visit_Name(self, node):
        if self.inside and node.id in self.params:
            return ast.copy_location(ast.Name(id='__old_' + node.id, ctx=ast.Load()), node)
        return node


def compile_clause(text, params):
    tree = ast.parse(text.strip(), mode='eval')
    tree = _OldRewriter(params).visit(tree)
    ast.fix_missing_locations(tree)
    return compile(tree, '<clause>', 'eval')


def eval_clause(text, params, env_now, env_old, extra=None):
    code = compile_clause(text, params)
    env = dict(HELPERS)
    from . import prims as _prims
    env.update(_prims.NATIVE_SPEC)
    if extra:
        env.update(extra)
    env.update(env_now)
    for k, v in env_old.items():
        env['__old_' + k] = v
    return bool(eval(code, env))


# ---- generic generators -----------------------------------------------------------------------
NAME_POOL = ['a', 'b', 'c', 'd', 'e', 'f', 'g', 'h']


def gen_value(ty, rng, size=4, record_factory=None):
    k = ty[0]
    if k == 'int':
        return rng.choice([0, 1, 2, 3, -1, rng.randint(-5, 10)])
    if k == 'real':
        return rng.choice([0.0, 1.0, 0.5, -1.5, rng.uniform(-3, 3)])
    if k == 'bool':
        return rng.random() < 0.5
    if k == 'name':
        return rng.choice(NAME_POOL[:max(2, size + 1)])
    if k == 'none':
        return None
    if k == 'opt':
        return None if rng.random() < 0.35 else gen_value(ty[1], rng, size, record_factory)
    if k == 'list':
        return [gen_value(ty[1], rng, size, record_factory) for _ in range(rng.randint(0, size))]
    if k == 'arr':
        import numpy as np
        n = rng.randint(0, size)
        if ty[1] == T.REAL:
            return np.array([gen_value(ty[1], rng, size) for _ in range(n)], dtype=float)
        if ty[1] == T.BOOL:
            return np.array([gen_value(ty[1], rng, size) for _ in range(n)], dtype=bool)
        return np.array([gen_value(ty[1], rng, size) for _ in range(n)], dtype=int)
    if k == 'set':
        return set(gen_value(ty[1], rng, size, record_factory) for _ in range(rng.randint(0, size)))
    if k == 'dict':
        return {gen_value(ty[1], rng, size, record_factory): gen_value(ty[2], rng, size, record_factory)
                for _ in range(rng.randint(0, size))}
    if k == 'tuple':
        return tuple(gen_value(t, rng, size, record_factory) for t in ty[1])
    if k == 'rec':
        if record_factory and ty[1] in record_factory:
            return record_factory[ty[1]](rng, size)
        flds = T.RECORDS[ty[1]]
        if '__rest__' in flds:
            d = {f: gen_value(t, rng, size, record_factory) for f, t in flds.items() if f != '__rest__'}
            d.update(gen_value(flds['__rest__'], rng, size, record_factory))
            return d
        return Rec(**{f: gen_value(t, rng, size, record_factory) for f, t in flds.items()})
    raise ValueError(f"no generator for {T.show(ty)}")


def resolve(qualname):
    qualname = qualname.split('#')[0]      # 'pkg.mod.func#view': a second contract of the same function
    parts = qualname.split('.')
    for cut in range(len(parts), 0, -1):
        try:
            mod = importlib.import_module('.'.join(parts[:cut]))
        except ImportError:
            continue
        obj = mod
        for p in parts[cut:]:
            obj = getattr(obj, p)
        return obj
    raise ImportError(qualname)


def exc_matches(exc, name):
    for klass in type(exc).__mro__:
        if klass.__name__ == name:
            return True
    return False


class NativeFailure:
    def __init__(self, clause, kind, args, observed):
        self.clause = clause
        self.kind = kind
        self.args = args
        self.observed = observed

    def to_dict(self):
        return dict(clause=self.clause, kind=self.kind, args=safe_repr(self.args),
                    observed=safe_repr(self.observed))


def safe_repr(x, limit=2000):
    try:
        r = repr(x)
    except Exception as e:
        r = f"<unrepresentable {type(x).__name__}: {e}>"
    return r[:limit]


def run_case(c, fn, args, params, extra_env=None, ignore_known=False):
    """call the real function on args (dict), check the contract natively.
    returns (status, failures) with status in 'ok' | 'rejected' (requires false)"""
    env_old = copy.deepcopy(args)
    for text in c.requires:
        try:
            if not eval_clause(text, params, args, env_old, extra_env):
                return 'rejected', []
        except Exception:
            return 'rejected', []
    if not ignore_known:
        for kf in getattr(c, 'known_findings', []):
            if kf.get('exclude'):
                try:
                    if eval_clause(kf['exclude'], params, args, env_old, extra_env):
                        return 'known-finding-class', []
                except Exception:
                    pass
    call_args = args
    failures = []
    raised = None
    result = None
    try:
        result = fn(**call_args)
    except BaseException as e:     # noqa
        if isinstance(e, (KeyboardInterrupt, SystemExit)):
            raise
        raised = e
    raises = c.parsed_raises()
    if raised is not None:
        ok = False
        for exc, (mode, text, expr) in raises.items():
            if exc_matches(raised, exc):
                ok = True
                if expr is not None:
                    try:
                        holds = eval_clause(text, params, env_old, env_old, extra_env)
                    except Exception as e2:
                        holds = False
                    if not holds:
                        failures.append(NativeFailure(f"raises {exc} only if {text}", 'raises',
                                                      env_old, f"{type(raised).__name__}: {raised}"))
                break
        if not ok:
            failures.append(NativeFailure("no unlisted exception escapes", 'unexpected-exception',
                                          env_old, f"{type(raised).__name__}: {raised}"))
        return 'ok', failures
    for exc, (mode, text, expr) in raises.items():
        if mode == 'iff' and expr is not None:
            try:
                if eval_clause(text, params, env_old, env_old, extra_env):
                    failures.append(NativeFailure(f"must raise {exc} when {text}", 'must-raise',
                                                  env_old, f"returned {safe_repr(result, 300)}"))
            except Exception:
                pass
    for text in c.must_raise:
        try:
            if eval_clause(text, params, env_old, env_old, extra_env):
                failures.append(NativeFailure(f"must raise when {text}", 'must-raise', env_old,
                                              f"returned {safe_repr(result, 300)}"))
        except Exception:
            pass
    env_now = dict(args)
    env_now['result'] = result
    for text in c.ensures:
        if any(w in text for w in PROOF_ONLY):
            continue
        try:
            ok = eval_clause(text, params, env_now, env_old, extra_env)
        except Exception as e:
            failures.append(NativeFailure(f"ensures {text}", 'ensures-error', env_old,
                                          f"clause raised {type(e).__name__}: {e}; result={safe_repr(result, 300)}"))
            continue
        if not ok:
            failures.append(NativeFailure(f"ensures {text}", 'ensures', env_old,
                                          f"result={safe_repr(result, 600)}"))
    return 'ok', failures
