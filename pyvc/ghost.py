"""Ghost state and trusted contracts of stateful primitives (processes, files, scratch).

The handlers here are the *trusted base* for C14/C19/C20-style obligations (A-PROC, A-TMP):
what `Process.start()`, `tempfile.mkdtemp`, `_clean_up`, `h5py.File`, ... do to the ghost
variables declared by a contract.
"""
import ast
import z3

from . import types as T
from .values import (SymVal, Unsupported, fresh, fresh_name, const_int, const_bool, NONEVAL,
                     wf, seq_len, seq_at)
from .engine import truth, coerce
from .symexec import select, read_ref, write_ref

METHODS = {}


def method(cls, name):
    def deco(f):
        METHODS[(cls, name)] = f
        return f
    return deco


def with_enter(ex, state, item, node):
    """enter a `with` item; returns a token for with_exit"""
    ev = ex.ev
    ctx = ex.ctx
    ce = item.context_expr
    try:
        v = ev.eval(state, ce)
    except Unsupported:
        if not ctx.lenient:
            raise
        v = ev.opaque(state, ce, 'context manager')
    if item.optional_vars is not None:
        if v.ty[0] == 'rec' and (v.ty[1], '__enter__') in METHODS:
            v = METHODS[(v.ty[1], '__enter__')](ev, state, node, v, None)
        ex.assign_target(item.optional_vars, v, state, node)
    return v


def with_exit(ex, state, token, node):
    return None


# ---------------------------------------------------------------------------------------------
# processes (A-PROC)
# ---------------------------------------------------------------------------------------------
from .prims import qualified, spec_function   # noqa: E402
from .values import set_has, set_add, set_card  # noqa: E402

FINAL_CODE = z3.Function('final_code', z3.IntSort(), z3.IntSort())


@spec_function('final_code', native=None)
def s_final_code(ev, state, node):
    """exit code a process (identified by pid) ends with; != 0 for every abnormal termination"""
    v = ev.eval(state, node.args[0])
    return SymVal(T.INT, FINAL_CODE(v.term))


def _ghost_ref(state, name):
    return state.env.get(name)


@qualified('multiprocessing.Process')
def q_process(ev, state, node):
    """a new, not yet started process handle: fresh pid, no exit code"""
    if 'Proc' not in T.RECORDS:
        raise Unsupported("record Proc not declared")
    for k in node.keywords:
        try:
            ev.eval(state, k.value)
        except Unsupported:
            if not ev.ctx.lenient:
                raise
    ty = T.TRec('Proc')
    p = fresh(ty, 'proc')
    pid = T.acc(ty, 'pid')(p.term)
    state.assume(T.opt_is_none(T.TOpt(T.INT), T.acc(ty, 'exitcode')(p.term)))
    ref = _ghost_ref(state, 'started')
    if ref is not None:
        started = read_ref(state, ref)
        state.assume(z3.Not(set_has(started)[pid]))
    return p


@method('Proc', 'start')
def m_start(ev, state, node, recv, ref):
    ty = recv.ty
    pid = T.acc(ty, 'pid')(recv.term)
    g = _ghost_ref(state, 'started')
    if g is not None:
        started = read_ref(state, g)
        ev.ctx.oblige(state, z3.Not(set_has(started)[pid]), 'process-started-twice', node,
                      'a process is started at most once')
        write_ref(state, g, set_add(started, pid))
    return NONEVAL


@method('Proc', 'join')
def m_join(ev, state, node, recv, ref):
    return NONEVAL


# ---------------------------------------------------------------------------------------------
# scratch space (A-TMP), log and taint ghost state used by the run_mapping slices (C14.c, C19.a, C20.a)
# ---------------------------------------------------------------------------------------------
from .values import set_remove, empty_set, literal  # noqa: E402
from .engine import TRUTHY  # noqa: E402

SANITIZED = z3.Function('sanitized', T.OpaqueSort, z3.BoolSort())
SUCCESS_LINE = "MAPPING FROM SPECIFIED MARKERS RAN SUCCESSFULLY"


def _ghost_get(state, name):
    ref = state.env.get(name)
    return (ref, read_ref(state, ref)) if ref is not None else (None, None)


def _as_opt_name(ev, state, node):
    v = ev.eval(state, node)
    return v


@qualified('tempfile.mkdtemp')
def q_mkdtemp(ev, state, node):
    """a fresh directory: its name is not live and was never handed out before (A-TMP)"""
    for k in node.keywords:
        try:
            ev.eval(state, k.value)
        except Unsupported:
            if not ev.ctx.lenient:
                raise
    return _new_scratch_entry(ev, state, node, 'tmpdir')


def _dir_argument(ev, state, node):
    for k in node.keywords:
        if k.arg == 'dir':
            try:
                return ev.eval(state, k.value)
            except Unsupported:
                return None
    return None


def _new_scratch_entry(ev, state, node, hint):
    """fresh name (A-TMP).  It becomes a live scratch entry unless it is created inside a directory
    that is itself a live entry of this call (then removing that directory removes it too)."""
    n = fresh(T.NAME, hint)
    ref, live = _ghost_get(state, 'live')
    if ref is None:
        return n
    state.assume(z3.Not(set_has(live)[n.term]))
    d = _dir_argument(ev, state, node)
    added = set_add(live, n.term)
    if d is not None and d.ty == T.NAME:
        inside = set_has(live)[d.term]
        write_ref(state, ref, SymVal(live.ty, z3.If(inside, live.term, added.term)))
    elif d is not None and d.ty == T.TOpt(T.NAME):
        inner = T.acc(d.ty, 'val')(d.term)
        inside = z3.And(z3.Not(T.opt_is_none(d.ty, d.term)), set_has(live)[inner])
        write_ref(state, ref, SymVal(live.ty, z3.If(inside, live.term, added.term)))
    else:
        write_ref(state, ref, added)
    return n


@qualified('cell_type_mapper.utils.utils.mkstemp_clean')
def q_mkstemp_clean(ev, state, node):
    """a fresh file name under `dir` (utils.py:81: tempfile.mkstemp, handle closed, file removed
    unless asked otherwise; callers write it later)"""
    for k in node.keywords:
        if k.arg != 'dir':
            try:
                ev.eval(state, k.value)
            except Unsupported:
                if not ev.ctx.lenient:
                    raise
    return _new_scratch_entry(ev, state, node, 'tmpfile')


@qualified('cell_type_mapper.utils.utils._clean_up')
def q_clean_up(ev, state, node):
    """removes the path and everything under it; None is a no-op"""
    v = ev.eval(state, node.args[0] if node.args else node.keywords[0].value)
    ref, live = _ghost_get(state, 'live')
    if ref is None:
        return NONEVAL
    if v.ty == T.NONE:
        return NONEVAL
    if v.ty == T.NAME:
        write_ref(state, ref, set_remove(live, v.term))
        return NONEVAL
    if v.ty == T.TOpt(T.NAME):
        inner = T.acc(v.ty, 'val')(v.term)
        removed = set_remove(live, inner)
        isn = T.opt_is_none(v.ty, v.term)
        write_ref(state, ref, SymVal(live.ty, z3.If(isn, live.term, removed.term)))
        return NONEVAL
    raise Unsupported(f"_clean_up of {T.show(v.ty)}")


@spec_function('sanitized', native=None)
def s_sanitized(ev, state, node):
    v = ev.eval(state, node.args[0])
    if v.ty != T.OPAQUE:
        raise Unsupported("sanitized() of a non-opaque value")
    return SymVal(T.BOOL, SANITIZED(v.term))


@qualified('cell_type_mapper.utils.cloud_utils.sanitize_paths')
def q_sanitize_paths(ev, state, node):
    """trusted contract of the sanitiser (its body is checked in the bounded layer, C20.c)"""
    ev.eval(state, node.args[0])
    r = fresh(T.OPAQUE, 'sanitized')
    state.assume(SANITIZED(r.term))
    return r


def _declare_log():
    if 'Log' not in T.RECORDS:
        T.record('Log', log='Opaque')


@qualified('cell_type_mapper.cli.cli_log.CommandLog')
def q_command_log(ev, state, node):
    _declare_log()
    return fresh(T.TRec('Log'), 'log')


def _bump(state, name):
    ref, v = _ghost_get(state, name)
    if ref is not None:
        write_ref(state, ref, SymVal(T.INT, v.term + 1))


def _log_msg(which):
    def h(ev, state, node, recv, ref):
        # every message is appended to log.log (a fresh, unsanitised value)
        is_success = False
        if node.args and isinstance(node.args[0], ast.Constant) and node.args[0].value == SUCCESS_LINE:
            is_success = True
        else:
            for a in node.args:
                try:
                    ev.eval(state, a)
                except Unsupported:
                    if not ev.ctx.lenient:
                        raise
        if is_success:
            _bump(state, 'success_logged')
        if ref is not None:
            nv = fresh(T.TRec('Log'), 'log')
            write_ref(state, ref, nv)
        return NONEVAL
    return h


for _m in ('info', 'warn', 'add_msg', 'benchmark', 'env', 'log_software_env'):
    method('Log', _m)(_log_msg(_m))


@method('Log', 'write_log')
def m_write_log(ev, state, node, recv, ref):
    """log file written; it is sanitised exactly when the cloud_safe argument is truthy"""
    cs = None
    for k in node.keywords:
        if k.arg == 'cloud_safe':
            cs = ev.eval(state, k.value)
    if len(node.args) >= 2:
        cs = ev.eval(state, node.args[1])
    _bump(state, 'log_written')
    ref_f, v = _ghost_get(state, 'log_file_safe')
    if ref_f is not None:
        from .engine import truth as _truth
        t = _truth(cs) if cs is not None else z3.BoolVal(False)
        write_ref(state, ref_f, SymVal(T.BOOL, t))
    return NONEVAL


@qualified('cell_type_mapper.cli.from_specified_markers._run_mapping')
def q__run_mapping(ev, state, node):
    """trusted view of the mapping proper from its caller: it may raise; when it returns, the blob
    holds the result records (its own clauses are proved / bounded under C01, C14.b, C15)"""
    from .symexec import PendingRaise
    from .values import dict_dom, wf as _wf
    for k in node.keywords:
        try:
            ev.eval(state, k.value)
        except Unsupported:
            if not ev.ctx.lenient:
                raise
    b = z3.Bool(fresh_name('run_mapping_raised'))
    ev.ctx.pending.append(PendingRaise('Exception', [b],
                                       on_raise=lambda st: _bump(st, 'mapping_called')))
    _bump(state, 'mapping_called')
    state.assume(z3.Not(b))
    ty = T.TDict(T.NAME, T.OPAQUE)
    r = fresh(ty, 'mapping_output')
    state.assume(*_wf(r))
    for key in ('results', 'marker_genes', 'taxonomy_tree', 'n_unmapped_genes'):
        state.assume(dict_dom(r)[literal(key).term])
    _bump(state, 'mapping_returned')
    return r


@method('Proc', 'terminate')
def m_terminate(ev, state, node, recv, ref):
    return NONEVAL


# ---- what a file receives (C20: CommandLog.write_log) ------------------------------------------
from . import prims as _prims  # noqa: E402


def _m_file_write(ev, state, node, recv):
    """out_file.write(text): ghost `unsafe_writes` counts writes of text that is not sanitised"""
    v = ev.eval(state, node.args[0])
    ref, cur = _ghost_get(state, 'unsafe_writes')
    if ref is not None:
        if v.ty == T.OPAQUE:
            safe = SANITIZED(v.term)
        elif v.meta and v.meta[0] == 'const':
            safe = z3.BoolVal(True)
        else:
            safe = z3.BoolVal(False)
        write_ref(state, ref, SymVal(T.INT, cur.term + z3.If(safe, 0, 1)))
    return NONEVAL


_prims.OPAQUE_METHODS.setdefault('write', _m_file_write)


def _m_str_join(ev, state, node, recv):
    """'sep'.join(xs): sanitised iff xs is (the separator is a literal)"""
    v = ev.eval(state, node.args[0])
    r = fresh(T.OPAQUE, 'joined')
    if v.ty == T.OPAQUE:
        state.assume(SANITIZED(r.term) == SANITIZED(v.term))
    return r


_prims.NAME_METHODS.setdefault('join', _m_str_join)
