"""Ghost state and trusted contracts of stateful primitives (processes, files, scratch).

The handlers here are the *trusted base* for C14/C19/C20-style obligations (A-PROC, A-TMP):
what `Process.start()`, `tempfile.mkdtemp`, `_clean_up`, `h5py.File`, ... do to the ghost
variables declared by a contract.
"""
import ast
import z3

from . import types as T
from .values import (SymVal, Unsupported, fresh, fresh_name, const_int, const_bool, NONEVAL,
                     wf, seq_len, seq_at)
from .engine import truth, coerce
from .symexec import select, read_ref, write_ref

METHODS = {}


def method(cls, name):
    def deco(f):
        METHODS[(cls, name)] = f
        return f
    return deco


def with_enter(ex, state, item, node):
    """enter a `with` item; returns a token for with_exit"""
    ev = ex.ev
    ctx = ex.ctx
    ce = item.context_expr
    try:
        v = ev.eval(state, ce)
    except Unsupported:
        if not ctx.lenient:
            raise
        v = ev.opaque(state, ce, 'context manager')
    if item.optional_vars is not None:
        if v.ty[0] == 'rec' and (v.ty[1], '__enter__') in METHODS:
            v = METHODS[(v.ty[1], '__enter__')](ev, state, node, v, None)
        ex.assign_target(item.optional_vars, v, state, node)
    return v


def with_exit(ex, state, token, node):
    return None
