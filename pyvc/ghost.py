"""Ghost state and trusted contracts of stateful primitives (processes, files, scratch).

The handlers here are the *trusted base* for C14/C19/C20-style obligations (A-PROC, A-TMP):
what `Process.start()`, `tempfile.mkdtemp`, `_clean_up`, `h5py.File`, ... do to the ghost
variables declared by a contract.
"""
import ast
import z3

from . import types as T
from .values import (SymVal, Unsupported, fresh, fresh_name, const_int, const_bool, NONEVAL,
                     wf, seq_len, seq_at)
from .engine import truth, coerce
from .symexec import select, read_ref, write_ref

METHODS = {}


def method(cls, name):
    def deco(f):
        METHODS[(cls, name)] = f
        return f
    return deco


def with_enter(ex, state, item, node):
    """enter a `with` item; returns a token for with_exit"""
    ev = ex.ev
    ctx = ex.ctx
    ce = item.context_expr
    try:
        v = ev.eval(state, ce)
    except Unsupported:
        if not ctx.lenient:
            raise
        v = ev.opaque(state, ce, 'context manager')
    if item.optional_vars is not None:
        if v.ty[0] == 'rec' and (v.ty[1], '__enter__') in METHODS:
            v = METHODS[(v.ty[1], '__enter__')](ev, state, node, v, None)
        ex.assign_target(item.optional_vars, v, state, node)
    return v


def with_exit(ex, state, token, node):
    return None


# ---------------------------------------------------------------------------------------------
# processes (A-PROC)
# ---------------------------------------------------------------------------------------------
from .prims import qualified, spec_function   # noqa: E402
from .values import set_has, set_add, set_card  # noqa: E402

FINAL_CODE = z3.Function('final_code', z3.IntSort(), z3.IntSort())


@spec_function('final_code', native=None)
def s_final_code(ev, state, node):
    """exit code a process (identified by pid) ends with; != 0 for every abnormal termination"""
    v = ev.eval(state, node.args[0])
    return SymVal(T.INT, FINAL_CODE(v.term))


def _ghost_ref(state, name):
    return state.env.get(name)


@qualified('multiprocessing.Process')
def q_process(ev, state, node):
    """a new, not yet started process handle: fresh pid, no exit code"""
    if 'Proc' not in T.RECORDS:
        raise Unsupported("record Proc not declared")
    for k in node.keywords:
        try:
            ev.eval(state, k.value)
        except Unsupported:
            if not ev.ctx.lenient:
                raise
    ty = T.TRec('Proc')
    p = fresh(ty, 'proc')
    pid = T.acc(ty, 'pid')(p.term)
    state.assume(T.opt_is_none(T.TOpt(T.INT), T.acc(ty, 'exitcode')(p.term)))
    ref = _ghost_ref(state, 'started')
    if ref is not None:
        started = read_ref(state, ref)
        state.assume(z3.Not(set_has(started)[pid]))
    return p


@method('Proc', 'start')
def m_start(ev, state, node, recv, ref):
    ty = recv.ty
    pid = T.acc(ty, 'pid')(recv.term)
    g = _ghost_ref(state, 'started')
    if g is not None:
        started = read_ref(state, g)
        ev.ctx.oblige(state, z3.Not(set_has(started)[pid]), 'process-started-twice', node,
                      'a process is started at most once')
        write_ref(state, g, set_add(started, pid))
    return NONEVAL


@method('Proc', 'join')
def m_join(ev, state, node, recv, ref):
    return NONEVAL
