"""Sidecar contract registry.

A contract is attached to the qualified name of a function in /repo; the function's source is
re-read from disk every time the contract is used (fn_node), never cached across runs.
"""
import ast
import os
from . import types as T

REPO = os.environ.get('VERIF_REPO', '/repo')
SRC_ROOT = os.path.join(REPO, 'src')


class ContractError(Exception):
    """contract refers to something that no longer exists (exit 2: contract-out-of-date)"""


class DynamicLoops(dict):
    """loop ordinal -> invariants computed from the *current* source by role (not by a fixed ordinal):
    exempt from the loop-shape fingerprint"""


def loop_shape(fn):
    """pre-order sequence of the loops of a function with their nesting depth, e.g. 'F0 F1 W1 F0'
    (nested function definitions and lambdas excluded).  Invariants are keyed by loop ordinal: if this
    shape differs from the one the contract was written against, the contract is out of date."""
    out = []

    def walk(node, depth):
        for ch in ast.iter_child_nodes(node):
            if isinstance(ch, (ast.FunctionDef, ast.Lambda)):
                continue
            if isinstance(ch, (ast.For, ast.While)):
                out.append(('F' if isinstance(ch, ast.For) else 'W') + str(depth))
                walk(ch, depth + 1)
            else:
                walk(ch, depth)
    walk(fn, 0)
    return ' '.join(out)


_MODULE_CACHE = {}


def module_path(modname):
    p = os.path.join(SRC_ROOT, *modname.split('.'))
    if os.path.isdir(p):
        return os.path.join(p, '__init__.py')
    return p + '.py'


def load_module(modname):
    """parse a module of the repository; returns dict(name, path, tree, imports, functions,
    classes, constants)"""
    if modname in _MODULE_CACHE:
        return _MODULE_CACHE[modname]
    path = module_path(modname)
    if not os.path.exists(path):
        raise ContractError(f"module {modname} not found at {path}")
    with open(path) as f:
        src = f.read()
    tree = ast.parse(src)
    imports = {}
    functions = {}
    classes = {}
    constants = {}
    for node in tree.body:
        if isinstance(node, ast.Import):
            for a in node.names:
                imports[a.asname or a.name.split('.')[0]] = a.name if a.asname else a.name.split('.')[0]
        elif isinstance(node, ast.ImportFrom):
            base = node.module or ''
            if node.level:
                pkg = modname.split('.')[:-node.level]
                base = '.'.join(pkg + ([node.module] if node.module else []))
            for a in node.names:
                imports[a.asname or a.name] = base + '.' + a.name
        elif isinstance(node, ast.FunctionDef):
            functions[node.name] = node
        elif isinstance(node, ast.ClassDef):
            classes[node.name] = node
        elif isinstance(node, ast.Assign) and len(node.targets) == 1 and isinstance(node.targets[0], ast.Name):
            constants[node.targets[0].id] = node.value
        elif isinstance(node, ast.Try):
            # guarded imports (torch): names stay unknown
            pass
    info = dict(name=modname, path=path, tree=tree, imports=imports, functions=functions,
                classes=classes, constants=constants, source=src)
    _MODULE_CACHE[modname] = info
    return info


def find_function(qualname):
    """qualname: package.module.func or package.module.Class.method -> (module_info, FunctionDef, class or None)"""
    qualname = qualname.split('#')[0]      # 'pkg.mod.func#view' : several contracts (views) of one function
    parts = qualname.split('.')
    for cut in range(len(parts) - 1, 0, -1):
        modname = '.'.join(parts[:cut])
        try:
            path = module_path(modname)
        except Exception:
            continue
        if os.path.exists(path) and not os.path.isdir(path[:-3]):
            info = load_module(modname)
            rest = parts[cut:]
            if len(rest) == 1 and rest[0] in info['functions']:
                return info, info['functions'][rest[0]], None
            if len(rest) == 2 and rest[0] in info['classes']:
                for n in info['classes'][rest[0]].body:
                    if isinstance(n, ast.FunctionDef) and n.name == rest[1]:
                        return info, n, rest[0]
            raise ContractError(f"{qualname}: function not found in {path} (contract out of date)")
    raise ContractError(f"{qualname}: module not found (contract out of date)")


class Contract:
    def __init__(self, qualname, params=None, returns=None, requires=(), ensures=(), raises=None,
                 must_raise=(), mutates=(), returns_alias=None, loops=None, locals=None,
                 mode='full', tracked=(), properties=(), self_type=None, lemmas=(),
                 min_obligations=1, trusted=False, note='', unexpected_exceptions='obligation',
                 decreases=None, ghost=None, inline_asserts=None, skip=False,
                 native=None, assumptions=(), volatile=None, env_assumes=(), ensures_exc=(),
                 ensures_all=(), known_findings=()):
        self.qualname = qualname
        self.params = dict(params or {})
        self.returns = returns
        self.requires = list(requires)
        self.ensures = list(ensures)
        self.raises = dict(raises or {})
        self.must_raise = list(must_raise)
        self.mutates = list(mutates)
        self.returns_alias = returns_alias
        self.loops = loops if isinstance(loops, DynamicLoops) else dict(loops or {})
        self.locals = dict(locals or {})
        self.mode = mode
        self.tracked = list(tracked)
        self.properties = list(properties)
        self.self_type = self_type
        self.lemmas = list(lemmas)
        self.min_obligations = min_obligations
        self.trusted = trusted        # contract assumed, body not verified (external / out of reach)
        self.note = note
        self.unexpected_exceptions = unexpected_exceptions
        self.ghost = dict(ghost or {})
        self.inline_asserts = dict(inline_asserts or {})
        self.native = native
        self.volatile = dict(volatile or {})      # param -> [record fields whose value is volatile]
        self.env_assumes = list(env_assumes)      # assumptions about the environment (never asserted)
        self.ensures_exc = list(ensures_exc)      # post-conditions of every exceptional exit
        self.ensures_all = list(ensures_all)      # post-conditions of every exit, normal or exceptional
        # recorded genuine defects (must also be listed, status "open", in known_findings.json):
        # dict(id=..., exclude="<entry-state expr: the witness class>", witness=<kwargs dict or
        # callable() -> kwargs>, what="...").  The contract is proved / run outside the witness
        # class; the stored witness is replayed on every run.
        self.known_findings = [dict(k) for k in known_findings]
        self.assumptions = list(assumptions)
        self._parsed = {}

    def fn_node(self):
        return find_function(self.qualname)[1]

    def param_type(self, p):
        if p == 'self' and self.self_type:
            return T.parse_type(self.self_type)
        t = self.params.get(p)
        if t is None:
            return None
        return T.parse_type(t) if isinstance(t, str) else t

    def return_type(self):
        if self.returns is None:
            return None
        return T.parse_type(self.returns) if isinstance(self.returns, str) else self.returns

    def parsed(self, which):
        if which not in self._parsed:
            out = []
            for text in getattr(self, which):
                out.append((text, ast.parse(text.strip(), mode='eval').body))
            self._parsed[which] = out
        return self._parsed[which]

    def parsed_raises(self):
        if 'raises' not in self._parsed:
            out = {}
            for exc, spec in self.raises.items():
                mode = 'only_if'
                text = spec
                if isinstance(spec, tuple):
                    mode, text = spec
                expr = None if text in (True, None) else ast.parse(str(text).strip(), mode='eval').body
                out[exc] = (mode, str(text), expr)
            self._parsed['raises'] = out
        return self._parsed['raises']

    def loop_spec(self, ordinal):
        sp = self.loops.get(ordinal)
        if sp is None:
            return dict(inv=[], decreases=None)
        if isinstance(sp, (list, tuple)):
            sp = dict(inv=list(sp))
        return dict(inv=[(t, ast.parse(t.strip(), mode='eval').body) for t in sp.get('inv', [])],
                    decreases=sp.get('decreases'), modifies=sp.get('modifies'))


class Registry:
    def __init__(self):
        self.by_name = {}
        self.methods = {}

    def add(self, c):
        if c.qualname in self.by_name:
            raise ValueError(f"duplicate contract for {c.qualname}")
        self.by_name[c.qualname] = c
        parts = c.qualname.split('.')
        if c.self_type:
            self.methods[(c.self_type, parts[-1])] = c
        return c

    def get(self, name):
        return self.by_name.get(name)

    def get_method(self, cls, name):
        return self.methods.get((cls, name))

    def for_property(self, pid):
        return [c for c in self.by_name.values() if pid in c.properties]


REGISTRY = Registry()


def contract(qualname, **kw):
    return REGISTRY.add(Contract(qualname, **kw))
