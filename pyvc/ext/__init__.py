"""Extension modules: extra trusted primitives / spec functions, one file per area.
Every module in this package is imported when the contracts are loaded."""
import importlib
import pkgutil


def load_all():
    import pyvc.ext as pkg
    for m in sorted(pkgutil.iter_modules(pkg.__path__), key=lambda m: m.name):
        importlib.import_module('pyvc.ext.' + m.name)
