"""C18 interface area (reader side of the statistics file): trusted primitives.

Trusted base added here (assumptions about code *outside* the prover):

* A-STATSFILE  `h5py.File(path, 'r')` inside `read_raw_precomputed_stats` is the record
               `c18_file(path)` (type C18File) whose fields are the *decoded* datasets of the file:
                 col_names       JSON list of gene names        (List[Name])
                 cluster_to_row  JSON table leaf name -> row    (Dict[Name,Int])
                 n_cells         1-D integer dataset            (Arr[Int])
                 every other dataset name -> a 2-D matrix       (rest: Dict[Name,Arr2[Real]]; only
                                 'sum','sumsq','gt0','gt1','ge1' are ever read - that is the layout
                                 `_create_empty_stats_file` writes; integer counts are read as reals)
               The record is a function of the path (the file is opened read-only and is not
               modified while it is read).  The three fixed fields are always present in the model:
               a file without them makes the real function raise (KeyError / RuntimeError), and the
               contracts speak about normal returns only.
* A-JSON       `json.loads(ds[()].decode('utf-8'))` of a JSON dataset is the decoded value, i.e. the
               record field itself.
* `f.keys()`   of that record: the fixed fields plus the keys of the rest.

The native twin `c18_file(path)` reads the real file with h5py into a dict of the same shape.
"""
import ast
import z3

from pyvc import types as T
from pyvc import prims, ghost
from pyvc.values import SymVal, Unsupported, canon, wf, literal, mk_set, dict_dom, fresh_name
from pyvc.engine import coerce
from pyvc.symexec import select
from pyvc.types import record

record('C18File', _rest='Dict[Name,Arr2[Real]]', n_cells='Arr[Int]', col_names='List[Name]',
       cluster_to_row='Dict[Name,Int]')
# raw_data of read_raw_precomputed_stats: dataset name -> array read ('n_cells' 1-D, the others 2-D)
record('C18Raw', _rest='Dict[Name,Arr2[Real]]', n_cells='Arr[Int]')
# per-leaf statistics: 'n_cells' scalar, every other key one row of a stored matrix
record('C18Leaf', _rest='Dict[Name,Arr[Real]]', n_cells='Int')
record('C18RawStats', gene_names='List[Name]', cluster_stats='Dict[Name,C18Leaf]')
# per-node statistics (aggregate_stats): 'mean' per gene; 'var', 'n_cells', 'gt0', 'gt1', 'ge1' are
# entries that callers may pop (read_precomputed_stats does): kept in the rest, abstracted
record('C18Node', _rest='Dict[Name,Opaque]', mean='Arr[Real]')
record('C18Stats', gene_names='List[Name]', cluster_stats='Dict[Name,C18Node]')
# the taxonomy as far as the readers look at it: three read-only properties of TaxonomyTree
record('C18Tree', as_leaves='Dict[Name,Dict[Name,List[Name]]]', all_leaves='List[Name]', leaf_level='Name')
# CellByGeneMatrix as returned by get_leaf_means
record('C18CBG', data='Arr2[Real]', gene_identifiers='List[Name]', cell_identifiers='List[Name]',
       normalization='Name')

FILE_TY = T.TRec('C18File')
LEAF_TY = T.TRec('C18Leaf')
LEAFD_TY = T.TDict(T.NAME, LEAF_TY)
NAMES_TY = T.TList(T.NAME)

H5_READERS = {
    'cell_type_mapper.diff_exp.score_utils.read_raw_precomputed_stats',
}


def _file_of(path_val):
    return canon(FILE_TY, 'c18_file', coerce(path_val, T.NAME).term)


_NATIVE_FILES = {}


def _c18_file_native(path):
    import json
    import os
    import h5py
    st = os.stat(path)
    key = (str(path), st.st_mtime_ns, st.st_size)
    if key not in _NATIVE_FILES:
        if len(_NATIVE_FILES) > 64:
            _NATIVE_FILES.clear()
        _NATIVE_FILES[key] = _read_file_native(path)
    return _NATIVE_FILES[key]


def _read_file_native(path):
    import json
    import h5py
    out = {}
    with h5py.File(path, 'r') as f:
        for k in f.keys():
            if k in ('col_names', 'cluster_to_row'):
                out[k] = json.loads(f[k][()].decode('utf-8'))
            elif k in ('n_cells', 'sum', 'sumsq', 'gt0', 'gt1', 'ge1'):
                out[k] = f[k][()]
    return out


@prims.spec_function('c18_file', native=_c18_file_native)
def s_c18_file(ev, state, node):
    p = ev.eval(state, node.args[0])
    ev.ctx.trusted_used.add('A-STATSFILE')
    return _file_of(p)


def _install_h5_reader():
    prev = prims.QUALIFIED.get('h5py.File')
    if getattr(prev, '_c18_reader', False):
        return

    def q_h5_file(ev, state, node):
        if (ev.ctx.qualname or '').split('#')[0] in H5_READERS and len(node.args) == 2 \
                and isinstance(node.args[1], ast.Constant) and node.args[1].value == 'r':
            path = ev.eval(state, node.args[0])
            if path.ty != T.NAME:
                raise Unsupported("h5py.File of an abstracted path")
            r = _file_of(path)
            state.assume(*wf(r))
            ev.ctx.trusted_used.add('A-STATSFILE')
            return r
        if prev is not None:
            return prev(ev, state, node)
        raise Unsupported("h5py.File (no model for this use)")
    for a in ('_mc_reader', '_mc_writer'):
        setattr(q_h5_file, a, getattr(prev, a, False))
    q_h5_file._c18_reader = True
    prims.QUALIFIED['h5py.File'] = q_h5_file


_install_h5_reader()


def _m_keys(ev, state, node, recv, ref):
    """f.keys(): the dataset names = fixed fields + keys of the rest"""
    flds = T.RECORDS[recv.ty[1]]
    rest = select(recv, ('fld', '__rest__'))
    ty = T.TSet(T.NAME)
    r = canon(ty, 'c18_keys', recv.term)
    k = z3.Int(fresh_name('kk'))
    from pyvc.values import set_has
    state.assume(*wf(r))
    state.assume(z3.ForAll([k], set_has(r)[k] == z3.Or(dict_dom(rest)[k],
                                                       *[k == literal(f).term for f in flds if f != '__rest__']),
                           patterns=[set_has(r)[k]]))
    return r


ghost.METHODS[('C18File', 'keys')] = _m_keys


def _peel_json_dataset(arg):
    """`X[()].decode('utf-8')` -> X (an expression denoting a JSON dataset), else None"""
    if not (isinstance(arg, ast.Call) and isinstance(arg.func, ast.Attribute) and arg.func.attr == 'decode'):
        return None
    inner = arg.func.value
    if not (isinstance(inner, ast.Subscript) and isinstance(inner.slice, ast.Tuple) and not inner.slice.elts):
        return None
    return inner.value


_prev_loads = prims.QUALIFIED.get('json.loads')


def q_json_loads(ev, state, node):
    """A-JSON: json.loads(f[name][()].decode('utf-8')) on a C18File field is the field's value"""
    if len(node.args) == 1 and not node.keywords:
        ds = _peel_json_dataset(node.args[0])
        if ds is not None and isinstance(ds, ast.Subscript) and isinstance(ds.slice, ast.Constant):
            base = ev.eval(state, ds.value)
            if base.ty == FILE_TY and ds.slice.value in ('col_names', 'cluster_to_row'):
                ev.ctx.trusted_used.add('A-JSON')
                return select(base, ('fld', ds.slice.value))
    if _prev_loads is not None:
        return _prev_loads(ev, state, node)
    raise Unsupported("json.loads (no model for this use)")


if not getattr(_prev_loads, '_c18', False):
    q_json_loads._c18 = True
    prims.QUALIFIED['json.loads'] = q_json_loads


# ---------------------------------------------------------------------------------------------
# sums over a population of leaves (uninterpreted folds, unfolded where a ground term is built)
#   c18_nsum(D, L, j)     = sum over i < j of D[L[i]]['n_cells']
#   c18_gsum(D, L, j, g)  = sum over i < j of D[L[i]]['sum'][g]
#   c18_fnsum(F, L, j)    = sum over i < j of F['n_cells'][F['cluster_to_row'][L[i]]]
#   c18_fgsum(F, L, j, g) = sum over i < j of F['sum'][F['cluster_to_row'][L[i]], g]
# D: Dict[Name,C18Leaf] (what read_raw_precomputed_stats returns), F: C18File, L: List[Name].
# Lemma AGREE (proved by induction on j by z3 when this module is imported, check_lemmas()):
#   if D[L[i]] holds the row of L[i] for every i < j, the D-sums equal the F-sums.
# ---------------------------------------------------------------------------------------------
from pyvc.values import seq_len, seq_at, dict_val   # noqa: E402
from pyvc.engine import to_int                       # noqa: E402

_IS, _RS = z3.IntSort(), z3.RealSort()
_DS, _LS, _FS = T.sort_of(LEAFD_TY), T.sort_of(NAMES_TY), T.sort_of(FILE_TY)
NSUM = z3.Function('c18_nsum', _DS, _LS, _IS, _IS)
GSUM = z3.Function('c18_gsum', _DS, _LS, _IS, _IS, _RS)
FNSUM = z3.Function('c18_fnsum', _FS, _LS, _IS, _IS)
FGSUM = z3.Function('c18_fgsum', _FS, _LS, _IS, _IS, _RS)
SUM_KEY = literal('sum').term

_l_at = T.acc(NAMES_TY, 'at')
_d_val = T.acc(LEAFD_TY, 'val')
_leaf_n = T.acc(LEAF_TY, 'n_cells')
_leaf_rest = T.acc(LEAF_TY, '__rest__')
_LREST_TY = T.RECORDS['C18Leaf']['__rest__']
_lrest_val = T.acc(_LREST_TY, 'val')
_vec_at = T.acc(T.TArr(T.REAL), 'at')
_f_n = T.acc(FILE_TY, 'n_cells')
_f_c2r = T.acc(FILE_TY, 'cluster_to_row')
_f_rest = T.acc(FILE_TY, '__rest__')
_FREST_TY = T.RECORDS['C18File']['__rest__']
_frest_val = T.acc(_FREST_TY, 'val')
_c2r_val = T.acc(T.TDict(T.NAME, T.INT), 'val')
_ivec_at = T.acc(T.TArr(T.INT), 'at')
_mat_at = T.acc(T.TArr2(T.REAL), 'at')


def _d_n(D, L, i):
    return _leaf_n(_d_val(D)[_l_at(L)[i]])


def _d_g(D, L, i, g):
    return _vec_at(_lrest_val(_leaf_rest(_d_val(D)[_l_at(L)[i]]))[SUM_KEY])[g]


def _f_row(F, L, i):
    return _c2r_val(_f_c2r(F))[_l_at(L)[i]]


def _f_nn(F, L, i):
    return _ivec_at(_f_n(F))[_f_row(F, L, i)]


def _f_g(F, L, i, g):
    return z3.Select(_mat_at(_frest_val(_f_rest(F))[SUM_KEY]), _f_row(F, L, i), g)


def _unfold(fn, term, X, L, j):
    """definition of an integer-indexed fold at the ground index j (both directions)"""
    return [fn(X, L, 0) == 0,
            z3.Implies(j > 0, fn(X, L, j) == fn(X, L, j - 1) + term(X, L, j - 1)),
            z3.Implies(j >= 0, fn(X, L, j + 1) == fn(X, L, j) + term(X, L, j))]


def _unfold_g(fn, term, X, L, j):
    g = z3.Int(fresh_name('ug'))
    return [z3.ForAll([g], fn(X, L, 0, g) == 0, patterns=[fn(X, L, 0, g)]),
            z3.ForAll([g], z3.Implies(j > 0, fn(X, L, j, g) == fn(X, L, j - 1, g) + term(X, L, j - 1, g)),
                      patterns=[fn(X, L, j, g)]),
            z3.ForAll([g], z3.Implies(j >= 0, fn(X, L, j + 1, g) == fn(X, L, j, g) + term(X, L, j, g)),
                      patterns=[fn(X, L, j + 1, g)])]


def _ground(*terms):
    """no variable bound by an enclosing specification quantifier (those are named q_...)"""
    seen, todo = set(), list(terms)
    while todo:
        t = todo.pop()
        if t.get_id() in seen:
            continue
        seen.add(t.get_id())
        if z3.is_app(t):
            if t.num_args() == 0 and t.decl().name().startswith('q_'):
                return False
            todo.extend(t.children())
        elif z3.is_quantifier(t):
            todo.append(t.body())
    return True


def _sum_args(ev, state, node, first_ty):
    X = coerce(ev.eval(state, node.args[0]), first_ty)
    L = ev.eval(state, node.args[1])
    if L.ty[0] not in ('list', 'arr') or T.sort_of(L.ty) != _LS:
        raise Unsupported("population must be a list of names")
    j = to_int(ev.eval(state, node.args[2]))
    return X.term, L.term, j


def _native_nsum(D, L, j):
    return sum(int(D[x]['n_cells']) for x in list(L)[:j])


def _native_gsum(D, L, j, g):
    return sum(float(D[x]['sum'][g]) for x in list(L)[:j])


def _native_fnsum(F, L, j):
    return sum(int(F['n_cells'][F['cluster_to_row'][x]]) for x in list(L)[:j])


def _native_fgsum(F, L, j, g):
    return sum(float(F['sum'][F['cluster_to_row'][x], g]) for x in list(L)[:j])


@prims.spec_function('c18_nsum', native=_native_nsum)
def s_nsum(ev, state, node):
    D, L, j = _sum_args(ev, state, node, LEAFD_TY)
    if _ground(D, L, j):
        state.assume(*_unfold(NSUM, _d_n, D, L, j))
    return SymVal(T.INT, NSUM(D, L, j))


@prims.spec_function('c18_fnsum', native=_native_fnsum)
def s_fnsum(ev, state, node):
    F, L, j = _sum_args(ev, state, node, FILE_TY)
    if _ground(F, L, j):
        state.assume(*_unfold(FNSUM, _f_nn, F, L, j))
    return SymVal(T.INT, FNSUM(F, L, j))


@prims.spec_function('c18_gsum', native=_native_gsum)
def s_gsum(ev, state, node):
    D, L, j = _sum_args(ev, state, node, LEAFD_TY)
    g = to_int(ev.eval(state, node.args[3]))
    if _ground(D, L, j):
        state.assume(*_unfold_g(GSUM, _d_g, D, L, j))
    return SymVal(T.REAL, GSUM(D, L, j, g))


@prims.spec_function('c18_fgsum', native=_native_fgsum)
def s_fgsum(ev, state, node):
    F, L, j = _sum_args(ev, state, node, FILE_TY)
    g = to_int(ev.eval(state, node.args[3]))
    if _ground(F, L, j):
        state.assume(*_unfold_g(FGSUM, _f_g, F, L, j))
    return SymVal(T.REAL, FGSUM(F, L, j, g))


def _agree_n(D, F, L, j):
    i = z3.Int(fresh_name('an'))
    return z3.ForAll([i], z3.Implies(z3.And(0 <= i, i < j), _d_n(D, L, i) == _f_nn(F, L, i)))


def _agree_g(D, F, L, j, G):
    i, g = z3.Int(fresh_name('ag')), z3.Int(fresh_name('agg'))
    return z3.ForAll([i, g], z3.Implies(z3.And(0 <= i, i < j, 0 <= g, g < G),
                                        _d_g(D, L, i, g) == _f_g(F, L, i, g)))


@prims.spec_function('c18_lemma_agree', native=lambda D, F, L, j, G: True)
def s_lemma_agree(ev, state, node):
    """lemma AGREE (induction on j, check_lemmas): instance assumed, the call evaluates to True.
    c18_lemma_agree(D, F, L, j, G): if for every i < j the entry D[L[i]] holds n_cells and the
    first G entries of 'sum' of row cluster_to_row[L[i]] of F, then nsum == fnsum and
    gsum(.., g) == fgsum(.., g) for every g < G."""
    D = coerce(ev.eval(state, node.args[0]), LEAFD_TY).term
    F = coerce(ev.eval(state, node.args[1]), FILE_TY).term
    L = ev.eval(state, node.args[2]).term
    j = to_int(ev.eval(state, node.args[3]))
    G = to_int(ev.eval(state, node.args[4]))
    g = z3.Int(fresh_name('lg'))
    state.assume(z3.Implies(z3.And(j >= 0, _agree_n(D, F, L, j)), NSUM(D, L, j) == FNSUM(F, L, j)),
                 z3.Implies(z3.And(j >= 0, _agree_g(D, F, L, j, G)),
                            z3.ForAll([g], z3.Implies(z3.And(0 <= g, g < G),
                                                      GSUM(D, L, j, g) == FGSUM(F, L, j, g)),
                                      patterns=[GSUM(D, L, j, g)])))
    return SymVal(T.BOOL, z3.BoolVal(True))


def check_lemmas():
    D, F, L = z3.Const('c18_lD', _DS), z3.Const('c18_lF', _FS), z3.Const('c18_lL', _LS)
    j, g, G = z3.Int('c18_lj'), z3.Int('c18_lg'), z3.Int('c18_lG')

    def proved(hyps, goal):
        s = z3.Solver()
        s.set('timeout', 10000)
        s.add(*hyps)
        s.add(z3.Not(goal))
        return s.check() == z3.unsat

    def def_n(x):
        return _unfold(NSUM, _d_n, D, L, x) + _unfold(FNSUM, _f_nn, F, L, x)

    def def_g(x):
        return [GSUM(D, L, 0, g) == 0, FGSUM(F, L, 0, g) == 0,
                z3.Implies(x >= 0, GSUM(D, L, x + 1, g) == GSUM(D, L, x, g) + _d_g(D, L, x, g)),
                z3.Implies(x >= 0, FGSUM(F, L, x + 1, g) == FGSUM(F, L, x, g) + _f_g(F, L, x, g))]

    ok = True
    # numbers of cells: base, step
    ok &= proved(def_n(j), NSUM(D, L, 0) == FNSUM(F, L, 0))
    ok &= proved(def_n(j) + [j >= 0, z3.Implies(_agree_n(D, F, L, j), NSUM(D, L, j) == FNSUM(F, L, j)),
                             _agree_n(D, F, L, j + 1)],
                 NSUM(D, L, j + 1) == FNSUM(F, L, j + 1))
    # per-gene sums (g arbitrary with 0 <= g < G): base, step
    ok &= proved(def_g(j), GSUM(D, L, 0, g) == FGSUM(F, L, 0, g))
    ok &= proved(def_g(j) + [j >= 0, 0 <= g, g < G,
                             z3.Implies(_agree_g(D, F, L, j, G), GSUM(D, L, j, g) == FGSUM(F, L, j, g)),
                             _agree_g(D, F, L, j + 1, G)],
                 GSUM(D, L, j + 1, g) == FGSUM(F, L, j + 1, g))
    if not ok:
        raise RuntimeError("pyvc.ext.c18: lemma AGREE failed its induction check")
    return ok


check_lemmas()


# ---------------------------------------------------------------------------------------------
# an integer kept in a Dict[Name,Opaque] (the 'n_cells' entry of a C18Node): c18_int reads it back.
# Axiom: c18_int(as_opaque(n)) == n for every integer n (the injection keeps the value).
# ---------------------------------------------------------------------------------------------
from pyvc.engine import inject_opaque   # noqa: E402

_INT_INJ = inject_opaque(SymVal(T.INT, z3.IntVal(0))).term.decl()
INT_OF = z3.Function('c18_int', T.sort_of(T.OPAQUE), _IS)


@prims.spec_function('c18_int', native=lambda x: int(x))
def s_c18_int(ev, state, node):
    v = ev.eval(state, node.args[0])
    if v.ty == T.INT:
        return v
    if v.ty != T.OPAQUE:
        raise Unsupported("c18_int of a non-abstracted value")
    key = '_c18_int_axiom'
    if not ev.ctx.__dict__.get(key):
        ev.ctx.__dict__[key] = True
        n = z3.Int('c18_int_n')
        ev.ctx.axioms.append(z3.ForAll([n], INT_OF(_INT_INJ(n)) == n, patterns=[_INT_INJ(n)]))
    return SymVal(T.INT, INT_OF(v.term))


# ---------------------------------------------------------------------------------------------
# A-CBG: CellByGeneMatrix(data=, gene_identifiers=, cell_identifiers=, normalization=) as seen by
# get_leaf_means (cell_by_gene.py:33-76): the object stores the data array and (deep copies of) the
# identifier lists and the normalisation, or raises RuntimeError (unknown normalisation, number of
# gene identifiers != number of columns, repeated identifiers).  `data` must be an array
# (AttributeError on None: obligation).
# ---------------------------------------------------------------------------------------------
_CBG = 'cell_type_mapper.cell_by_gene.cell_by_gene.CellByGeneMatrix'


def install_cbg_constructor(qualnames):
    from pyvc.symexec import PendingRaise
    prev = prims.QUALIFIED.get(_CBG)
    if getattr(prev, '_c18', False):
        prev._c18_for.update(qualnames)
        return
    ty = T.TRec('C18CBG')

    def q_cbg(ev, state, node):
        if (ev.ctx.qualname or '').split('#')[0] not in q_cbg._c18_for or node.args:
            if prev is None:
                raise Unsupported("CellByGeneMatrix(...) (no model for this use)")
            return prev(ev, state, node)
        kw = {k.arg: ev.eval(state, k.value) for k in node.keywords}
        if set(kw) != {'data', 'gene_identifiers', 'cell_identifiers', 'normalization'}:
            raise Unsupported("CellByGeneMatrix(...) argument form")
        data = kw['data']
        if data.ty[0] == 'opt':
            ev.ctx.oblige(state, z3.Not(T.opt_is_none(data.ty, data.term)), 'AttributeError', node,
                          'data of a CellByGeneMatrix is an array (None has no .shape)')
            data = select(data, ('some',))
        data = coerce(data, T.TArr2(T.REAL))
        genes = coerce(kw['gene_identifiers'], NAMES_TY)
        cells = coerce(kw['cell_identifiers'], NAMES_TY)
        norm = coerce(kw['normalization'], T.NAME)
        b = z3.Bool(fresh_name('cbg_raise'))
        ev.ctx.pending.append(PendingRaise('RuntimeError', [b]))
        state.assume(z3.Not(b))
        ev.ctx.trusted_used.add('A-CBG')
        return SymVal(ty, T.ctor(ty)(data.term, genes.term, cells.term, norm.term))
    q_cbg._c18 = True
    q_cbg._c18_for = set(qualnames)
    prims.QUALIFIED[_CBG] = q_cbg
