"""C18 interface area (reader side of the statistics file): trusted primitives.

Trusted base added here (assumptions about code *outside* the prover):

* A-STATSFILE  `h5py.File(path, 'r')` inside `read_raw_precomputed_stats` is the record
               `c18_file(path)` (type C18File) whose fields are the *decoded* datasets of the file:
                 col_names       JSON list of gene names        (List[Name])
                 cluster_to_row  JSON table leaf name -> row    (Dict[Name,Int])
                 n_cells         1-D integer dataset            (Arr[Int])
                 every other dataset name -> a 2-D matrix       (rest: Dict[Name,Arr2[Real]]; only
                                 'sum','sumsq','gt0','gt1','ge1' are ever read - that is the layout
                                 `_create_empty_stats_file` writes; integer counts are read as reals)
               The record is a function of the path (the file is opened read-only and is not
               modified while it is read).  The three fixed fields are always present in the model:
               a file without them makes the real function raise (KeyError / RuntimeError), and the
               contracts speak about normal returns only.
* A-JSON       `json.loads(ds[()].decode('utf-8'))` of a JSON dataset is the decoded value, i.e. the
               record field itself.
* `f.keys()`   of that record: the fixed fields plus the keys of the rest.

The native twin `c18_file(path)` reads the real file with h5py into a dict of the same shape.
"""
import ast
import z3

from pyvc import types as T
from pyvc import prims, ghost
from pyvc.values import SymVal, Unsupported, canon, wf, literal, mk_set, dict_dom, fresh_name
from pyvc.engine import coerce
from pyvc.symexec import select
from pyvc.types import record

record('C18File', _rest='Dict[Name,Arr2[Real]]', n_cells='Arr[Int]', col_names='List[Name]',
       cluster_to_row='Dict[Name,Int]')

FILE_TY = T.TRec('C18File')

H5_READERS = {
    'cell_type_mapper.diff_exp.score_utils.read_raw_precomputed_stats',
}


def _file_of(path_val):
    return canon(FILE_TY, 'c18_file', coerce(path_val, T.NAME).term)


def _c18_file_native(path):
    import json
    import h5py
    out = {}
    with h5py.File(path, 'r') as f:
        for k in f.keys():
            if k in ('col_names', 'cluster_to_row'):
                out[k] = json.loads(f[k][()].decode('utf-8'))
            elif k in ('n_cells', 'sum', 'sumsq', 'gt0', 'gt1', 'ge1'):
                out[k] = f[k][()]
    return out


@prims.spec_function('c18_file', native=_c18_file_native)
def s_c18_file(ev, state, node):
    p = ev.eval(state, node.args[0])
    ev.ctx.trusted_used.add('A-STATSFILE')
    return _file_of(p)


def _install_h5_reader():
    prev = prims.QUALIFIED.get('h5py.File')
    if getattr(prev, '_c18_reader', False):
        return

    def q_h5_file(ev, state, node):
        if (ev.ctx.qualname or '').split('#')[0] in H5_READERS and len(node.args) == 2 \
                and isinstance(node.args[1], ast.Constant) and node.args[1].value == 'r':
            path = ev.eval(state, node.args[0])
            if path.ty != T.NAME:
                raise Unsupported("h5py.File of an abstracted path")
            r = _file_of(path)
            state.assume(*wf(r))
            ev.ctx.trusted_used.add('A-STATSFILE')
            return r
        if prev is not None:
            return prev(ev, state, node)
        raise Unsupported("h5py.File (no model for this use)")
    for a in ('_mc_reader', '_mc_writer'):
        setattr(q_h5_file, a, getattr(prev, a, False))
    q_h5_file._c18_reader = True
    prims.QUALIFIED['h5py.File'] = q_h5_file


_install_h5_reader()


def _m_keys(ev, state, node, recv, ref):
    """f.keys(): the dataset names = fixed fields + keys of the rest"""
    flds = T.RECORDS[recv.ty[1]]
    rest = select(recv, ('fld', '__rest__'))
    ty = T.TSet(T.NAME)
    r = canon(ty, 'c18_keys', recv.term)
    k = z3.Int(fresh_name('kk'))
    from pyvc.values import set_has
    state.assume(*wf(r))
    state.assume(z3.ForAll([k], set_has(r)[k] == z3.Or(dict_dom(rest)[k],
                                                       *[k == literal(f).term for f in flds if f != '__rest__']),
                           patterns=[set_has(r)[k]]))
    return r


ghost.METHODS[('C18File', 'keys')] = _m_keys


def _peel_json_dataset(arg):
    """`X[()].decode('utf-8')` -> X (an expression denoting a JSON dataset), else None"""
    if not (isinstance(arg, ast.Call) and isinstance(arg.func, ast.Attribute) and arg.func.attr == 'decode'):
        return None
    inner = arg.func.value
    if not (isinstance(inner, ast.Subscript) and isinstance(inner.slice, ast.Tuple) and not inner.slice.elts):
        return None
    return inner.value


_prev_loads = prims.QUALIFIED.get('json.loads')


def q_json_loads(ev, state, node):
    """A-JSON: json.loads(f[name][()].decode('utf-8')) on a C18File field is the field's value"""
    if len(node.args) == 1 and not node.keywords:
        ds = _peel_json_dataset(node.args[0])
        if ds is not None and isinstance(ds, ast.Subscript) and isinstance(ds.slice, ast.Constant):
            base = ev.eval(state, ds.value)
            if base.ty == FILE_TY and ds.slice.value in ('col_names', 'cluster_to_row'):
                ev.ctx.trusted_used.add('A-JSON')
                return select(base, ('fld', ds.slice.value))
    if _prev_loads is not None:
        return _prev_loads(ev, state, node)
    raise Unsupported("json.loads (no model for this use)")


if not getattr(_prev_loads, '_c18', False):
    q_json_loads._c18 = True
    prims.QUALIFIED['json.loads'] = q_json_loads
