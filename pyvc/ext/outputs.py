"""Extension for the `outputs` area (C15 / C16 / C01.a / C04.b / C07.e).

Trusted spec functions (each with a native twin that is run against the real library by the
native layer / bounded modules):

  df_index(path, df_name)   the index values of the dataframe `df_name` ('obs' / 'var') stored in the
                            h5ad file at `path`, as a 1-D array of identifiers.  Uninterpreted: the
                            only fact used is that it is a function of (path, df_name) - the file is
                            not written between the call and the use (input opened read-only).
  is_ens(s)                 `gene_id.utils.is_ensembl` (regular expression; outside the prover)
  strip_version(s)          `s.split('.')[0]`
  placeholder_ct(s)         the counter k of a placeholder name `unmapped_{k}_{timestamp}`
                            (axiom: the f-string is injective in k, also after strip_version)
"""
import ast
import z3

from pyvc import types as T
from pyvc.values import SymVal, Unsupported, fresh, fresh_name, NONEVAL, seq_len, seq_at, wf
from pyvc.engine import to_int, truth, coerce
from pyvc.prims import spec_function, qualified
from pyvc import ghost

# ---------------------------------------------------------------------------------------------
# dataframes read from h5ad files
# ---------------------------------------------------------------------------------------------
_ARRN = T.TArr(T.NAME)
DF_INDEX = z3.Function('df_index', z3.IntSort(), z3.IntSort(), T.sort_of(_ARRN))


_DF_CACHE = {}


def _df_index_native(path, df_name):
    """reads the real file (cached per (path, mtime, size): clauses evaluate it inside quantifiers)"""
    import os
    import numpy as np
    from cell_type_mapper.utils.anndata_utils import read_df_from_h5ad
    st = os.stat(path)
    key = (str(path), df_name, st.st_mtime_ns, st.st_size)
    if key not in _DF_CACHE:
        if len(_DF_CACHE) > 256:
            _DF_CACHE.clear()
        _DF_CACHE[key] = np.array(list(read_df_from_h5ad(path, df_name).index.values), dtype=object)
    return _DF_CACHE[key]


@spec_function('df_index', native=_df_index_native)
def s_df_index(ev, state, node):
    p = coerce(ev.eval(state, node.args[0]), T.NAME)
    d = coerce(ev.eval(state, node.args[1]), T.NAME)
    v = SymVal(_ARRN, DF_INDEX(p.term, d.term))
    state.assume(seq_len(v) >= 0)
    return v


# ---------------------------------------------------------------------------------------------
# gene identifiers (strings are outside the prover: trusted, natively audited spec functions)
# ---------------------------------------------------------------------------------------------
IS_ENS = z3.Function('is_ens', z3.IntSort(), z3.BoolSort())
STRIP_VERSION = z3.Function('strip_version', z3.IntSort(), z3.IntSort())
PLACEHOLDER_CT = z3.Function('placeholder_ct', z3.IntSort(), z3.IntSort())
FMT_UNMAPPED = z3.Function('fmt_unmapped', z3.IntSort(), z3.IntSort(), z3.IntSort())


def _is_ens_native(s):
    """independent scanner (no `re`) for a full match of  ENS [A-Z]+ [0-9]+ ( '.' [0-9]+ )?
    with ASCII letters / digits only"""
    if not isinstance(s, str) or not s.startswith('ENS'):
        return False
    up, dg = 'ABCDEFGHIJKLMNOPQRSTUVWXYZ', '0123456789'
    i, n = 3, len(s)
    j = i
    while j < n and s[j] in up:
        j += 1
    if j == i:
        return False
    i = j
    while j < n and s[j] in dg:
        j += 1
    if j == i:
        return False
    if j == n:
        return True
    if s[j] != '.':
        return False
    i = j = j + 1
    while j < n and s[j] in dg:
        j += 1
    return j > i and j == n


def _strip_version_native(s):
    """independent of str.split: the text before the first '.'"""
    k = s.find('.')
    return s if k < 0 else s[:k]


def _placeholder_ct_native(s):
    """counter of a placeholder name, -1 if `s` is not of the form unmapped_{int}_..."""
    if not s.startswith('unmapped_'):
        return -1
    rest = s[len('unmapped_'):]
    head = rest.split('_')[0]
    try:
        return int(head)
    except ValueError:
        return -1


@spec_function('is_ens', native=_is_ens_native)
def s_is_ens(ev, state, node):
    v = coerce(ev.eval(state, node.args[0]), T.NAME)
    return SymVal(T.BOOL, IS_ENS(v.term))


@spec_function('strip_version', native=_strip_version_native)
def s_strip_version(ev, state, node):
    v = coerce(ev.eval(state, node.args[0]), T.NAME)
    return SymVal(T.NAME, STRIP_VERSION(v.term))


@spec_function('placeholder_ct', native=_placeholder_ct_native)
def s_placeholder_ct(ev, state, node):
    v = coerce(ev.eval(state, node.args[0]), T.NAME)
    return SymVal(T.INT, PLACEHOLDER_CT(v.term))


def fstring_unmapped(ev, state, vals):
    """f"unmapped_{ct}_{timestamp}"  (RandomNameGenerator.name)

    Axiom (string fact, audited natively by bounded.c16 `placeholder-format`): the decimal
    rendering of an int contains no '_' and no '.', so the counter can be read back from the
    text between the prefix 'unmapped_' and the next '_', whatever the timestamp is, and also
    after the text has been cut at its first '.'."""
    if len(vals) != 2 or vals[0].ty != T.INT or vals[1].ty not in (T.NAME,):
        return None
    a, s = vals[0].term, vals[1].term
    r = FMT_UNMAPPED(a, s)
    state.assume(PLACEHOLDER_CT(r) == a, PLACEHOLDER_CT(STRIP_VERSION(r)) == a)
    return SymVal(T.NAME, r)


try:
    from pyvc.symexec import FSTRING_HOOKS
    FSTRING_HOOKS['unmapped_{}_{}'] = fstring_unmapped
except ImportError:      # hook not available: f-strings stay fully uninterpreted
    pass


@qualified('json.dumps')
def q_json_dumps(ev, state, node):
    """json.dumps(x, ...) used only to build messages: an uninterpreted string"""
    for a in node.args:
        ev.eval(state, a)
    return fresh(T.NAME, 'json')


# ---------------------------------------------------------------------------------------------
# CommandLog (cli.cli_log): error() raises RuntimeError, info()/warn() are no-ops (A-LOG)
# ---------------------------------------------------------------------------------------------
T.record('OutLog', tag='Int')


@ghost.method('OutLog', 'error')
def m_log_error(ev, state, node, recv, ref):
    from pyvc.symexec import PendingRaise
    for a in node.args:
        ev.eval(state, a)
    ev.ctx.pending.append(PendingRaise('RuntimeError', [z3.BoolVal(True)]))
    state.assume(z3.BoolVal(False))
    return NONEVAL


@ghost.method('OutLog', 'warn')
def m_log_warn(ev, state, node, recv, ref):
    for a in node.args:
        ev.eval(state, a)
    return NONEVAL


ghost.method('OutLog', 'info')(m_log_warn)


# ---------------------------------------------------------------------------------------------
# n_unmappable(lookup, ids, k): number of positions i < k whose identifier is neither an Ensembl
# id nor a key of the lookup table (a recursive definition over k; induction is supplied by the
# loop invariant of map_gene_identifiers)
# ---------------------------------------------------------------------------------------------
_LOOKUP_T = T.TDict(T.NAME, T.NAME)
_IDS_T = T.TList(T.NAME)
N_UNMAPPABLE = z3.Function('n_unmappable', T.sort_of(_LOOKUP_T), T.sort_of(_IDS_T), z3.IntSort(),
                           z3.IntSort())


def _n_unmappable_native(lookup, ids, k):
    return sum(1 for g in list(ids)[:k] if not _is_ens_native(g) and g not in lookup)


@spec_function('n_unmappable', native=_n_unmappable_native)
def s_n_unmappable(ev, state, node):
    from pyvc.values import dict_dom
    lk = coerce(ev.eval(state, node.args[0]), _LOOKUP_T)
    ids = coerce(ev.eval(state, node.args[1]), _IDS_T)
    k = to_int(ev.eval(state, node.args[2]))
    f = lambda x: N_UNMAPPABLE(lk.term, ids.term, x)     # noqa: E731
    j = z3.Int(fresh_name('nu'))
    g = seq_at(ids, j)
    un = z3.And(z3.Not(IS_ENS(g)), z3.Not(dict_dom(lk)[g]))
    # definition (primitive recursion on k) and two consequences of it (by induction on k)
    state.assume(f(z3.IntVal(0)) == 0,
                 z3.ForAll([j], z3.Implies(j >= 0, f(j + 1) == f(j) + z3.If(un, 1, 0)),
                           patterns=[f(j + 1)]),
                 z3.ForAll([j], z3.Implies(j >= 0, z3.And(0 <= f(j), f(j) <= j)), patterns=[f(j)]))
    return SymVal(T.INT, f(k))


# ---------------------------------------------------------------------------------------------
# h5py datasets: an array (what slicing returns) plus `.chunks`
#   trusted: Dataset.chunks is None (contiguous layout) or a tuple with one *positive* int per
#   dimension ("All chunk dimensions must be positive", h5py/HDF5); nothing else is assumed
#   about it (in particular not chunks <= shape: resizable datasets may have larger chunks)
# ---------------------------------------------------------------------------------------------
from pyvc import numpy_prims as _np     # noqa: E402

_CH1_T = T.TOpt(T.TTuple([T.INT]))
_CH2_T = T.TOpt(T.TTuple([T.INT, T.INT]))
_CHUNKS = {}


def _chunks_fn(arr_ty, out_ty):
    key = (T.sort_of(arr_ty), T.sort_of(out_ty))
    if key not in _CHUNKS:
        _CHUNKS[key] = z3.Function(f'h5_chunks_{len(_CHUNKS)}', T.sort_of(arr_ty), T.sort_of(out_ty))
    return _CHUNKS[key]


def _attr_chunks1(ev, state, base, node):
    r = SymVal(_CH1_T, _chunks_fn(base.ty, _CH1_T)(base.term))
    inner = T.acc(_CH1_T, 'val')(r.term)
    state.assume(z3.Implies(z3.Not(T.opt_is_none(_CH1_T, r.term)),
                            T.acc(_CH1_T[1], 'f0')(inner) >= 1))
    return r


def _attr_chunks2(ev, state, base, node):
    r = SymVal(_CH2_T, _chunks_fn(base.ty, _CH2_T)(base.term))
    inner = T.acc(_CH2_T, 'val')(r.term)
    state.assume(z3.Implies(z3.Not(T.opt_is_none(_CH2_T, r.term)),
                            z3.And(T.acc(_CH2_T[1], 'f0')(inner) >= 1,
                                   T.acc(_CH2_T[1], 'f1')(inner) >= 1)))
    return r


_np.EXTRA_ATTRS[('arr', 'chunks')] = _attr_chunks1
_np.EXTRA_ATTRS[('arr2', 'chunks')] = _attr_chunks2


# ---------------------------------------------------------------------------------------------
# contents of the cell-by-gene layer of an h5ad file (uninterpreted; native twins read the file
# through anndata, independently of the code under contract)
#   x_has_values(path, layer)  some value is stored (dense: shape non-empty; sparse: nnz > 0)
#   x_min / x_max(path, layer) extreme *stored* values
# ---------------------------------------------------------------------------------------------
X_HAS = z3.Function('x_has_values', z3.IntSort(), z3.IntSort(), z3.BoolSort())
X_MIN = z3.Function('x_min', z3.IntSort(), z3.IntSort(), z3.RealSort())
X_MAX = z3.Function('x_max', z3.IntSort(), z3.IntSort(), z3.RealSort())


def _stored_values(path, layer):
    import anndata
    import numpy as np
    import scipy.sparse as sp
    a = anndata.read_h5ad(path)
    m = a.X if layer == 'X' else a.layers[layer]
    if sp.issparse(m):
        return np.asarray(m.data)
    return np.asarray(m).ravel()


def _x_has_native(path, layer):
    return _stored_values(path, layer).size > 0


def _x_min_native(path, layer):
    v = _stored_values(path, layer)
    return float(v.min()) if v.size else float('nan')


def _x_max_native(path, layer):
    v = _stored_values(path, layer)
    return float(v.max()) if v.size else float('nan')


def _mk_layer_fn(fn, ty):
    def h(ev, state, node):
        p = coerce(ev.eval(state, node.args[0]), T.NAME)
        l_ = coerce(ev.eval(state, node.args[1]), T.NAME)
        return SymVal(ty, fn(p.term, l_.term))
    return h


spec_function('x_has_values', native=_x_has_native)(_mk_layer_fn(X_HAS, T.BOOL))
spec_function('x_min', native=_x_min_native)(_mk_layer_fn(X_MIN, T.REAL))
spec_function('x_max', native=_x_max_native)(_mk_layer_fn(X_MAX, T.REAL))


# ---------------------------------------------------------------------------------------------
# np.round / np.abs on whole arrays (elementwise), and rint(x) for specifications
#   np_rint(x): round-half-even as a *function* Real -> Int (usable under quantifiers), axiom:
#   |np_rint(x) - x| <= 1/2 and ties go to the even neighbour  (T: numpy.round, audited by c16)
# ---------------------------------------------------------------------------------------------
NP_RINT = z3.Function('np_rint', z3.RealSort(), z3.IntSort())
_HALF = z3.RealVal('1/2')


def _rint_axiom(ctx):
    if getattr(ctx, '_rint_axiom_added', False):
        return
    x = z3.Real('rint!x')
    r = z3.ToReal(NP_RINT(x))
    ctx.axioms.append(z3.ForAll([x], z3.And(r - x <= _HALF, x - r <= _HALF,
                                            z3.Implies(z3.Or(r - x == _HALF, x - r == _HALF),
                                                       NP_RINT(x) % 2 == 0)),
                                patterns=[NP_RINT(x)]))
    ctx._rint_axiom_added = True


def _rint_native(x):
    import numpy as np
    return float(np.round(x))


@spec_function('rint', native=_rint_native)
def s_rint(ev, state, node):
    from pyvc.engine import to_real
    _rint_axiom(ev.ctx)
    v = ev.eval(state, node.args[0])
    return SymVal(T.REAL, z3.ToReal(NP_RINT(to_real(v))))


_scalar_round = _np.QUALIFIED['numpy.round']


def _q_round(ev, state, node):
    v = ev.eval(state, node.args[0])
    if v.ty[0] not in ('arr', 'arr2') or len(node.args) != 1 or node.keywords:
        return _scalar_round(ev, state, node)
    if v.ty[1] != T.REAL:
        return SymVal(v.ty, v.term)
    _rint_axiom(ev.ctx)
    r = fresh(v.ty, 'rounded')
    if v.ty[0] == 'arr':
        i = z3.Int(fresh_name('ri'))
        state.assume(seq_len(r) == seq_len(v),
                     z3.ForAll([i], z3.Implies(z3.And(0 <= i, i < seq_len(v)),
                                               seq_at(r, i) == z3.ToReal(NP_RINT(seq_at(v, i)))),
                               patterns=[seq_at(r, i), seq_at(v, i)]))
    else:
        i, j = z3.Int(fresh_name('ri')), z3.Int(fresh_name('rj'))
        state.assume(_np.m_n0(r) == _np.m_n0(v), _np.m_n1(r) == _np.m_n1(v),
                     z3.ForAll([i, j], z3.Implies(z3.And(0 <= i, i < _np.m_n0(v), 0 <= j, j < _np.m_n1(v)),
                                                  _np.m_at(r, i, j) == z3.ToReal(NP_RINT(_np.m_at(v, i, j)))),
                               patterns=[_np.m_at(r, i, j), _np.m_at(v, i, j)]))
    return r


_np.QUALIFIED['numpy.round'] = _q_round


@_np.q('numpy.abs')
def _q_abs(ev, state, node):
    v = ev.eval(state, node.args[0])
    ab = lambda t: z3.If(t < 0, -t, t)      # noqa: E731
    if v.ty in (T.INT, T.REAL):
        return SymVal(v.ty, ab(v.term))
    if v.ty[0] == 'arr' and v.ty[1] in (T.INT, T.REAL):
        r = fresh(v.ty, 'abs')
        i = z3.Int(fresh_name('ai'))
        state.assume(seq_len(r) == seq_len(v),
                     z3.ForAll([i], z3.Implies(z3.And(0 <= i, i < seq_len(v)),
                                               seq_at(r, i) == ab(seq_at(v, i))),
                               patterns=[seq_at(r, i), seq_at(v, i)]))
        return r
    if v.ty[0] == 'arr2' and v.ty[1] in (T.INT, T.REAL):
        r = fresh(v.ty, 'abs')
        i, j = z3.Int(fresh_name('ai')), z3.Int(fresh_name('aj'))
        state.assume(_np.m_n0(r) == _np.m_n0(v), _np.m_n1(r) == _np.m_n1(v),
                     z3.ForAll([i, j], z3.Implies(z3.And(0 <= i, i < _np.m_n0(v), 0 <= j, j < _np.m_n1(v)),
                                                  _np.m_at(r, i, j) == ab(_np.m_at(v, i, j))),
                               patterns=[_np.m_at(r, i, j), _np.m_at(v, i, j)]))
        return r
    raise Unsupported(f"np.abs of {T.show(v.ty)}")


@_np.q('numpy.issubdtype')
def _q_issubdtype(ev, state, node):
    """np.issubdtype(a.dtype, np.integer) for an array a of the model: the dtype itself is not
    modelled; trusted: an array whose dtype is an integer type holds integral values"""
    a0, a1 = node.args
    if isinstance(a0, ast.Attribute) and a0.attr == 'dtype' and ev.qualified(a1) == 'numpy.integer':
        base = ev.eval(state, a0.value)
        b = z3.Bool(fresh_name('is_int_dtype'))
        if base.ty[0] == 'arr' and base.ty[1] == T.REAL:
            _rint_axiom(ev.ctx)
            i = z3.Int(fresh_name('ii'))
            state.assume(z3.Implies(b, z3.ForAll([i], z3.Implies(
                z3.And(0 <= i, i < seq_len(base)),
                seq_at(base, i) == z3.ToReal(NP_RINT(seq_at(base, i)))))))
            return SymVal(T.BOOL, b)
        if base.ty[0] == 'arr2' and base.ty[1] == T.REAL:
            _rint_axiom(ev.ctx)
            i, j = z3.Int(fresh_name('ii')), z3.Int(fresh_name('ij'))
            state.assume(z3.Implies(b, z3.ForAll([i, j], z3.Implies(
                z3.And(0 <= i, i < _np.m_n0(base), 0 <= j, j < _np.m_n1(base)),
                _np.m_at(base, i, j) == z3.ToReal(NP_RINT(_np.m_at(base, i, j)))))))
            return SymVal(T.BOOL, b)
        if base.ty[0] in ('arr', 'arr2') and base.ty[1] == T.INT:
            return SymVal(T.BOOL, b)
    raise Unsupported("np.issubdtype form")


# ---------------------------------------------------------------------------------------------
# Another extension (ext/scores.py, loaded later) registers its own numpy.abs for 1-D arrays and
# scalars.  install_overrides() is called by contracts/c_validation_utils.py (contract modules load
# after every extension): 2-D operands go to the handler above, everything else to whatever
# handler is registered at that time.
# ---------------------------------------------------------------------------------------------
_PREV = {}


def _abs_composed(ev, state, node):
    v = ev.eval(state, node.args[0])
    prev = _PREV.get('abs')
    if v.ty[0] == 'arr2' or prev is None:
        return _q_abs(ev, state, node)
    return prev(ev, state, node)


def install_overrides():
    cur = _np.QUALIFIED.get('numpy.abs')
    if cur is not _abs_composed:
        _PREV['abs'] = cur if cur is not _q_abs else None
        _np.QUALIFIED['numpy.abs'] = _abs_composed
    if _np.QUALIFIED.get('numpy.round') is not _q_round:
        _np.QUALIFIED['numpy.round'] = _q_round


# ---------------------------------------------------------------------------------------------
# paths as identifiers (A-PATH): Path(x) is x (registered by ext/precompute.py as well);
#   p.resolve()  a function of p  (equal paths resolve equally; hence resolve(p) != resolve(q)
#                implies p != q - the only fact the aliasing guard of _validate_h5ad needs)
#   p.exists()   unknown boolean;  p.unlink()  no effect on the tracked state
#   p.name / p.suffix : uninterpreted strings
# ---------------------------------------------------------------------------------------------
from pyvc import prims as _prims     # noqa: E402

PATH_RESOLVE = z3.Function('path_resolve', z3.IntSort(), z3.IntSort())


def _q_path(ev, state, node):
    v = ev.eval(state, node.args[0])
    if v.ty == T.TOpt(T.NAME):
        ev.ctx.oblige(state, z3.Not(T.opt_is_none(v.ty, v.term)), 'TypeError', node,
                      'pathlib.Path(None) is a TypeError')
        return SymVal(T.NAME, T.acc(v.ty, 'val')(v.term))
    if v.ty != T.NAME:
        raise Unsupported("pathlib.Path of a non-name")
    return v


if 'pathlib.Path' not in _prims.QUALIFIED:
    _prims.QUALIFIED['pathlib.Path'] = _q_path

_prims.NAME_METHODS.setdefault('resolve', lambda ev, state, node, recv: SymVal(T.NAME, PATH_RESOLVE(recv.term)))
_prims.NAME_METHODS.setdefault('exists', lambda ev, state, node, recv: SymVal(T.BOOL, z3.Bool(fresh_name('exists'))))
_prims.NAME_METHODS.setdefault('unlink', lambda ev, state, node, recv: NONEVAL)
_np.EXTRA_ATTRS.setdefault(('name', 'name'), lambda ev, state, base, node: fresh(T.NAME, 'path_name'))
_np.EXTRA_ATTRS.setdefault(('name', 'suffix'), lambda ev, state, base, node: fresh(T.NAME, 'path_suffix'))


# ---------------------------------------------------------------------------------------------
# TaxonomyTree as seen by output_utils: `hierarchy` plus nodes_at_level(level)
#   trusted: nodes_at_level(level) is a duplicate-free list (it is list(dict.keys())) and a
#   function of (tree, level)
# ---------------------------------------------------------------------------------------------
T.record('OutTree', hierarchy='List[Name]', tag='Int')
_NODES_T = T.TList(T.NAME)
TREE_NODES = z3.Function('tree_nodes_at_level', T.sort_of(T.TRec('OutTree')), z3.IntSort(), T.sort_of(_NODES_T))


def _nodes_at_level(tree_term, level_term, state):
    v = SymVal(_NODES_T, TREE_NODES(tree_term, level_term))
    i, j = z3.Int(fresh_name('ni')), z3.Int(fresh_name('nj'))
    state.assume(seq_len(v) >= 0,
                 z3.ForAll([i, j], z3.Implies(z3.And(0 <= i, i < j, j < seq_len(v)),
                                              seq_at(v, i) != seq_at(v, j))))
    return v


@ghost.method('OutTree', 'nodes_at_level')
def m_nodes_at_level(ev, state, node, recv, ref):
    lv = coerce(ev.eval(state, node.args[0]), T.NAME)
    return _nodes_at_level(recv.term, lv.term, state)


@spec_function('tree_nodes', native=lambda tree, level: list(tree.nodes_at_level(level)))
def s_tree_nodes(ev, state, node):
    t = ev.eval(state, node.args[0])
    lv = coerce(ev.eval(state, node.args[1]), T.NAME)
    return _nodes_at_level(t.term, lv.term, state)
