"""Extension for the `outputs` area (C15 / C16 / C01.a / C04.b / C07.e).

Trusted spec functions (each with a native twin that is run against the real library by the
native layer / bounded modules):

  df_index(path, df_name)   the index values of the dataframe `df_name` ('obs' / 'var') stored in the
                            h5ad file at `path`, as a 1-D array of identifiers.  Uninterpreted: the
                            only fact used is that it is a function of (path, df_name) - the file is
                            not written between the call and the use (input opened read-only).
  is_ens(s)                 `gene_id.utils.is_ensembl` (regular expression; outside the prover)
  strip_version(s)          `s.split('.')[0]`
  placeholder_ct(s)         the counter k of a placeholder name `unmapped_{k}_{timestamp}`
                            (axiom: the f-string is injective in k, also after strip_version)
"""
import ast
import z3

from pyvc import types as T
from pyvc.values import SymVal, Unsupported, fresh, fresh_name, NONEVAL, seq_len, seq_at, wf
from pyvc.engine import to_int, truth, coerce
from pyvc.prims import spec_function, qualified
from pyvc import ghost

# ---------------------------------------------------------------------------------------------
# dataframes read from h5ad files
# ---------------------------------------------------------------------------------------------
_ARRN = T.TArr(T.NAME)
DF_INDEX = z3.Function('df_index', z3.IntSort(), z3.IntSort(), T.sort_of(_ARRN))


_DF_CACHE = {}


def _df_index_native(path, df_name):
    """reads the real file (cached per (path, mtime, size): clauses evaluate it inside quantifiers)"""
    import os
    import numpy as np
    from cell_type_mapper.utils.anndata_utils import read_df_from_h5ad
    st = os.stat(path)
    key = (str(path), df_name, st.st_mtime_ns, st.st_size)
    if key not in _DF_CACHE:
        if len(_DF_CACHE) > 256:
            _DF_CACHE.clear()
        _DF_CACHE[key] = np.array(list(read_df_from_h5ad(path, df_name).index.values), dtype=object)
    return _DF_CACHE[key]


@spec_function('df_index', native=_df_index_native)
def s_df_index(ev, state, node):
    p = coerce(ev.eval(state, node.args[0]), T.NAME)
    d = coerce(ev.eval(state, node.args[1]), T.NAME)
    v = SymVal(_ARRN, DF_INDEX(p.term, d.term))
    state.assume(seq_len(v) >= 0)
    return v


# ---------------------------------------------------------------------------------------------
# gene identifiers (strings are outside the prover: trusted, natively audited spec functions)
# ---------------------------------------------------------------------------------------------
IS_ENS = z3.Function('is_ens', z3.IntSort(), z3.BoolSort())
STRIP_VERSION = z3.Function('strip_version', z3.IntSort(), z3.IntSort())
PLACEHOLDER_CT = z3.Function('placeholder_ct', z3.IntSort(), z3.IntSort())
FMT_UNMAPPED = z3.Function('fmt_unmapped', z3.IntSort(), z3.IntSort(), z3.IntSort())


def _is_ens_native(s):
    """independent scanner (no `re`) for a full match of  ENS [A-Z]+ [0-9]+ ( '.' [0-9]+ )?
    with ASCII letters / digits only"""
    if not isinstance(s, str) or not s.startswith('ENS'):
        return False
    up, dg = 'ABCDEFGHIJKLMNOPQRSTUVWXYZ', '0123456789'
    i, n = 3, len(s)
    j = i
    while j < n and s[j] in up:
        j += 1
    if j == i:
        return False
    i = j
    while j < n and s[j] in dg:
        j += 1
    if j == i:
        return False
    if j == n:
        return True
    if s[j] != '.':
        return False
    i = j = j + 1
    while j < n and s[j] in dg:
        j += 1
    return j > i and j == n


def _strip_version_native(s):
    """independent of str.split: the text before the first '.'"""
    k = s.find('.')
    return s if k < 0 else s[:k]


def _placeholder_ct_native(s):
    """counter of a placeholder name, -1 if `s` is not of the form unmapped_{int}_..."""
    if not s.startswith('unmapped_'):
        return -1
    rest = s[len('unmapped_'):]
    head = rest.split('_')[0]
    try:
        return int(head)
    except ValueError:
        return -1


@spec_function('is_ens', native=_is_ens_native)
def s_is_ens(ev, state, node):
    v = coerce(ev.eval(state, node.args[0]), T.NAME)
    return SymVal(T.BOOL, IS_ENS(v.term))


@spec_function('strip_version', native=_strip_version_native)
def s_strip_version(ev, state, node):
    v = coerce(ev.eval(state, node.args[0]), T.NAME)
    return SymVal(T.NAME, STRIP_VERSION(v.term))


@spec_function('placeholder_ct', native=_placeholder_ct_native)
def s_placeholder_ct(ev, state, node):
    v = coerce(ev.eval(state, node.args[0]), T.NAME)
    return SymVal(T.INT, PLACEHOLDER_CT(v.term))


def fstring_unmapped(ev, state, vals):
    """f"unmapped_{ct}_{timestamp}"  (RandomNameGenerator.name)

    Axiom (string fact, audited natively by bounded.c16 `placeholder-format`): the decimal
    rendering of an int contains no '_' and no '.', so the counter can be read back from the
    text between the prefix 'unmapped_' and the next '_', whatever the timestamp is, and also
    after the text has been cut at its first '.'."""
    if len(vals) != 2 or vals[0].ty != T.INT or vals[1].ty not in (T.NAME,):
        return None
    a, s = vals[0].term, vals[1].term
    r = FMT_UNMAPPED(a, s)
    state.assume(PLACEHOLDER_CT(r) == a, PLACEHOLDER_CT(STRIP_VERSION(r)) == a)
    return SymVal(T.NAME, r)


try:
    from pyvc.symexec import FSTRING_HOOKS
    FSTRING_HOOKS['unmapped_{}_{}'] = fstring_unmapped
except ImportError:      # hook not available: f-strings stay fully uninterpreted
    pass


@qualified('json.dumps')
def q_json_dumps(ev, state, node):
    """json.dumps(x, ...) used only to build messages: an uninterpreted string"""
    for a in node.args:
        ev.eval(state, a)
    return fresh(T.NAME, 'json')


# ---------------------------------------------------------------------------------------------
# CommandLog (cli.cli_log): error() raises RuntimeError, info()/warn() are no-ops (A-LOG)
# ---------------------------------------------------------------------------------------------
T.record('OutLog', tag='Int')


@ghost.method('OutLog', 'error')
def m_log_error(ev, state, node, recv, ref):
    from pyvc.symexec import PendingRaise
    for a in node.args:
        ev.eval(state, a)
    ev.ctx.pending.append(PendingRaise('RuntimeError', [z3.BoolVal(True)]))
    state.assume(z3.BoolVal(False))
    return NONEVAL


@ghost.method('OutLog', 'warn')
def m_log_warn(ev, state, node, recv, ref):
    for a in node.args:
        ev.eval(state, a)
    return NONEVAL


ghost.method('OutLog', 'info')(m_log_warn)


# ---------------------------------------------------------------------------------------------
# n_unmappable(lookup, ids, k): number of positions i < k whose identifier is neither an Ensembl
# id nor a key of the lookup table (a recursive definition over k; induction is supplied by the
# loop invariant of map_gene_identifiers)
# ---------------------------------------------------------------------------------------------
_LOOKUP_T = T.TDict(T.NAME, T.NAME)
_IDS_T = T.TList(T.NAME)
N_UNMAPPABLE = z3.Function('n_unmappable', T.sort_of(_LOOKUP_T), T.sort_of(_IDS_T), z3.IntSort(),
                           z3.IntSort())


def _n_unmappable_native(lookup, ids, k):
    return sum(1 for g in list(ids)[:k] if not _is_ens_native(g) and g not in lookup)


@spec_function('n_unmappable', native=_n_unmappable_native)
def s_n_unmappable(ev, state, node):
    from pyvc.values import dict_dom
    lk = coerce(ev.eval(state, node.args[0]), _LOOKUP_T)
    ids = coerce(ev.eval(state, node.args[1]), _IDS_T)
    k = to_int(ev.eval(state, node.args[2]))
    f = lambda x: N_UNMAPPABLE(lk.term, ids.term, x)     # noqa: E731
    j = z3.Int(fresh_name('nu'))
    g = seq_at(ids, j)
    un = z3.And(z3.Not(IS_ENS(g)), z3.Not(dict_dom(lk)[g]))
    # definition (primitive recursion on k) and two consequences of it (by induction on k)
    state.assume(f(z3.IntVal(0)) == 0,
                 z3.ForAll([j], z3.Implies(j >= 0, f(j + 1) == f(j) + z3.If(un, 1, 0)),
                           patterns=[f(j + 1)]),
                 z3.ForAll([j], z3.Implies(j >= 0, z3.And(0 <= f(j), f(j) <= j)), patterns=[f(j)]))
    return SymVal(T.INT, f(k))
