"""precompute area (C09, C04.d, C18.a): trusted primitives and specification functions.

Trusted base added here (each item is an assumption about code *outside* the prover):

* A-H5AD  `read_df_from_h5ad(path, which).index.values` is a function of (path, which): input files
          are not modified while the stage runs (C19 covers "inputs untouched").
* A-PATH  `pathlib.Path(x)` identifies the same file as `x` (a path is used only as an identifier).
* A-TMP   `mkstemp_clean(...)` returns a path that it never returned before; when the contract
          declares the ghost list `tmp_created`, the new path is appended to it (creation order).

Specification functions (with definitional axioms, instantiated where the term is built; the two
lemmas about `psum` are proved by induction - base and step are discharged by z3 in
`check_lemmas()`, which runs when the module is imported):

* psum(L, D, j)   = sum of D[L[i]] over i < j with L[i] in D        (prefix sum of file sizes)
* index_of(L, p)  = some i with L[i] == p if there is one           (Hilbert choice)
"""
import ast
import z3

from pyvc import types as T
from pyvc.values import (SymVal, Unsupported, fresh, fresh_name, wf, seq_len, seq_at, dict_dom,
                         dict_val, literal, seq_append_ax)
from pyvc.engine import coerce, to_int
from pyvc.prims import qualified, spec_function, QUALIFIED
from pyvc.symexec import read_ref, write_ref
from pyvc.types import record

NAME_LIST = T.TList(T.NAME)

record('PcDFIndex', values='List[Name]')
record('PcDataFrame', index='PcDFIndex')

# one function symbol for "index values of the obs / var frame of the file at a path": the trusted
# contract of read_df_from_h5ad in contracts/c_output_utils.py states its result with `df_index`
# (pyvc/ext/outputs.py); `h5ad_names` below is the same function under this area's name
try:
    from pyvc.ext.outputs import DF_INDEX as _H5AD_NAMES
except Exception:      # outputs area absent: own symbol (then the QUALIFIED handler below is used)
    _H5AD_NAMES = z3.Function('h5ad_names', z3.IntSort(), z3.IntSort(), T.sort_of(NAME_LIST))


def _arg(node, pos, name):
    if len(node.args) > pos:
        return node.args[pos]
    for k in node.keywords:
        if k.arg == name:
            return k.value
    return None


def q_read_df_from_h5ad(ev, state, node):
    """A-H5AD: the row names of obs / var are a function of the file path"""
    pa, wa = _arg(node, 0, 'h5ad_path'), _arg(node, 1, 'df_name')
    if pa is None or wa is None:
        raise Unsupported("read_df_from_h5ad arguments")
    p = ev.eval(state, pa)
    w = ev.eval(state, wa)
    if p.ty != T.NAME or w.ty != T.NAME:
        raise Unsupported("read_df_from_h5ad of an abstracted path")
    names = SymVal(NAME_LIST, _H5AD_NAMES(p.term, w.term))
    state.assume(*wf(names))
    ity, dty = T.TRec('PcDFIndex'), T.TRec('PcDataFrame')
    return SymVal(dty, T.ctor(dty)(T.ctor(ity)(names.term)))


# another area may already model read_df_from_h5ad: reuse its handler instead of overwriting it
if 'cell_type_mapper.utils.anndata_utils.read_df_from_h5ad' not in QUALIFIED:
    qualified('cell_type_mapper.utils.anndata_utils.read_df_from_h5ad')(q_read_df_from_h5ad)


@spec_function('h5ad_names', native=None)
def s_h5ad_names(ev, state, node):
    p = coerce(ev.eval(state, node.args[0]), T.NAME)
    w = coerce(ev.eval(state, node.args[1]), T.NAME)
    return SymVal(NAME_LIST, _H5AD_NAMES(p.term, w.term))


def q_path(ev, state, node):
    """A-PATH"""
    v = ev.eval(state, node.args[0])
    if v.ty != T.NAME:
        raise Unsupported("pathlib.Path of a non-name")
    return v


if 'pathlib.Path' not in QUALIFIED:
    qualified('pathlib.Path')(q_path)


_MKSTEMP = 'cell_type_mapper.utils.utils.mkstemp_clean'
_prev_mkstemp = QUALIFIED.get(_MKSTEMP)


def q_mkstemp_clean(ev, state, node):
    """A-TMP: a path never handed out before; recorded in the ghost list `tmp_created` (creation
    order) when the contract declares it.  Composed with the handler of pyvc/ghost.py (scratch
    ghost `live`, C19) when that one is registered: it produces the fresh name, this one only adds
    the creation-order bookkeeping."""
    if _prev_mkstemp is not None:
        p = _prev_mkstemp(ev, state, node)
    else:
        for k in node.keywords:
            try:
                ev.eval(state, k.value)
            except Unsupported:
                if not ev.ctx.lenient:
                    raise
        p = fresh(T.NAME, 'tmp_path')
    ref = state.env.get('tmp_created')
    if ref is not None and p.ty == T.NAME:
        created = read_ref(state, ref)
        i = z3.Int(fresh_name('ti'))
        state.assume(z3.ForAll([i], z3.Implies(z3.And(0 <= i, i < seq_len(created)),
                                               seq_at(created, i) != p.term)))
        write_ref(state, ref, seq_append_ax(state, created, p.term, hint='tmp_created'))
    return p


if not getattr(_prev_mkstemp, '_precompute', False):
    q_mkstemp_clean._precompute = True
    QUALIFIED[_MKSTEMP] = q_mkstemp_clean


# ---------------------------------------------------------------------------------------------
# psum
# ---------------------------------------------------------------------------------------------
_PSUM = {}


def _psum_fn(lty, dty):
    key = (T.sort_of(lty), T.sort_of(dty))
    if key not in _PSUM:
        _PSUM[key] = z3.Function('psum_' + T.mangle(lty) + '_' + T.mangle(dty), key[0], key[1],
                                 z3.IntSort(), z3.IntSort())
    return _PSUM[key]


def _term(lst, dct, j):
    """contribution of position j"""
    k = seq_at(lst, j)
    return z3.If(dict_dom(dct)[k], dict_val(dct)[k], z3.IntVal(0))


def _nonneg(dct):
    k = z3.Const(fresh_name('pk'), T.sort_of(dct.ty[1]))
    return z3.ForAll([k], z3.Implies(dict_dom(dct)[k], dict_val(dct)[k] >= 0))


def _agree(l1, d1, l2, d2, j):
    i = z3.Int(fresh_name('ag'))
    a, b = seq_at(l1, i), seq_at(l2, i)
    return z3.ForAll([i], z3.Implies(
        z3.And(0 <= i, i < j),
        z3.And(a == b, dict_dom(d1)[a] == dict_dom(d2)[b],
               z3.Implies(dict_dom(d1)[a], dict_val(d1)[a] == dict_val(d2)[b]))))


def psum_facts(f, lst, dct, j):
    """definition unfolded at j (both directions) + monotonicity towards the end of the list"""
    n = seq_len(lst)
    return [
        f(lst.term, dct.term, 0) == 0,
        z3.Implies(j > 0, f(lst.term, dct.term, j) == f(lst.term, dct.term, j - 1) + _term(lst, dct, j - 1)),
        z3.Implies(j >= 0, f(lst.term, dct.term, j + 1) == f(lst.term, dct.term, j) + _term(lst, dct, j)),
        # lemma MONO (induction, check_lemmas): all sizes >= 0 and 0 <= j <= j' => 0 <= psum(j) <= psum(j')
        z3.Implies(z3.And(_nonneg(dct), 0 <= j, j <= n),
                   z3.And(0 <= f(lst.term, dct.term, j),
                          f(lst.term, dct.term, j) <= f(lst.term, dct.term, n))),
        z3.Implies(z3.And(_nonneg(dct), 0 <= j, j + 1 <= n),
                   f(lst.term, dct.term, j + 1) <= f(lst.term, dct.term, n)),
    ]


def _under_binder(*terms):
    """does a term mention a variable bound by an enclosing spec quantifier (named q_...)?"""
    seen = set()
    todo = list(terms)
    while todo:
        t = todo.pop()
        if t.get_id() in seen:
            continue
        seen.add(t.get_id())
        if z3.is_app(t):
            if t.num_args() == 0 and t.decl().name().startswith('q_'):
                return True
            todo.extend(t.children())
        elif z3.is_quantifier(t):
            todo.append(t.body())
    return False


def _psum_args(ev, state, args):
    lst = ev.eval(state, args[0])
    dct = ev.eval(state, args[1])
    j = to_int(ev.eval(state, args[2]))
    if lst.ty[0] != 'list' or dct.ty[0] != 'dict' or dct.ty[2] != T.INT:
        raise Unsupported("psum(list, dict of int, index)")
    return lst, dct, j


@spec_function('psum', native=lambda L, D, j: sum(D[p] for p in list(L)[:j] if p in D))
def s_psum(ev, state, node):
    lst, dct, j = _psum_args(ev, state, node.args)
    f = _psum_fn(lst.ty, dct.ty)
    if not _under_binder(lst.term, dct.term, j):
        state.assume(*psum_facts(f, lst, dct, j))
    return SymVal(T.INT, f(lst.term, dct.term, j))


@spec_function('lemma_psum_agree', native=lambda L1, D1, L2, D2, j: True)
def s_lemma_psum_agree(ev, state, node):
    """lemma AGREE (induction, check_lemmas): lists / dicts that agree below j have the same
    psum(j).  The instance is assumed; the call itself evaluates to True."""
    l1, d1, j = _psum_args(ev, state, [node.args[0], node.args[1], node.args[4]])
    l2, d2, _ = _psum_args(ev, state, [node.args[2], node.args[3], node.args[4]])
    if l1.ty != l2.ty or d1.ty != d2.ty:
        raise Unsupported("lemma_psum_agree over different types")
    f = _psum_fn(l1.ty, d1.ty)
    state.assume(z3.Implies(z3.And(j >= 0, _agree(l1, d1, l2, d2, j)),
                            f(l1.term, d1.term, j) == f(l2.term, d2.term, j)))
    return SymVal(T.BOOL, z3.BoolVal(True))


_INDEX_OF = {}


@spec_function('index_of', native=lambda L, p: list(L).index(p))
def s_index_of(ev, state, node):
    lst = ev.eval(state, node.args[0])
    p = coerce(ev.eval(state, node.args[1]), lst.ty[1])
    s = T.sort_of(lst.ty)
    if s not in _INDEX_OF:
        f = z3.Function('index_of_' + T.mangle(lst.ty), s, T.sort_of(lst.ty[1]), z3.IntSort())
        _INDEX_OF[s] = f
    f = _INDEX_OF[s]
    key = '_index_of_ax_' + T.mangle(lst.ty)
    if not ev.ctx.__dict__.get(key):
        ev.ctx.__dict__[key] = True
        L = z3.Const('io_L', s)
        x = z3.Const('io_x', T.sort_of(lst.ty[1]))
        i = z3.Int('io_i')
        at = T.acc(lst.ty, 'at')
        ln = T.acc(lst.ty, 'len')
        # choice: if x occurs in L then index_of(L, x) is a position holding x
        ev.ctx.axioms.append(z3.ForAll(
            [L, x, i], z3.Implies(z3.And(0 <= i, i < ln(L), at(L)[i] == x),
                                  z3.And(0 <= f(L, x), f(L, x) < ln(L), at(L)[f(L, x)] == x)),
            patterns=[z3.MultiPattern(f(L, x), at(L)[i])]))
    return SymVal(T.INT, f(lst.term, p.term))


# ---------------------------------------------------------------------------------------------
# the two lemmas about psum, proved by induction on j (base + step discharged by z3)
# ---------------------------------------------------------------------------------------------
def check_lemmas():
    lty, dty = NAME_LIST, T.TDict(T.NAME, T.INT)
    f = z3.Function('psum_chk', T.sort_of(lty), T.sort_of(dty), z3.IntSort(), z3.IntSort())
    L1, L2 = fresh(lty, 'L1'), fresh(lty, 'L2')
    D1, D2 = fresh(dty, 'D1'), fresh(dty, 'D2')
    j, jp = z3.Int('lem_j'), z3.Int('lem_jp')

    def defn(lst, dct, x):
        return [f(lst.term, dct.term, 0) == 0,
                z3.Implies(x >= 0, f(lst.term, dct.term, x + 1) == f(lst.term, dct.term, x) + _term(lst, dct, x))]

    def proved(hyps, goal):
        s = z3.Solver()
        s.set('timeout', 5000)
        s.add(*hyps)
        s.add(z3.Not(goal))
        return s.check() == z3.unsat

    ok = True
    # MONO: P(jp) := j <= jp -> psum(j) <= psum(jp)  and psum(jp) >= 0   (induction on jp)
    nn = _nonneg(D1)
    ok &= proved(defn(L1, D1, j) + [nn], f(L1.term, D1.term, 0) >= 0)
    ok &= proved(defn(L1, D1, jp) + [nn, jp >= 0, f(L1.term, D1.term, jp) >= 0],
                 f(L1.term, D1.term, jp + 1) >= 0)
    ok &= proved([], z3.Implies(j == jp, f(L1.term, D1.term, j) <= f(L1.term, D1.term, jp)))
    ok &= proved(defn(L1, D1, jp) + [nn, 0 <= j, j <= jp, f(L1.term, D1.term, j) <= f(L1.term, D1.term, jp)],
                 f(L1.term, D1.term, j) <= f(L1.term, D1.term, jp + 1))
    # AGREE: Q(j) := agree(.., j) -> psum1(j) == psum2(j)   (induction on j)
    ok &= proved(defn(L1, D1, j) + defn(L2, D2, j), f(L1.term, D1.term, 0) == f(L2.term, D2.term, 0))
    ih = z3.Implies(_agree(L1, D1, L2, D2, j), f(L1.term, D1.term, j) == f(L2.term, D2.term, j))
    ok &= proved(defn(L1, D1, j) + defn(L2, D2, j) + [j >= 0, ih, _agree(L1, D1, L2, D2, j + 1)],
                 f(L1.term, D1.term, j + 1) == f(L2.term, D2.term, j + 1))
    if not ok:
        raise RuntimeError("pyvc.ext.precompute: a psum lemma (MONO / AGREE) failed its induction check")
    return ok


check_lemmas()


# ---------------------------------------------------------------------------------------------
# numpy.sort (1-D)
# ---------------------------------------------------------------------------------------------
def q_np_sort(ev, state, node):
    """np.sort(v): a sorted permutation of v (prims.sorted_perm_of); a sequence that is already
    sorted is returned unchanged (the sorted permutation of a sorted sequence is that sequence)"""
    from pyvc.prims import sorted_perm_of
    v = ev.eval(state, node.args[0])
    if v.ty[0] not in ('arr', 'list') or v.ty[1] not in (T.INT, T.REAL, T.NAME) or node.keywords \
            or len(node.args) != 1:
        raise Unsupported("np.sort form")
    v = SymVal(T.TArr(v.ty[1]), v.term)
    r = sorted_perm_of(state, v, hint='npsort')
    i, j = z3.Int(fresh_name('so_i')), z3.Int(fresh_name('so_j'))
    n = seq_len(v)
    already = z3.ForAll([i, j], z3.Implies(z3.And(0 <= i, i < j, j < n), seq_at(v, i) <= seq_at(v, j)))
    same = z3.ForAll([i], z3.Implies(z3.And(0 <= i, i < n), seq_at(r, i) == seq_at(v, i)))
    state.assume(z3.Implies(already, same))
    return r


if 'numpy.sort' not in QUALIFIED:
    from pyvc import numpy_prims as _np_prims
    if 'numpy.sort' not in _np_prims.QUALIFIED:
        qualified('numpy.sort')(q_np_sort)


# ---------------------------------------------------------------------------------------------
# AnnDataRowIterator as used by the precompute stage: random access by get_chunk(r0, r1)
# ---------------------------------------------------------------------------------------------
record('PcRowIter', h5ad_path='Name', n_rows='Int')


def q_row_iterator(ev, state, node):
    """A-H5AD: the matrix of an h5ad file has one row per obs name (anndata invariant)"""
    if not _mine(ev):
        raise Unsupported("AnnDataRowIterator(...) is modelled for the precompute area only")
    pa = _arg(node, 0, 'h5ad_path')
    for k in node.keywords:
        if k.arg != 'h5ad_path':
            try:
                ev.eval(state, k.value)
            except Unsupported:
                if not ev.ctx.lenient:
                    raise
    p = ev.eval(state, pa)
    if p.ty != T.NAME:
        raise Unsupported("AnnDataRowIterator of an abstracted path")
    ty = T.TRec('PcRowIter')
    names = SymVal(NAME_LIST, _H5AD_NAMES(p.term, literal('obs').term))
    state.assume(*wf(names))
    return SymVal(ty, T.ctor(ty)(p.term, seq_len(names)))


_AIT = 'cell_type_mapper.anndata_iterator.anndata_iterator.AnnDataRowIterator'
if _AIT not in QUALIFIED:
    qualified(_AIT)(q_row_iterator)

from pyvc import ghost as _ghost   # noqa: E402


@_ghost.method('PcRowIter', 'get_chunk')
def m_get_chunk(ev, state, node, recv, ref):
    """trusted (C05 covers the contents): returns (rows r0:r1, r0, r1); the range must lie in the file"""
    r0 = ev.eval(state, _arg(node, 0, 'r0'))
    r1 = ev.eval(state, _arg(node, 1, 'r1'))
    a, b = to_int(r0), to_int(r1)
    n = T.acc(recv.ty, 'n_rows')(recv.term)
    ev.ctx.oblige(state, z3.And(0 <= a, a <= b, b <= n), 'requires', node,
                  'get_chunk: 0 <= r0 <= r1 <= n_rows of the file')
    ty = T.TTuple([T.OPAQUE, T.INT, T.INT])
    rows = fresh(T.OPAQUE, 'chunk_rows')
    return SymVal(ty, T.ctor(ty)(rows.term, a, b))


def q_shutil_copy(ev, state, node):
    """A-COPY: after shutil.copy(src, dst) the file at dst holds the content of src, hence the
    same obs / var names"""
    if not _mine(ev):
        raise Unsupported("shutil.copy is modelled for the precompute area only")
    sa, da = _arg(node, 0, 'src'), _arg(node, 1, 'dst')
    if sa is None or da is None:
        raise Unsupported("shutil.copy arguments")
    src, dst = ev.eval(state, sa), ev.eval(state, da)
    if src.ty != T.NAME or dst.ty != T.NAME:
        raise Unsupported("shutil.copy of abstracted paths")
    w = z3.Int(fresh_name('cw'))
    state.assume(z3.ForAll([w], _H5AD_NAMES(dst.term, w) == _H5AD_NAMES(src.term, w),
                           patterns=[_H5AD_NAMES(dst.term, w)]))
    return dst


if 'shutil.copy' not in QUALIFIED:
    qualified('shutil.copy')(q_shutil_copy)


# ---------------------------------------------------------------------------------------------
# numpy reductions used by the precompute area: M.sum(axis=0), v.sum()  (uninterpreted folds)
# ---------------------------------------------------------------------------------------------
from pyvc import numpy_prims as _npp   # noqa: E402

_AREA = ('diff_exp.truncate_precompute', 'diff_exp.precompute_utils', 'diff_exp.precompute_from_anndata',
         'utils.stats_utils.summary_stats_for_chunk')
_COLSUM = {}
_VSUM = {}


def _mine(ev):
    q = ev.ctx.qualname or ''
    return any(a in q for a in _AREA)


def _axis_of(ev, state, node):
    a = node.args[0] if node.args else None
    for k in node.keywords:
        if k.arg == 'axis':
            a = k.value
    if a is None:
        return None
    v = ev.eval(state, a)
    if v.meta and v.meta[0] == 'const':
        return v.meta[1]
    raise Unsupported("symbolic axis")


def _precompute_method(orig, ev, state, node, recv, ref, name):
    if _mine(ev) and name == 'sum':
        if recv.ty[0] == 'arr2' and recv.ty[1] in (T.INT, T.REAL) and _axis_of(ev, state, node) == 0:
            # column sums: colsum(M, c), an uninterpreted function of the matrix and the column
            s = T.sort_of(recv.ty)
            if s not in _COLSUM:
                _COLSUM[s] = z3.Function('colsum_' + T.mangle(recv.ty), s, z3.IntSort(), T.sort_of(recv.ty[1]))
            n1 = T.acc(recv.ty, 'n1')(recv.term)
            r = fresh(T.TArr(recv.ty[1]), 'colsums')
            c = z3.Int(fresh_name('cs'))
            state.assume(seq_len(r) == n1,
                         z3.ForAll([c], z3.Implies(z3.And(0 <= c, c < n1),
                                                   seq_at(r, c) == _COLSUM[s](recv.term, c))))
            return r
        if recv.ty[0] == 'arr' and recv.ty[1] in (T.INT, T.REAL) and not node.args and not node.keywords:
            s = T.sort_of(recv.ty)
            if s not in _VSUM:
                _VSUM[s] = z3.Function('vsum_' + T.mangle(recv.ty), s, T.sort_of(recv.ty[1]))
            return SymVal(recv.ty[1], _VSUM[s](recv.term))
    return orig(ev, state, node, recv, ref, name)


def install_hooks():
    """wrap numpy_prims.method (outermost, idempotent).  Called from the contract files of this area,
    i.e. after every extension module is loaded: other areas wrap the same function without a gate
    and would otherwise reject `M.sum(axis=0)` before this model is consulted."""
    if getattr(_npp.method, '_precompute', False):
        return
    orig = _npp.method

    def _wrapped_method(ev, state, node, recv, ref, name):
        return _precompute_method(orig, ev, state, node, recv, ref, name)
    _wrapped_method.__name__ = 'method'
    _wrapped_method._precompute = True
    _npp.method = _wrapped_method
