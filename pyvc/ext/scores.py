"""Extension primitives for the `scores` area (C11 reference markers, C12 marker selection).

Everything here is TRUSTED BASE: each primitive states the numpy semantics it assumes.  Floats
are reals (A-REAL): `np.isfinite` is therefore constantly True and `np.log` is an uninterpreted
strictly increasing function on the positive reals.

The generic array hooks of the core (`numpy_prims.arr_binop`, `.arr_compare`, `.method`,
`.attribute`, `.arr2_subscript`, `.arr2_store`) are looked up through the module at call time; this
file *wraps* them: a wrapper handles the forms the core rejects as Unsupported and delegates
everything else unchanged, so no proof that was possible before changes meaning.
"""
import ast
import math
import z3

from pyvc import types as T
from pyvc.values import (SymVal, Unsupported, fresh, fresh_name, const_int, const_real, const_bool,
                         NONEVAL, wf, seq_len, seq_at, mk_seq, empty_seq, literal)
from pyvc.engine import is_num, to_real, to_int, truth, join_types, coerce
from pyvc import numpy_prims as NP
from pyvc import prims as P
from pyvc import symexec as SX
from pyvc import execs as EX
from pyvc.symexec import select

q = NP.q


def _in(i, n):
    return z3.And(0 <= i, i < n)


def _is_seq(v):
    return v.ty[0] in ('arr', 'list')


def _elem(v, i, ety=None):
    """element i of an array, or the scalar itself"""
    if _is_seq(v):
        e = SymVal(v.ty[1], seq_at(v, i))
    else:
        e = v
    if ety is None:
        return e
    return coerce(e, ety)


def _pointwise(state, n, ety, fn, hint='pw'):
    """fresh array r of length n with r[i] == fn(i)"""
    r = fresh(T.TArr(ety), hint)
    i = z3.Int(fresh_name('pi'))
    state.assume(seq_len(r) == n,
                 z3.ForAll([i], z3.Implies(_in(i, n), seq_at(r, i) == fn(i))))
    return r


def _wrap(mod, name, new):
    old = getattr(mod, name)

    def wrapped(*a, **k):
        return new(old, *a, **k)
    wrapped.__name__ = name
    setattr(mod, name, wrapped)
    return old


# ---------------------------------------------------------------------------------------------
# 1-D arithmetic: a ** k (k = 2, 3, 4 literal), array / array
# ---------------------------------------------------------------------------------------------
SQ = z3.Function('sq', z3.RealSort(), z3.RealSort())


def _sq_axioms(ctx):
    """x**2 on real arrays is kept abstract (no non-linear arithmetic in the VCs): only
    sq(x) >= 0, sq(x) == 0 <=> x == 0 and |x| >= 1 => sq(x) >= 1 are assumed; contracts name it `sq(x)`"""
    if getattr(ctx, '_sq_axioms_done', False):
        return
    ctx._sq_axioms_done = True
    x = z3.Real('sqx')
    ctx.axioms.append(z3.ForAll([x], z3.And(SQ(x) >= 0, (SQ(x) == 0) == (x == 0),
                                            z3.Implies(z3.Or(x >= 1, x <= -1), SQ(x) >= 1)),
                                patterns=[SQ(x)]))


@P.spec_function('sq', native=lambda x: x * x)
def s_sq(ev, state, node):
    _sq_axioms(ev.ctx)
    v = ev.eval(state, node.args[0])
    return SymVal(T.REAL, SQ(to_real(v)))


def _arr_binop(orig, ev, state, op, a, b, node):
    if a.ty[0] == 'arr2' or b.ty[0] == 'arr2':
        return _arr2_binop(ev, state, op, a, b, node)
    if isinstance(op, ast.Pow) and a.ty[0] == 'arr' and b.meta and b.meta[0] == 'const' \
            and isinstance(b.meta[1], int) and 1 <= b.meta[1] <= 4 and a.ty[1] in (T.INT, T.REAL):
        k = b.meta[1]
        if k == 2 and a.ty[1] == T.REAL:
            _sq_axioms(ev.ctx)
            return _pointwise(state, seq_len(a), T.REAL, lambda i: SQ(seq_at(a, i)), 'sq')

        def f(i):
            x = seq_at(a, i)
            r = x
            for _ in range(k - 1):
                r = r * x
            return r
        return _pointwise(state, seq_len(a), a.ty[1], f, 'pow')
    if isinstance(op, ast.Div) and b.ty[0] == 'arr' and a.ty[0] in ('arr', 'int', 'real') and \
            b.ty[1] in (T.INT, T.REAL):
        n = seq_len(b)
        if a.ty[0] == 'arr':
            ev.ctx.oblige(state, seq_len(a) == n, 'ValueError', node, 'operands have the same length')
        j = z3.Int(fresh_name('dj'))
        # numpy does not raise on x/0 (inf / nan + warning); reals have no such values, so the
        # model demands a non-zero divisor everywhere (stricter than numpy)
        ev.ctx.oblige(state, z3.ForAll([j], z3.Implies(_in(j, n), to_real(_elem(b, j)) != 0)),
                      'ZeroDivisionError', node, 'every element of the divisor array is non-zero (A-REAL)')
        return _pointwise(state, n, T.REAL,
                          lambda i: to_real(_elem(a, i)) / to_real(_elem(b, i)), 'adiv')
    r = orig(ev, state, op, a, b, node)
    if isinstance(op, ast.Mult) and a.ty[0] == 'arr' and b.ty[0] == 'arr' and r.ty[0] == 'arr':
        # true lemmas about the element-wise product (help the non-linear reasoning):
        #   x >= 0 and y >= 1  =>  x*y >= x ;  symmetric
        i = z3.Int(fresh_name('ml'))
        x, y, xy = to_real(_elem(a, i)), to_real(_elem(b, i)), to_real(_elem(r, i))
        state.assume(z3.ForAll([i], z3.Implies(_in(i, seq_len(r)),
                                               z3.And(z3.Implies(z3.And(x >= 0, y >= 1), xy >= x),
                                                      z3.Implies(z3.And(y >= 0, x >= 1), xy >= y))),
                               patterns=[seq_at(r, i)]))
    return r


_wrap(NP, 'arr_binop', _arr_binop)


# ---------------------------------------------------------------------------------------------
# np.where(c, a, b), np.abs, np.log, np.isfinite, np.copy, np.clip, np.maximum.accumulate
# ---------------------------------------------------------------------------------------------
_orig_where = NP.QUALIFIED['numpy.where']


@q('numpy.where')
def np_where(ev, state, node):
    if len(node.args) == 1:
        m = ev.eval(state, node.args[0])
        if m.ty == T.TArr2(T.BOOL):
            return _where2(ev, state, m, node)
        return _orig_where(ev, state, node)
    if len(node.args) != 3:
        raise Unsupported("np.where arity")
    c, a, b = [ev.eval(state, x) for x in node.args]
    if c.ty != T.TArr(T.BOOL):
        raise Unsupported("np.where condition")
    n = seq_len(c)
    ety = None
    for v in (a, b):
        t = v.ty[1] if _is_seq(v) else v.ty
        ety = t if ety is None else join_types(ety, t)
    if ety not in (T.INT, T.REAL, T.BOOL):
        raise Unsupported("np.where branches")
    for v in (a, b):
        if _is_seq(v):
            ev.ctx.oblige(state, seq_len(v) == n, 'ValueError', node, 'np.where operands have the same length')
    return _pointwise(state, n, ety,
                      lambda i: z3.If(seq_at(c, i), _elem(a, i, ety).term, _elem(b, i, ety).term), 'where3')


def _abs_term(t):
    return z3.If(t < 0, -t, t)


@q('numpy.abs', 'numpy.fabs', 'numpy.absolute')
def np_abs(ev, state, node):
    v = ev.eval(state, node.args[0])
    if _is_seq(v) and v.ty[1] in (T.INT, T.REAL):
        return _pointwise(state, seq_len(v), v.ty[1], lambda i: _abs_term(seq_at(v, i)), 'abs')
    if v.ty in (T.INT, T.REAL):
        return SymVal(v.ty, _abs_term(v.term))
    raise Unsupported("np.abs operand")


LN = z3.Function('ln', z3.RealSort(), z3.RealSort())


def _ln_axioms(ctx):
    if getattr(ctx, '_ln_axioms_done', False):
        return
    ctx._ln_axioms_done = True
    x, y = z3.Real('lnx'), z3.Real('lny')
    # the natural logarithm is strictly increasing on the positive reals
    ctx.axioms.append(z3.ForAll([x, y], z3.Implies(z3.And(0 < x, x < y), LN(x) < LN(y)),
                                patterns=[z3.MultiPattern(LN(x), LN(y))]))


@q('numpy.log')
def np_log(ev, state, node):
    _ln_axioms(ev.ctx)
    v = ev.eval(state, node.args[0])
    if _is_seq(v) and v.ty[1] in (T.INT, T.REAL):
        return _pointwise(state, seq_len(v), T.REAL, lambda i: LN(to_real(_elem(v, i))), 'log')
    if v.ty in (T.INT, T.REAL):
        return SymVal(T.REAL, LN(to_real(v)))
    raise Unsupported("np.log operand")


@P.spec_function('ln', native=lambda x: math.log(x))
def s_ln(ev, state, node):
    _ln_axioms(ev.ctx)
    v = ev.eval(state, node.args[0])
    return SymVal(T.REAL, LN(to_real(v)))


@q('numpy.isfinite')
def np_isfinite(ev, state, node):
    # A-REAL: every modelled float is a real number, hence finite
    v = ev.eval(state, node.args[0])
    if _is_seq(v):
        return _pointwise(state, seq_len(v), T.BOOL, lambda i: z3.BoolVal(True), 'finite')
    return const_bool(True)


@q('numpy.copy')
def np_copy(ev, state, node):
    v = ev.eval(state, node.args[0])
    if v.ty[0] in ('arr', 'arr2'):
        return SymVal(v.ty, v.term)
    if v.ty[0] == 'list':
        return SymVal(T.TArr(v.ty[1]), v.term)
    raise Unsupported("np.copy operand")


@q('numpy.clip')
def np_clip(ev, state, node):
    v = ev.eval(state, node.args[0])
    lo = node.args[1] if len(node.args) > 1 else NP._kw(node, 'a_min')
    hi = node.args[2] if len(node.args) > 2 else NP._kw(node, 'a_max')
    lo = ev.eval(state, lo) if lo is not None else NONEVAL
    hi = ev.eval(state, hi) if hi is not None else NONEVAL
    if not (_is_seq(v) and v.ty[1] in (T.INT, T.REAL)):
        raise Unsupported("np.clip operand")
    ety = v.ty[1]
    for b in (lo, hi):
        if b.ty != T.NONE:
            if b.ty not in (T.INT, T.REAL):
                raise Unsupported("np.clip bound")
            ety = join_types(ety, b.ty)

    def f(i):
        x = _elem(v, i, ety).term
        if lo.ty != T.NONE:
            l_ = coerce(lo, ety).term
            x = z3.If(x < l_, l_, x)
        if hi.ty != T.NONE:
            h_ = coerce(hi, ety).term
            x = z3.If(x > h_, h_, x)
        return x
    return _pointwise(state, seq_len(v), ety, f, 'clip')


@q('numpy.maximum.accumulate')
def np_maximum_accumulate(ev, state, node):
    v = ev.eval(state, node.args[0])
    if not (_is_seq(v) and v.ty[1] in (T.INT, T.REAL)):
        raise Unsupported("maximum.accumulate operand")
    n = seq_len(v)
    r = fresh(T.TArr(v.ty[1]), 'runmax')
    w = z3.Function(fresh_name('runmax_at'), z3.IntSort(), z3.IntSort())
    i, j = z3.Int(fresh_name('i')), z3.Int(fresh_name('j'))
    # r[i] = max(v[0..i]) : an upper bound of the prefix that is attained in the prefix
    state.assume(seq_len(r) == n,
                 z3.ForAll([i, j], z3.Implies(z3.And(0 <= j, j <= i, i < n), seq_at(r, i) >= seq_at(v, j))),
                 z3.ForAll([i], z3.Implies(_in(i, n), z3.And(0 <= w(i), w(i) <= i,
                                                             seq_at(r, i) == seq_at(v, w(i))))))
    return r


# ---------------------------------------------------------------------------------------------
# counting: mask.sum(), M.sum(), M.sum(axis=1), .size
# ---------------------------------------------------------------------------------------------
_COUNT1 = {}


def count_true(v):
    """number of True entries of a 1-D bool array (uninterpreted function of the array value)"""
    s = T.sort_of(v.ty)
    if s not in _COUNT1:
        _COUNT1[s] = z3.Function('count_true', s, z3.IntSort())
    return _COUNT1[s](v.term)


def _count_facts(state, v):
    n = seq_len(v)
    c = count_true(v)
    i = z3.Int(fresh_name('ci'))
    wt = z3.Int(fresh_name('cw_true'))
    wf_ = z3.Int(fresh_name('cw_false'))
    # 0 <= c <= n ; c == n iff all True ; c == 0 iff all False (skolemised witnesses)
    state.assume(0 <= c, c <= n,
                 z3.Implies(c == n, z3.ForAll([i], z3.Implies(_in(i, n), seq_at(v, i)))),
                 z3.Implies(c == 0, z3.ForAll([i], z3.Implies(_in(i, n), z3.Not(seq_at(v, i))))),
                 z3.Implies(c < n, z3.And(_in(wf_, n), z3.Not(seq_at(v, wf_)))),
                 z3.Implies(c > 0, z3.And(_in(wt, n), seq_at(v, wt))))
    return SymVal(T.INT, c)


def _method(orig, ev, state, node, recv, ref, name):
    k = recv.ty[0]
    if k == 'arr' and name == 'sum' and not node.args and not node.keywords:
        if recv.ty[1] == T.BOOL:
            return _count_facts(state, recv)
        raise Unsupported("arr.sum() of numbers")
    if k == 'arr2':
        r = _arr2_method(ev, state, node, recv, ref, name)
        if r is not None:
            return r
    return orig(ev, state, node, recv, ref, name)


_wrap(NP, 'method', _method)


# ---------------------------------------------------------------------------------------------
# a[idx] = v ,  a[mask] = v ,  a[idx] op= v ,  a[mask] op= v     (1-D)
# ---------------------------------------------------------------------------------------------
def _positions(ev, state, mask, node):
    """strictly increasing array of the positions where mask is True"""
    n = seq_len(mask)
    ar = _pointwise(state, n, T.INT, lambda i: i, 'arange_for_mask')
    return NP.mask_select(ev, state, ar, mask, node)


def _scatter(ev, state, base, idx, val_at, node, hint):
    """r = base with r[idx[k]] = val_at(k, idx[k]) ; the last write to a position wins"""
    n, m = seq_len(base), seq_len(idx)
    k, i = z3.Int(fresh_name('sk')), z3.Int(fresh_name('si'))
    ev.ctx.oblige(state, z3.ForAll([k], z3.Implies(_in(k, m), _in(seq_at(idx, k), n))),
                  'IndexError', node, 'index array within range (negative indices not modelled)')
    r = fresh(base.ty, hint)
    hit = z3.Function(fresh_name('lastw'), z3.IntSort(), z3.IntSort())   # position -> last k writing it
    h = hit(seq_at(idx, k))
    state.assume(
        seq_len(r) == n,
        z3.ForAll([k], z3.Implies(_in(k, m),
                                  z3.And(k <= h, h < m, seq_at(idx, h) == seq_at(idx, k),
                                         seq_at(r, seq_at(idx, k)) == val_at(h, seq_at(idx, k)))),
                  patterns=[seq_at(idx, k)]),
        z3.ForAll([i], z3.Implies(_in(i, n),
                                  z3.Or(seq_at(r, i) == seq_at(base, i),
                                        z3.And(_in(hit(i), m), seq_at(idx, hit(i)) == i))),
                  patterns=[seq_at(r, i)]))
    return r


def fancy_store(ev, state, base, idx, v, node):
    if base.ty[0] != 'arr':
        raise Unsupported("fancy store into a list")
    ety = base.ty[1]
    n = seq_len(base)
    if idx.ty[1] == T.BOOL:
        ev.ctx.oblige(state, seq_len(idx) == n, 'IndexError', node, 'mask has the length of the array')
        if not _is_seq(v):
            s = coerce(v, ety).term
            return _pointwise(state, n, ety, lambda i: z3.If(seq_at(idx, i), s, seq_at(base, i)), 'mstore')
        idx = _positions(ev, state, idx, node)
    if idx.ty[1] != T.INT:
        raise Unsupported("fancy store index type")
    if _is_seq(v):
        ev.ctx.oblige(state, seq_len(v) == seq_len(idx), 'ValueError', node,
                      'one value per index (no broadcasting)')
        return _scatter(ev, state, base, idx, lambda h, i: _elem(v, h, ety).term, node, 'fstore')
    s = coerce(v, ety).term
    return _scatter(ev, state, base, idx, lambda h, i: s, node, 'fstore')


def fancy_augstore(ev, state, base, idx, op, rhs, node):
    """a[idx] op= rhs  ==  a[idx] = a[idx] op rhs  (numpy buffers the read: a repeated index is
    updated once, from the ORIGINAL value)"""
    if base.ty[0] != 'arr' or base.ty[1] not in (T.INT, T.REAL):
        raise Unsupported("fancy aug-store target")
    ety = base.ty[1]
    n = seq_len(base)
    if _is_seq(rhs):
        rty = rhs.ty[1]
    else:
        rty = rhs.ty
    if join_types(ety, rty) != ety:
        raise Unsupported("fancy aug-store would change the dtype")

    def new(h, i):
        return NP.elem_arith(op, seq_at(base, i), _elem(rhs, h, ety).term, ety == T.REAL)
    if isinstance(op, ast.Div):
        raise Unsupported("a[idx] /= v")
    if idx.ty[1] == T.BOOL:
        ev.ctx.oblige(state, seq_len(idx) == n, 'IndexError', node, 'mask has the length of the array')
        if not _is_seq(rhs):
            return _pointwise(state, n, ety, lambda i: z3.If(seq_at(idx, i), new(0, i), seq_at(base, i)),
                              'maug')
        idx = _positions(ev, state, idx, node)
    if _is_seq(rhs):
        ev.ctx.oblige(state, seq_len(rhs) == seq_len(idx), 'ValueError', node, 'one value per index')
    return _scatter(ev, state, base, idx, new, node, 'faug')


if not hasattr(NP, 'fancy_store'):
    NP.fancy_store = fancy_store
if not hasattr(NP, 'fancy_augstore'):
    NP.fancy_augstore = fancy_augstore


# ---------------------------------------------------------------------------------------------
# {'a': x, 'b': y} with values of different types -> the declared record with exactly those keys
# ---------------------------------------------------------------------------------------------
def _e_Dict(orig):
    def e_Dict(self, state, node):
        if node.keys and all(isinstance(k, ast.Constant) and isinstance(k.value, str) for k in node.keys):
            names = [k.value for k in node.keys]
            for rname, flds in T.RECORDS.items():
                # only records declared as dict literals (name prefix D_) with exactly these keys
                if rname.startswith('D_') and '__rest__' not in flds and \
                        set(flds.keys()) == set(names) and len(names) == len(flds):
                    vals = {k.value: self.eval(state, v) for k, v in zip(node.keys, node.values)}
                    try:
                        parts = [coerce(vals[f], ft).term for f, ft in flds.items()]
                    except Unsupported:
                        continue
                    ty = T.TRec(rname)
                    return SymVal(ty, T.ctor(ty)(*parts))
        return orig(self, state, node)
    return e_Dict


SX.Evaluator.e_Dict = _e_Dict(SX.Evaluator.e_Dict)


# ---------------------------------------------------------------------------------------------
# 2-D arrays (Arr2): comparisons, column read / write, row sums, where, size
# ---------------------------------------------------------------------------------------------
def _pointwise2(state, n0, n1, ety, fn, hint='pw2'):
    ty = T.TArr2(ety)
    r = fresh(ty, hint)
    i, j = z3.Int(fresh_name('pi')), z3.Int(fresh_name('pj'))
    state.assume(NP.m_n0(r) == n0, NP.m_n1(r) == n1,
                 z3.ForAll([i, j], z3.Implies(z3.And(_in(i, n0), _in(j, n1)),
                                              NP.m_at(r, i, j) == fn(i, j))))
    return r


def _elem2(v, i, j, ety=None):
    if v.ty[0] == 'arr2':
        e = SymVal(v.ty[1], NP.m_at(v, i, j))
    else:
        e = v
    return e if ety is None else coerce(e, ety)


def _shape2(ev, state, a, b, node):
    ms = [v for v in (a, b) if v.ty[0] == 'arr2']
    for v in (a, b):
        if v.ty[0] not in ('arr2', 'int', 'real', 'bool'):
            raise Unsupported("2-D operation with a 1-D operand (broadcasting not modelled)")
    if len(ms) == 2:
        ev.ctx.oblige(state, z3.And(NP.m_n0(a) == NP.m_n0(b), NP.m_n1(a) == NP.m_n1(b)), 'ValueError',
                      node, '2-D operands have the same shape')
    return NP.m_n0(ms[0]), NP.m_n1(ms[0])


def _arr2_binop(ev, state, op, a, b, node):
    n0, n1 = _shape2(ev, state, a, b, node)
    ety = None
    for v in (a, b):
        t = v.ty[1] if v.ty[0] == 'arr2' else v.ty
        ety = t if ety is None else join_types(ety, t)
    if ety not in (T.INT, T.REAL) or isinstance(op, (ast.Div, ast.Pow)):
        raise Unsupported("2-D array arithmetic form")
    return _pointwise2(state, n0, n1, ety,
                       lambda i, j: NP.elem_arith(op, _elem2(a, i, j, ety).term, _elem2(b, i, j, ety).term,
                                                  ety == T.REAL), 'arr2op')


def _arr_compare(orig, ev, state, op, a, b, node):
    if a.ty[0] == 'arr2' or b.ty[0] == 'arr2':
        n0, n1 = _shape2(ev, state, a, b, node)
        i, j = z3.Int(fresh_name('ci')), z3.Int(fresh_name('cj'))
        c = ev.compare(state, op, _elem2(a, i, j), _elem2(b, i, j), node)
        r = fresh(T.TArr2(T.BOOL), 'cmp2')
        state.assume(NP.m_n0(r) == n0, NP.m_n1(r) == n1,
                     z3.ForAll([i, j], z3.Implies(z3.And(_in(i, n0), _in(j, n1)), NP.m_at(r, i, j) == c)))
        return r
    return orig(ev, state, op, a, b, node)


_wrap(NP, 'arr_compare', _arr_compare)


def _np_logical2(orig_name):
    orig = NP.QUALIFIED[orig_name]

    def h(ev, state, node):
        vals = [ev.eval(state, x) for x in node.args]
        if any(v.ty == T.TArr2(T.BOOL) for v in vals):
            if orig_name.endswith('not'):
                a = vals[0]
                return _pointwise2(state, NP.m_n0(a), NP.m_n1(a), T.BOOL,
                                   lambda i, j: z3.Not(NP.m_at(a, i, j)), 'lnot2')
            a, b = vals
            if a.ty != b.ty:
                raise Unsupported("2-D logical op operands")
            ev.ctx.oblige(state, z3.And(NP.m_n0(a) == NP.m_n0(b), NP.m_n1(a) == NP.m_n1(b)), 'ValueError',
                          node, 'same shape')
            f = z3.And if orig_name.endswith('and') else z3.Or
            return _pointwise2(state, NP.m_n0(a), NP.m_n1(a), T.BOOL,
                               lambda i, j: f(NP.m_at(a, i, j), NP.m_at(b, i, j)), 'logic2')
        # operands were evaluated once already; evaluation is pure, delegate
        return orig(ev, state, node)
    NP.QUALIFIED[orig_name] = h


for _n in ('numpy.logical_and', 'numpy.logical_or', 'numpy.logical_not'):
    _np_logical2(_n)


_COUNT2 = {}
_ROWSUM = {}


def _arr2_method(ev, state, node, recv, ref, name):
    n0, n1 = NP.m_n0(recv), NP.m_n1(recv)
    ety = recv.ty[1]
    if name == 'sum':
        axis = NP._kw(node, 'axis')
        if axis is None and node.args:
            axis = node.args[0]
        if axis is None:
            if ety != T.BOOL:
                raise Unsupported("M.sum() of numbers")
            s = T.sort_of(recv.ty)
            if s not in _COUNT2:
                _COUNT2[s] = z3.Function('count_true2', s, z3.IntSort())
            c = _COUNT2[s](recv.term)
            i, j = z3.Int(fresh_name('ci')), z3.Int(fresh_name('cj'))
            wi, wj = z3.Int(fresh_name('cwi')), z3.Int(fresh_name('cwj'))
            # 0 <= c <= n0*n1 ; c == n0*n1 iff every cell is True
            state.assume(0 <= c, c <= n0 * n1,
                         z3.Implies(c == n0 * n1,
                                    z3.ForAll([i, j], z3.Implies(z3.And(_in(i, n0), _in(j, n1)),
                                                                 NP.m_at(recv, i, j)))),
                         z3.Implies(c < n0 * n1, z3.And(_in(wi, n0), _in(wj, n1),
                                                        z3.Not(NP.m_at(recv, wi, wj)))))
            return SymVal(T.INT, c)
        av = ev.eval(state, axis)
        if not (av.meta and av.meta[0] == 'const' and av.meta[1] == 1):
            raise Unsupported("M.sum(axis) with axis != 1")
        s = T.sort_of(recv.ty)
        if s not in _ROWSUM:
            _ROWSUM[s] = z3.Function('rowsum_' + T.mangle(recv.ty), s, z3.IntSort(),
                                     T.sort_of(T.INT if ety == T.BOOL else ety))
        rs = _ROWSUM[s]
        oty = T.INT if ety == T.BOOL else ety
        r = _pointwise(state, n0, oty, lambda i: rs(recv.term, i), 'rowsum')
        i = z3.Int(fresh_name('ri'))

        def cell(i_, j_):
            e = NP.m_at(recv, i_, j_)
            return z3.If(e, 1, 0) if ety == T.BOOL else e
        # the row sum is known exactly for the widths the code base uses (<= 2 columns)
        state.assume(z3.ForAll([i], z3.Implies(z3.And(_in(i, n0), n1 == 2),
                                               rs(recv.term, i) == cell(i, 0) + cell(i, 1)),
                               patterns=[rs(recv.term, i)]),
                     z3.ForAll([i], z3.Implies(z3.And(_in(i, n0), n1 == 1), rs(recv.term, i) == cell(i, 0)),
                               patterns=[rs(recv.term, i)]),
                     z3.ForAll([i], z3.Implies(z3.And(_in(i, n0), n1 == 0), rs(recv.term, i) == 0),
                               patterns=[rs(recv.term, i)]))
        return r
    if name == 'copy':
        return SymVal(recv.ty, recv.term)
    return None


def _attribute(orig, ev, state, base, attr, node):
    if base.ty[0] == 'arr2' and attr == 'size':
        return SymVal(T.INT, NP.m_n0(base) * NP.m_n1(base))
    return orig(ev, state, base, attr, node)


_wrap(NP, 'attribute', _attribute)


def _col_index(ev, state, base, b, node):
    jv = ev.eval(state, b)
    if jv.ty != T.INT:
        return None
    j = to_int(jv)
    ev.ctx.oblige(state, _in(j, NP.m_n1(base)), 'IndexError', node, 'column index in range')
    return j


def _arr2_subscript(orig, ev, state, base, node):
    sl = node.slice
    if isinstance(sl, ast.Tuple) and len(sl.elts) == 2:
        a, b = sl.elts
        if NP._is_full_slice(a) and not isinstance(b, ast.Slice):
            j = _col_index(ev, state, base, b, node)
            if j is not None:
                return _pointwise(state, NP.m_n0(base), base.ty[1], lambda i: NP.m_at(base, i, j), 'col')
    return orig(ev, state, base, node)


_wrap(NP, 'arr2_subscript', _arr2_subscript)


def _arr2_store(orig, ev, state, base, target, v, node):
    sl = target.slice
    n0, n1 = NP.m_n0(base), NP.m_n1(base)
    ety = base.ty[1]
    if isinstance(sl, ast.Tuple) and len(sl.elts) == 2:
        a, b = sl.elts
        if NP._is_full_slice(a) and not isinstance(b, ast.Slice):
            # M[:, j] = column
            j = _col_index(ev, state, base, b, node)
            if j is not None:
                if _is_seq(v):
                    ev.ctx.oblige(state, seq_len(v) == n0, 'ValueError', node,
                                  'column has the height of the matrix')
                return _pointwise2(state, n0, n1, ety,
                                   lambda x, y: z3.If(y == j, _elem(v, x, ety).term, NP.m_at(base, x, y)),
                                   'colstore')
        if not isinstance(a, ast.Slice) and not isinstance(b, ast.Slice):
            av, bv = ev.eval(state, a), ev.eval(state, b)
            if _is_seq(av) and av.ty[1] == T.INT and _is_seq(bv) and bv.ty[1] == T.INT and not _is_seq(v):
                # M[rows, cols] = scalar  (paired index arrays)
                m = seq_len(av)
                k = z3.Int(fresh_name('k'))
                ev.ctx.oblige(state, seq_len(bv) == m, 'IndexError', node, 'index arrays have the same length')
                ev.ctx.oblige(state, z3.ForAll([k], z3.Implies(_in(k, m), z3.And(_in(seq_at(av, k), n0),
                                                                                 _in(seq_at(bv, k), n1)))),
                              'IndexError', node, 'paired indices in range')
                s = coerce(v, ety).term
                r = fresh(base.ty, 'pstore')
                hit = z3.Function(fresh_name('phit'), z3.IntSort(), z3.IntSort(), z3.IntSort())
                x, y = z3.Int(fresh_name('x')), z3.Int(fresh_name('y'))
                state.assume(
                    NP.m_n0(r) == n0, NP.m_n1(r) == n1,
                    z3.ForAll([k], z3.Implies(_in(k, m), NP.m_at(r, seq_at(av, k), seq_at(bv, k)) == s)),
                    z3.ForAll([x, y], z3.Implies(
                        z3.And(_in(x, n0), _in(y, n1)),
                        z3.Or(NP.m_at(r, x, y) == NP.m_at(base, x, y),
                              z3.And(_in(hit(x, y), m), seq_at(av, hit(x, y)) == x,
                                     seq_at(bv, hit(x, y)) == y)))))
                return r
    return orig(ev, state, base, target, v, node)


_wrap(NP, 'arr2_store', _arr2_store)


def _where2(ev, state, m, node):
    """np.where(M) for a 2-D bool array: (rows, cols) of the True cells in row-major order"""
    n0, n1 = NP.m_n0(m), NP.m_n1(m)
    rows = fresh(T.TArr(T.INT), 'where_rows')
    cols = fresh(T.TArr(T.INT), 'where_cols')
    pos = z3.Function(fresh_name('wpos'), z3.IntSort(), z3.IntSort(), z3.IntSort())
    k, k2 = z3.Int(fresh_name('k')), z3.Int(fresh_name('k2'))
    i, j = z3.Int(fresh_name('i')), z3.Int(fresh_name('j'))
    c = seq_len(rows)
    state.assume(
        seq_len(cols) == c, c >= 0,
        z3.ForAll([k], z3.Implies(_in(k, c), z3.And(_in(seq_at(rows, k), n0), _in(seq_at(cols, k), n1),
                                                    NP.m_at(m, seq_at(rows, k), seq_at(cols, k)),
                                                    pos(seq_at(rows, k), seq_at(cols, k)) == k))),
        z3.ForAll([k, k2], z3.Implies(z3.And(0 <= k, k < k2, k2 < c),
                                      z3.Or(seq_at(rows, k) < seq_at(rows, k2),
                                            z3.And(seq_at(rows, k) == seq_at(rows, k2),
                                                   seq_at(cols, k) < seq_at(cols, k2))))),
        z3.ForAll([i, j], z3.Implies(z3.And(_in(i, n0), _in(j, n1), NP.m_at(m, i, j)),
                                     z3.And(_in(pos(i, j), c), seq_at(rows, pos(i, j)) == i,
                                            seq_at(cols, pos(i, j)) == j))))
    ty = T.TTuple([rows.ty, cols.ty])
    return SymVal(ty, T.ctor(ty)(rows.term, cols.term))


# ---------------------------------------------------------------------------------------------
# spec helpers
# ---------------------------------------------------------------------------------------------
def _deep_equal(a, b):
    import numpy as np
    if isinstance(a, dict) and isinstance(b, dict):
        return set(a) == set(b) and all(_deep_equal(a[k], b[k]) for k in a)
    if isinstance(a, (list, tuple)) and isinstance(b, (list, tuple)):
        return len(a) == len(b) and all(_deep_equal(x, y) for x, y in zip(a, b))
    if isinstance(a, np.ndarray) or isinstance(b, np.ndarray):
        return np.array_equal(np.asarray(a), np.asarray(b))
    return a == b


@P.spec_function('same', native=_deep_equal)
def s_same(ev, state, node):
    """structural equality (== on containers; natively: deep equality that understands numpy arrays)"""
    from pyvc.engine import values_equal
    a, b = [ev.eval(state, x) for x in node.args]
    return SymVal(T.BOOL, values_equal(a, b))


# ---------------------------------------------------------------------------------------------
# argsort: the core axiom (permutation + order) restated with a trigger on the sorted operand,
# so that "for every position j of the operand there is a rank k with r[k] == j" fires on v[j]
# ---------------------------------------------------------------------------------------------
_orig_argsort = NP.QUALIFIED['numpy.argsort']


@q('numpy.argsort')
def np_argsort(ev, state, node):
    r = _orig_argsort(ev, state, node)
    v = ev.eval(state, node.args[0])
    n = seq_len(v)
    rank = z3.Function(fresh_name('argsort_rank'), z3.IntSort(), z3.IntSort())
    j = z3.Int(fresh_name('j'))
    pats = [T.acc(v.ty, 'at')(leaf)[j] for leaf in _ite_leaves(v.term)]
    state.assume(z3.ForAll([j], z3.Implies(_in(j, n), z3.And(_in(rank(j), n), seq_at(r, rank(j)) == j)),
                           patterns=pats))
    return r


def _ite_leaves(t, limit=8):
    """leaves of a (nested) if-then-else term: `if` cannot occur in a pattern, its branches can"""
    out, todo = [], [t]
    while todo and len(out) < limit:
        x = todo.pop()
        if z3.is_app_of(x, z3.Z3_OP_ITE):
            todo += [x.arg(1), x.arg(2)]
        else:
            out.append(x)
    return out


# ---------------------------------------------------------------------------------------------
# M[mask, j] op= scalar   (2-D, column j, rows selected by a bool mask or an index array)
# ---------------------------------------------------------------------------------------------
def _s_AugAssign(orig):
    def s_AugAssign(self, node, state):
        t = node.target
        if isinstance(t, ast.Subscript) and isinstance(t.slice, ast.Tuple) and len(t.slice.elts) == 2 \
                and not any(isinstance(e, ast.Slice) for e in t.slice.elts):
            ev = self.ev
            base = ev.eval(state, t.value)
            if base.ty[0] == 'arr2' and base.ty[1] in (T.INT, T.REAL):
                rows = ev.eval(state, t.slice.elts[0])
                if _is_seq(rows) and rows.ty[1] == T.BOOL:
                    j = _col_index(ev, state, base, t.slice.elts[1], node)
                    rhs = ev.eval(state, node.value)
                    if j is not None and rhs.ty in (T.INT, T.REAL) and join_types(base.ty[1], rhs.ty) == base.ty[1] \
                            and isinstance(node.op, (ast.Add, ast.Sub, ast.Mult)):
                        n0, n1 = NP.m_n0(base), NP.m_n1(base)
                        ev.ctx.oblige(state, seq_len(rows) == n0, 'IndexError', node,
                                      'row mask has the height of the matrix')
                        ety = base.ty[1]
                        s = coerce(rhs, ety).term
                        r = _pointwise2(state, n0, n1, ety,
                                        lambda x, y: z3.If(z3.And(y == j, seq_at(rows, x)),
                                                           NP.elem_arith(node.op, NP.m_at(base, x, y), s, ety == T.REAL),
                                                           NP.m_at(base, x, y)), 'maug2')
                        ref = ev.eval_ref(state, t.value)
                        if ref is None:
                            raise Unsupported("2-D aug-store into a temporary")
                        SX.write_ref(state, ref, r)
                        return [EX.Outcome('normal', state)]
        if isinstance(t, ast.Subscript) and not isinstance(t.slice, (ast.Slice, ast.Tuple)):
            # a[mask] op= v (1-D, bool mask): handled here whatever `numpy_prims.fancy_augstore` is
            ev = self.ev
            base = ev.eval(state, t.value)
            if base.ty[0] == 'arr':
                iv = ev.eval(state, t.slice)
                if _is_seq(iv) and iv.ty[1] == T.BOOL:
                    rhs = ev.eval(state, node.value)
                    ref = ev.eval_ref(state, t.value)
                    if ref is None:
                        raise Unsupported("aug-store into a temporary")
                    SX.write_ref(state, ref, fancy_augstore(ev, state, base, iv, node.op, rhs, node))
                    return [EX.Outcome('normal', state)]
        return orig(self, node, state)
    return s_AugAssign


EX.Executor.s_AugAssign = _s_AugAssign(EX.Executor.s_AugAssign)


# a[idx] = v / a[mask] = v : routed to this module's fancy_store whatever other extension modules
# install as numpy_prims.fancy_store (the scores contracts were proved against these axioms)
def _assign_subscript(orig):
    def assign_subscript(self, t, v, state, node, val_node=None):
        if not isinstance(t.slice, (ast.Slice, ast.Tuple)) and self.ctx.qualname.startswith(_SCORES_AREA):
            ev = self.ev
            base_ref = ev.eval_ref(state, t.value)
            if base_ref is not None:
                base = SX.read_ref(state, base_ref)
                if base.ty[0] == 'arr':
                    iv = ev.eval(state, t.slice)
                    if iv.ty[0] == 'opt' and iv.ty[1][0] in ('arr', 'list'):
                        ev.ctx.oblige(state, z3.Not(T.opt_is_none(iv.ty, iv.term)), 'TypeError', node,
                                      'index is not None')
                        iv = select(iv, ('some',))
                    if _is_seq(iv):
                        SX.write_ref(state, base_ref, fancy_store(ev, state, base, iv, v, node))
                        return
        return orig(self, t, v, state, node, val_node)
    return assign_subscript


_SCORES_AREA = ('cell_type_mapper.diff_exp.scores.', 'cell_type_mapper.diff_exp.score_utils.',
                'cell_type_mapper.utils.stats_utils.', 'cell_type_mapper.diff_exp.p_value_markers.',
                'cell_type_mapper.diff_exp.markers.', 'cell_type_mapper.marker_selection.')
EX.Executor.assign_subscript = _assign_subscript(EX.Executor.assign_subscript)
