"""Extension for the sparse / HDF5 reshaping area (C05, C13).

Trusted base added here (each entry is true of the library for every input, or is a lemma that
follows by induction from a definition given next to it):

* h5py `Group.create_dataset(name, shape=|data=, chunks=...)`: pre-condition
  `chunks is None or chunks is True or all(0 < c <= s for c, s in zip(chunks, shape))`
  (h5py raises ValueError otherwise for a fixed-shape dataset) - DESIGN 2.3 / appendix B.
* `numpy.diff`, `numpy.power` (scalar; only `x >= 1 and y >= 0 => result >= 1`),
  `a[idx] += c` for a duplicate-free index array (duplicate freedom is an obligation),
  monotonicity lemma of `numpy.cumsum` over non-negative arrays.
* spec functions `cat_off`, `row_off`, `span_off` (prefix sums with their recursive definition
  and the frame lemma "equal prefixes have equal prefix sums").
"""
import ast
import z3

from .. import types as T
from .. import prims, numpy_prims
from ..values import (SymVal, Unsupported, fresh, fresh_name, const_int, NONEVAL, seq_len, seq_at,
                      wf)
from ..engine import to_int, to_real, truth, coerce
from ..symexec import select


# ---------------------------------------------------------------------------------------------
# h5py create_dataset
# ---------------------------------------------------------------------------------------------
def _dims(v):
    """list of Int terms of a shape-like value, or None when it is not modelled"""
    if v is None:
        return None
    if v.ty == T.INT:
        return [v.term]
    if v.ty[0] == 'tuple' and all(t == T.INT for t in v.ty[1]):
        return [select(v, ('fld', i)).term for i in range(len(v.ty[1]))]
    return None


def _shape_of_data(v):
    if v is None:
        return None
    if v.ty[0] in ('arr', 'list') and v.ty[1][0] not in ('arr', 'list'):
        return [seq_len(v)]
    if v.ty[0] == 'arr2':
        return [T.acc(v.ty, 'n0')(v.term), T.acc(v.ty, 'n1')(v.term)]
    return None


def m_create_dataset(ev, state, node, recv):
    ctx = ev.ctx
    kws = {k.arg: k.value for k in node.keywords if k.arg is not None}
    vals = {}
    for a in node.args:
        ev.eval(state, a)
    for k, n in kws.items():
        vals[k] = ev.eval(state, n)
    cv = vals.get('chunks')
    if cv is None or cv.ty == T.NONE or cv.ty == T.BOOL:
        return fresh(T.OPAQUE, 'dataset')
    guard = None
    if cv.ty[0] == 'opt':
        guard = z3.Not(T.opt_is_none(cv.ty, cv.term))
        cv = select(cv, ('some',))
    cd = _dims(cv)
    sd = _dims(vals.get('shape')) if 'shape' in vals else _shape_of_data(vals.get('data'))
    if cd is None or sd is None:
        ctx.notes.append(f"L{node.lineno}: create_dataset chunk pre-condition not modelled "
                         f"(chunks / shape abstracted)")
        return fresh(T.OPAQUE, 'dataset')
    if len(cd) != len(sd):
        ctx.oblige(state, z3.BoolVal(False), 'ValueError', node,
                   'create_dataset: chunks has the rank of shape')
        return fresh(T.OPAQUE, 'dataset')
    if guard is not None:
        ctx.guards.append(guard)
    try:
        for i, (c, s) in enumerate(zip(cd, sd)):
            ctx.oblige(state, z3.And(0 < c, c <= s), 'ValueError', node,
                       f"create_dataset: 0 < chunks[{i}] <= shape[{i}] (h5py pre-condition)")
    finally:
        if guard is not None:
            ctx.guards.pop()
    return fresh(T.OPAQUE, 'dataset')


prims.OPAQUE_METHODS['create_dataset'] = m_create_dataset


# ---------------------------------------------------------------------------------------------
# numpy primitives
# ---------------------------------------------------------------------------------------------
@numpy_prims.q('numpy.diff')
def np_diff(ev, state, node):
    v = ev.eval(state, node.args[0])
    if v.ty[0] not in ('arr', 'list') or v.ty[1] not in (T.INT, T.REAL) or len(node.args) != 1 \
            or node.keywords:
        raise Unsupported("np.diff form")
    n = seq_len(v)
    r = fresh(T.TArr(v.ty[1]), 'diff')
    i = z3.Int(fresh_name('di'))
    m = z3.If(n > 0, n - 1, 0)
    state.assume(seq_len(r) == m,
                 z3.ForAll([i], z3.Implies(z3.And(0 <= i, i < m),
                                           seq_at(r, i) == seq_at(v, i + 1) - seq_at(v, i))))
    return r


@numpy_prims.q('numpy.power')
def np_power(ev, state, node):
    x, y = [ev.eval(state, a) for a in node.args]
    if x.ty not in (T.INT, T.REAL) or y.ty not in (T.INT, T.REAL):
        raise Unsupported("np.power of non-scalars")
    r = fresh(T.REAL, 'power')
    state.assume(z3.Implies(z3.And(to_real(x) >= 1, to_real(y) >= 0), r.term >= 1))
    return r


def fancy_augstore(ev, state, base, idx, op, rhs, node):
    """a[idx] op= rhs for an integer index array; modelled for duplicate-free idx only
    (obligation), op in {+, -}"""
    if not isinstance(op, (ast.Add, ast.Sub)) or base.ty[1] not in (T.INT, T.REAL) \
            or idx.ty[1] != T.INT:
        raise Unsupported("a[idx] op= v form")
    n, m = seq_len(base), seq_len(idx)
    k, k2, x = z3.Int(fresh_name('k')), z3.Int(fresh_name('k2')), z3.Int(fresh_name('x'))
    ev.ctx.oblige(state, z3.ForAll([k], z3.Implies(z3.And(0 <= k, k < m),
                                                   z3.And(0 <= seq_at(idx, k), seq_at(idx, k) < n))),
                  'IndexError', node, 'index array within range (negative indices not modelled)')
    ev.ctx.oblige(state, z3.ForAll([k, k2], z3.Implies(z3.And(0 <= k, k < k2, k2 < m),
                                                       seq_at(idx, k) != seq_at(idx, k2))),
                  'model-dupfree-index', node,
                  'a[idx] op= v is modelled for duplicate-free idx only')
    real = base.ty[1] == T.REAL
    if rhs.ty[0] in ('arr', 'list'):
        ev.ctx.oblige(state, seq_len(rhs) == m, 'ValueError', node, 'one value per index')
        val = lambda kk: (to_real(SymVal(rhs.ty[1], seq_at(rhs, kk))) if real
                          else to_int(SymVal(rhs.ty[1], seq_at(rhs, kk))))
    else:
        sv = to_real(rhs) if real else to_int(rhs)
        val = lambda kk: sv
    sign = 1 if isinstance(op, ast.Add) else -1
    r = fresh(base.ty, 'augstore')
    hit = z3.Function(fresh_name('hit'), z3.IntSort(), z3.IntSort())
    state.assume(
        seq_len(r) == n,
        z3.ForAll([k], z3.Implies(z3.And(0 <= k, k < m),
                                  seq_at(r, seq_at(idx, k)) == seq_at(base, seq_at(idx, k)) + sign * val(k))),
        z3.ForAll([x], z3.Implies(z3.And(0 <= x, x < n),
                                  z3.Or(seq_at(r, x) == seq_at(base, x),
                                        z3.And(0 <= hit(x), hit(x) < m, seq_at(idx, hit(x)) == x)))))
    return r


numpy_prims.fancy_augstore = fancy_augstore

_core_cumsum = numpy_prims.QUALIFIED['numpy.cumsum']


@numpy_prims.q('numpy.cumsum')
def np_cumsum(ev, state, node):
    """core axiom (r[0] = v[0], r[i] = r[i-1] + v[i]) plus the lemma that follows from it by
    induction: over a non-negative array the running sum is non-decreasing and non-negative"""
    r = _core_cumsum(ev, state, node)
    if not isinstance(node.args[0], ast.Name):
        return r
    v = ev.eval(state, node.args[0])
    n = seq_len(v)
    i, j = z3.Int(fresh_name('ci')), z3.Int(fresh_name('cj'))
    nonneg = z3.ForAll([i], z3.Implies(z3.And(0 <= i, i < n), seq_at(v, i) >= 0))
    state.assume(z3.Implies(nonneg, z3.And(
        z3.ForAll([i, j], z3.Implies(z3.And(0 <= i, i <= j, j < n), seq_at(r, i) <= seq_at(r, j))),
        z3.ForAll([i], z3.Implies(z3.And(0 <= i, i < n), seq_at(r, i) >= seq_at(v, i))))))
    return r


# ---------------------------------------------------------------------------------------------
# final('name'): value of a local at the return point (slice-mode post-conditions about loop
# cursors, e.g. "the block loop is left only when every slice has been handled")
# ---------------------------------------------------------------------------------------------
@prims.spec_function('final')
def s_final(ev, state, node):
    from ..symexec import read_ref
    st = state.ghost.get('__final__')
    if st is None:
        raise Unsupported("final() outside an ensures clause")
    nm = node.args[0].value
    if nm not in st.env:
        raise Unsupported(f"final({nm!r}): no such local at the return point")
    return read_ref(st, st.env[nm])


@prims.spec_function('final_bound')
def s_final_bound(ev, state, node):
    st = state.ghost.get('__final__')
    if st is None:
        raise Unsupported("final_bound() outside an ensures clause")
    a = st.asg.get(node.args[0].value)
    return SymVal(T.BOOL, a if a is not None else z3.BoolVal(False))


from .. import native as _native   # noqa: E402
_native.PROOF_ONLY = tuple(_native.PROOF_ONLY) + ('final(', 'final_bound(')


@numpy_prims.q('numpy.copy')
def np_copy(ev, state, node):
    """a fresh array equal to the argument (the argument is not modified)"""
    v = ev.eval(state, node.args[0])
    if v.ty[0] not in ('arr', 'arr2', 'list'):
        raise Unsupported("np.copy operand")
    return SymVal(T.TArr(v.ty[1]) if v.ty[0] == 'list' else v.ty, v.term)
