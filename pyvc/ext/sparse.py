"""Extension for the sparse / HDF5 reshaping area (C05, C13).

Trusted base added here (each entry is true of the library for every input, or is a lemma that
follows by induction from a definition given next to it):

* h5py `Group.create_dataset(name, shape=|data=, chunks=...[, maxshape=])`: pre-condition
  `chunks is None or chunks is True or all(0 < c <= s for c, s in zip(chunks, shape))`
  (h5py raises ValueError otherwise for a fixed-shape dataset; with `maxshape` only positivity is
  checked) - DESIGN 2.3 / appendix B.
* opt-in per contract (`ghost=dict(h5_shapes=True)`), assumptions A-H5SHAPE / A-H5ITEM:
  `x.shape` / `x.chunks` of an abstracted h5py object (deterministic; shape entries >= 0; chunks
  None or positive per dimension and NOT assumed <= shape), `group['name']` deterministic,
  `dataset[()]` has the size of the dataset, `arr.max()/min()` need a non-empty array.
* `numpy.diff` (+ run lemma), `numpy.power` (scalar; only `x >= 1 and y >= 0 => result >= 1`),
  `numpy.copy`, `a[idx] += c` for a duplicate-free index array (duplicate freedom is an
  obligation), lemmas for `numpy.cumsum` (monotone over non-negative arrays) and `numpy.unique`
  (identity on strictly increasing arrays), `scipy.sparse.cs[rc]_matrix(dense)` denotes `dense`.
* spec functions `cat_off`, `row_off`, `span_off` (prefix sums: recursive definition, monotonicity
  and frame lemma), `final('name')` / `final_bound('name')` (value of a local at the return point;
  proof-only).
"""
import ast
import z3

from .. import types as T
from .. import prims, numpy_prims
from ..values import (SymVal, Unsupported, fresh, fresh_name, const_int, NONEVAL, seq_len, seq_at,
                      wf)
from ..engine import to_int, to_real, truth, coerce
from ..symexec import select


# ---------------------------------------------------------------------------------------------
# h5py create_dataset
# ---------------------------------------------------------------------------------------------
def _dims(v):
    """list of Int terms of a shape-like value; a SymVal (List[Int]) when the rank is symbolic;
    None when it is not modelled"""
    if v is None:
        return None
    if v.ty == T.INT:
        return [v.term]
    if v.ty[0] == 'tuple' and all(t == T.INT for t in v.ty[1]):
        return [select(v, ('fld', i)).term for i in range(len(v.ty[1]))]
    if v.ty[0] in ('list', 'arr') and v.ty[1] == T.INT:
        return v
    return None


def _shape_of_data(v):
    if v is None:
        return None
    if v.ty[0] in ('arr', 'list') and v.ty[1][0] not in ('arr', 'list'):
        return [seq_len(v)]
    if v.ty[0] == 'arr2':
        return [T.acc(v.ty, 'n0')(v.term), T.acc(v.ty, 'n1')(v.term)]
    return None


def m_create_dataset(ev, state, node, recv):
    ctx = ev.ctx
    kws = {k.arg: k.value for k in node.keywords if k.arg is not None}
    vals = {}
    for a in node.args:
        ev.eval(state, a)
    for k, n in kws.items():
        vals[k] = ev.eval(state, n)
    cv = vals.get('chunks')
    if cv is None or cv.ty == T.NONE or cv.ty == T.BOOL:
        return fresh(T.OPAQUE, 'dataset')
    guard = None
    if cv.ty[0] == 'opt':
        guard = z3.Not(T.opt_is_none(cv.ty, cv.term))
        cv = select(cv, ('some',))
    cd = _dims(cv)
    sd = _dims(vals.get('shape')) if 'shape' in vals else _shape_of_data(vals.get('data'))
    if cd is None or sd is None:
        ctx.notes.append(f"L{node.lineno}: create_dataset chunk pre-condition not modelled "
                         f"(chunks / shape abstracted)")
        return fresh(T.OPAQUE, 'dataset')
    resizable = 'maxshape' in kws and not (isinstance(kws['maxshape'], ast.Constant)
                                           and kws['maxshape'].value is None)
    if resizable:
        ctx.notes.append(f"L{node.lineno}: create_dataset with maxshape: only chunk positivity is "
                         f"checked (chunks <= maxshape is not modelled)")
    if isinstance(cd, SymVal) or isinstance(sd, SymVal):
        # symbolic rank (shapes / chunk tuples read from another dataset)
        def as_seq(x):
            if isinstance(x, SymVal):
                return seq_len(x), (lambda i: seq_at(x, i))
            return z3.IntVal(len(x)), (lambda i, x=x: _select_int(x, i))
        nc, atc = as_seq(cd)
        ns, ats = as_seq(sd)
        i = z3.Int(fresh_name('cdim'))
        if guard is not None:
            ctx.guards.append(guard)
        try:
            ctx.oblige(state, nc == ns, 'ValueError', node, 'create_dataset: chunks has the rank of shape')
            body = 0 < atc(i) if resizable else z3.And(0 < atc(i), atc(i) <= ats(i))
            ctx.oblige(state, z3.ForAll([i], z3.Implies(z3.And(0 <= i, i < nc), body)), 'ValueError', node,
                       "create_dataset: 0 < chunks[i] <= shape[i] for every dimension (h5py pre-condition)")
        finally:
            if guard is not None:
                ctx.guards.pop()
        return fresh(T.OPAQUE, 'dataset')
    if len(cd) != len(sd):
        ctx.oblige(state, z3.BoolVal(False), 'ValueError', node,
                   'create_dataset: chunks has the rank of shape')
        return fresh(T.OPAQUE, 'dataset')
    if guard is not None:
        ctx.guards.append(guard)
    try:
        for i, (c, s) in enumerate(zip(cd, sd)):
            ctx.oblige(state, 0 < c if resizable else z3.And(0 < c, c <= s), 'ValueError', node,
                       f"create_dataset: 0 < chunks[{i}] <= shape[{i}] (h5py pre-condition)")
    finally:
        if guard is not None:
            ctx.guards.pop()
    return fresh(T.OPAQUE, 'dataset')


def _select_int(terms, i):
    r = terms[-1]
    for k in range(len(terms) - 2, -1, -1):
        r = z3.If(i == k, terms[k], r)
    return r


prims.OPAQUE_METHODS['create_dataset'] = m_create_dataset


# ---------------------------------------------------------------------------------------------
# numpy primitives
# ---------------------------------------------------------------------------------------------
@numpy_prims.q('numpy.diff')
def np_diff(ev, state, node):
    v = ev.eval(state, node.args[0])
    if v.ty[0] not in ('arr', 'list') or v.ty[1] not in (T.INT, T.REAL) or len(node.args) != 1 \
            or node.keywords:
        raise Unsupported("np.diff form")
    n = seq_len(v)
    r = fresh(T.TArr(v.ty[1]), 'diff')
    i = z3.Int(fresh_name('di'))
    m = z3.If(n > 0, n - 1, 0)
    state.assume(seq_len(r) == m,
                 z3.ForAll([i], z3.Implies(z3.And(0 <= i, i < m),
                                           seq_at(r, i) == seq_at(v, i + 1) - seq_at(v, i))))
    return r


@numpy_prims.q('numpy.power')
def np_power(ev, state, node):
    x, y = [ev.eval(state, a) for a in node.args]
    if x.ty not in (T.INT, T.REAL) or y.ty not in (T.INT, T.REAL):
        raise Unsupported("np.power of non-scalars")
    r = fresh(T.REAL, 'power')
    state.assume(z3.Implies(z3.And(to_real(x) >= 1, to_real(y) >= 0), r.term >= 1))
    return r


def fancy_augstore(ev, state, base, idx, op, rhs, node):
    """a[idx] op= rhs for an integer index array; modelled for duplicate-free idx only
    (obligation), op in {+, -}"""
    if not isinstance(op, (ast.Add, ast.Sub)) or base.ty[1] not in (T.INT, T.REAL) \
            or idx.ty[1] != T.INT:
        raise Unsupported("a[idx] op= v form")
    n, m = seq_len(base), seq_len(idx)
    k, k2, x = z3.Int(fresh_name('k')), z3.Int(fresh_name('k2')), z3.Int(fresh_name('x'))
    ev.ctx.oblige(state, z3.ForAll([k], z3.Implies(z3.And(0 <= k, k < m),
                                                   z3.And(0 <= seq_at(idx, k), seq_at(idx, k) < n))),
                  'IndexError', node, 'index array within range (negative indices not modelled)')
    ev.ctx.oblige(state, z3.ForAll([k, k2], z3.Implies(z3.And(0 <= k, k < k2, k2 < m),
                                                       seq_at(idx, k) != seq_at(idx, k2))),
                  'model-dupfree-index', node,
                  'a[idx] op= v is modelled for duplicate-free idx only')
    real = base.ty[1] == T.REAL
    if rhs.ty[0] in ('arr', 'list'):
        ev.ctx.oblige(state, seq_len(rhs) == m, 'ValueError', node, 'one value per index')
        val = lambda kk: (to_real(SymVal(rhs.ty[1], seq_at(rhs, kk))) if real
                          else to_int(SymVal(rhs.ty[1], seq_at(rhs, kk))))
    else:
        sv = to_real(rhs) if real else to_int(rhs)
        val = lambda kk: sv
    sign = 1 if isinstance(op, ast.Add) else -1
    r = fresh(base.ty, 'augstore')
    hit = z3.Function(fresh_name('hit'), z3.IntSort(), z3.IntSort())
    state.assume(
        seq_len(r) == n,
        z3.ForAll([k], z3.Implies(z3.And(0 <= k, k < m),
                                  seq_at(r, seq_at(idx, k)) == seq_at(base, seq_at(idx, k)) + sign * val(k))),
        z3.ForAll([x], z3.Implies(z3.And(0 <= x, x < n),
                                  z3.Or(seq_at(r, x) == seq_at(base, x),
                                        z3.And(0 <= hit(x), hit(x) < m, seq_at(idx, hit(x)) == x)))))
    return r


numpy_prims.fancy_augstore = fancy_augstore

_core_cumsum = numpy_prims.QUALIFIED['numpy.cumsum']


@numpy_prims.q('numpy.cumsum')
def np_cumsum(ev, state, node):
    """core axiom (r[0] = v[0], r[i] = r[i-1] + v[i]) plus the lemma that follows from it by
    induction: over a non-negative array the running sum is non-decreasing and non-negative"""
    r = _core_cumsum(ev, state, node)
    if not isinstance(node.args[0], ast.Name):
        return r
    v = ev.eval(state, node.args[0])
    n = seq_len(v)
    i, j = z3.Int(fresh_name('ci')), z3.Int(fresh_name('cj'))
    nonneg = z3.ForAll([i], z3.Implies(z3.And(0 <= i, i < n), seq_at(v, i) >= 0))
    state.assume(z3.Implies(nonneg, z3.And(
        z3.ForAll([i, j], z3.Implies(z3.And(0 <= i, i <= j, j < n), seq_at(r, i) <= seq_at(r, j))),
        z3.ForAll([i], z3.Implies(z3.And(0 <= i, i < n), seq_at(r, i) >= seq_at(v, i))))))
    return r


# ---------------------------------------------------------------------------------------------
# final('name'): value of a local at the return point (slice-mode post-conditions about loop
# cursors, e.g. "the block loop is left only when every slice has been handled")
# ---------------------------------------------------------------------------------------------
@prims.spec_function('final')
def s_final(ev, state, node):
    from ..symexec import read_ref
    st = state.ghost.get('__final__')
    if st is None:
        raise Unsupported("final() outside an ensures clause")
    nm = node.args[0].value
    if nm not in st.env:
        raise Unsupported(f"final({nm!r}): no such local at the return point")
    return read_ref(st, st.env[nm])


@prims.spec_function('final_bound')
def s_final_bound(ev, state, node):
    st = state.ghost.get('__final__')
    if st is None:
        raise Unsupported("final_bound() outside an ensures clause")
    a = st.asg.get(node.args[0].value)
    return SymVal(T.BOOL, a if a is not None else z3.BoolVal(False))


from .. import native as _native   # noqa: E402
_native.PROOF_ONLY = tuple(_native.PROOF_ONLY) + ('final(', 'final_bound(')


@numpy_prims.q('numpy.copy')
def np_copy(ev, state, node):
    """a fresh array equal to the argument (the argument is not modified)"""
    v = ev.eval(state, node.args[0])
    if v.ty[0] not in ('arr', 'arr2', 'list'):
        raise Unsupported("np.copy operand")
    return SymVal(T.TArr(v.ty[1]) if v.ty[0] == 'list' else v.ty, v.term)


# ---------------------------------------------------------------------------------------------
# `.shape` of an abstracted (h5py / numpy) object - opt-in per contract with ghost=dict(h5_shapes=True)
#   A-H5SHAPE: every entry of a dataset / array shape is a non-negative integer, and the datasets
#   whose shape is subscripted in the function have at least that many dimensions (true for the
#   members 'data' / 'indices' / 'indptr' of the sparse encodings, which are 1-D by the h5ad spec)
# ---------------------------------------------------------------------------------------------
_core_attribute = numpy_prims.attribute
H5_SHAPE = z3.Function('h5_shape', T.sort_of(T.OPAQUE), T.sort_of(T.TList(T.INT)))
H5_CHUNKS = z3.Function('h5_chunks', T.sort_of(T.OPAQUE), T.sort_of(T.TOpt(T.TList(T.INT))))


def _attribute(ev, state, base, attr, node):
    r = _core_attribute(ev, state, base, attr, node)
    if r is not None:
        return r
    c = ev.ctx.contract
    if base.ty == T.OPAQUE and attr == 'chunks' and c is not None and c.ghost.get('h5_shapes') \
            and not ev.ctx.spec_mode:
        # chunk shape of a dataset: None (contiguous) or one positive entry per dimension.  NOT
        # assumed <= shape: a resizable dataset (maxshape) may have chunks larger than its shape
        # (anndata writes empty sparse arrays that way)
        ty = T.TOpt(T.TList(T.INT))
        v = SymVal(ty, H5_CHUNKS(base.term))
        inner = select(v, ('some',))
        shp = SymVal(T.TList(T.INT), H5_SHAPE(base.term))
        i = z3.Int(fresh_name('ci'))
        state.assume(z3.Implies(z3.Not(T.opt_is_none(ty, v.term)),
                                z3.And(seq_len(inner) == seq_len(shp),
                                       z3.ForAll([i], seq_at(inner, i) >= 1))))
        ev.ctx.trusted_used.add('A-H5SHAPE')
        return v
    if base.ty == T.OPAQUE and attr == 'shape' and c is not None and c.ghost.get('h5_shapes') \
            and not ev.ctx.spec_mode:
        v = SymVal(T.TList(T.INT), H5_SHAPE(base.term))    # the same shape every time it is read
        i = z3.Int(fresh_name('si'))
        state.assume(seq_len(v) >= 1,     # only shape[0] is licensed by the assumption
                     z3.ForAll([i], seq_at(v, i) >= 0),
                     seq_at(v, 0) == SIZE_OF(base.term))     # shape[0] of a 1-D array is its size
        ev.ctx.trusted_used.add('A-H5SHAPE')
        return v
    return None


numpy_prims.attribute = _attribute


# ---------------------------------------------------------------------------------------------
# reductions on abstracted arrays (same opt-in flag): `x.max()` / `x.min()` of an array read from
# a file raise ValueError when the array is empty; nothing is known about its size, so the
# obligation can only be discharged when the code guards the call
# ---------------------------------------------------------------------------------------------
SIZE_OF = z3.Function('size_of_opaque', T.sort_of(T.OPAQUE), z3.IntSort())


def _m_reduce(which):
    def h(ev, state, node, recv):
        c = ev.ctx.contract
        if c is None or not c.ghost.get('h5_shapes') or node.args or node.keywords:
            if not ev.ctx.lenient:
                raise Unsupported(f"method .{which}() on abstracted value")
            return prims.unknown_call(ev, state, node, f"?.{which}")
        state.assume(SIZE_OF(recv.term) >= 0)
        ev.ctx.oblige(state, SIZE_OF(recv.term) > 0, 'ValueError', node,
                      f"{which}() of a non-empty array (zero-size array to reduction operation)")
        r = fresh(T.INT, which)
        return r
    return h


prims.OPAQUE_METHODS['max'] = _m_reduce('max')
prims.OPAQUE_METHODS['min'] = _m_reduce('min')


@numpy_prims.q('scipy.sparse.csr_matrix', 'scipy.sparse.csc_matrix')
def sp_matrix_from_dense(ev, state, node):
    """csr_matrix(dense 2-D array): a sparse matrix *denotes* its dense matrix (appendix B:
    `.toarray()` of a matrix built from a dense array is that array); other forms unmodelled"""
    if len(node.args) == 1 and not node.keywords:
        v = ev.eval(state, node.args[0])
        if v.ty[0] == 'arr2':
            return SymVal(v.ty, v.term)
    raise Unsupported("scipy.sparse matrix constructor form")


# ---------------------------------------------------------------------------------------------
# prefix sums as specification functions
#   cat_off(xs, k)  = sum(len(xs[q]) for q < k)              xs: list of arrays
#   row_off(xs, k)  = sum(len(xs[q]) - 1 for q < k)          xs: list of pointer arrays (len >= 1)
#   span_off(rs, k) = sum(rs[q][1] - rs[q][0] for q < k)      rs: list of (lo, hi) pairs, lo <= hi
# Definition (trusted, recursive):  F(xs, 0) = 0,  F(xs, k+1) = F(xs, k) + w(xs[k]),  w >= 0
# (w clamps at 0, which changes nothing for Python lengths / well-formed ranges).
# Lemmas that follow from the definition by induction on k (trusted, stated once per sort):
#   monotone:  0 <= a <= b  =>  F(xs, a) <= F(xs, b)
#   frame:     (forall q < k: w(xs[q]) == w(ys[q]))  =>  F(xs, k) == F(ys, k)
# The definition is instantiated at every ground use (one step forward and one step back); z3
# gets no recursive quantified definition to loop on.
# ---------------------------------------------------------------------------------------------
_PSUM = {}          # (name, sort) -> z3 function


def _nn(t):
    return z3.If(t < 0, z3.IntVal(0), t)


def _weight(kind, xs, k):
    """w(xs[k]) as a z3 term"""
    el = SymVal(xs.ty[1], seq_at(xs, k))
    if kind == 'cat_off':
        return _nn(seq_len(el))
    if kind == 'row_off':
        return _nn(seq_len(el) - 1)
    a = select(el, ('fld', 0)).term
    b = select(el, ('fld', 1)).term
    return _nn(b - a)


def _psum_handler(kind):
    def h(ev, state, node):
        xs = ev.eval(state, node.args[0])
        kv = ev.eval(state, node.args[1])
        if xs.ty[0] not in ('list', 'arr'):
            raise Unsupported(f"{kind} of {T.show(xs.ty)}")
        if kind in ('cat_off', 'row_off') and xs.ty[1][0] not in ('list', 'arr'):
            raise Unsupported(f"{kind} needs a list of arrays")
        if kind == 'span_off' and not (xs.ty[1][0] == 'tuple' and len(xs.ty[1][1]) == 2):
            raise Unsupported("span_off needs a list of pairs")
        srt = T.sort_of(xs.ty)
        key = (kind, srt)
        if key not in _PSUM:
            _PSUM[key] = z3.Function(f"{kind}_{T.mangle(xs.ty)}", srt, z3.IntSort(), z3.IntSort())
        F = _PSUM[key]
        k = to_int(kv)
        done = getattr(ev.ctx, '_psum_done', None)     # per verification context
        if done is None:
            done = ev.ctx._psum_done = set()
        if key not in done:
            done.add(key)
            x, y = z3.Const(fresh_name('px'), srt), z3.Const(fresh_name('py'), srt)
            a, b, q = z3.Int(fresh_name('pa')), z3.Int(fresh_name('pb')), z3.Int(fresh_name('pq'))
            X, Y = SymVal(xs.ty, x), SymVal(xs.ty, y)
            ev.ctx.axioms.extend([
                z3.ForAll([x], F(x, 0) == 0),
                # the definition, usable under binders: fires when F(x, a) and the element x[a]
                # are both mentioned (creates F(x, a+1) but no x[a+1]: no matching loop)
                z3.ForAll([x, a], z3.Implies(a >= 0, F(x, a + 1) == F(x, a) + _weight(kind, X, a)),
                          patterns=[z3.MultiPattern(F(x, a), seq_at(X, a))]),
                z3.ForAll([x, a, b], z3.Implies(z3.And(0 <= a, a <= b), F(x, a) <= F(x, b)),
                          patterns=[z3.MultiPattern(F(x, a), F(x, b))]),
                z3.ForAll([x, y, a, b], z3.Implies(
                    z3.And(a == b, z3.ForAll([q], z3.Implies(z3.And(0 <= q, q < a),
                                                             _weight(kind, X, q) == _weight(kind, Y, q)))),
                    F(x, a) == F(y, b)), patterns=[z3.MultiPattern(F(x, a), F(y, b))]),
            ])
        # definition, instantiated at this use
        state.assume(z3.Implies(k >= 0, F(xs.term, k + 1) == F(xs.term, k) + _weight(kind, xs, k)),
                     z3.Implies(k >= 1, F(xs.term, k) == F(xs.term, k - 1) + _weight(kind, xs, k - 1)),
                     z3.Implies(k >= 0, F(xs.term, k) >= 0))
        return SymVal(T.INT, F(xs.term, k))
    return h


def _native_cat_off(xs, k):
    return sum(len(x) for x in list(xs)[:k])


def _native_row_off(xs, k):
    return sum(max(len(x) - 1, 0) for x in list(xs)[:k])


def _native_span_off(rs, k):
    return sum(max(int(r[1]) - int(r[0]), 0) for r in list(rs)[:k])


prims.spec_function('cat_off', native=_native_cat_off)(_psum_handler('cat_off'))
prims.spec_function('row_off', native=_native_row_off)(_psum_handler('row_off'))
prims.spec_function('span_off', native=_native_span_off)(_psum_handler('span_off'))


# ---------------------------------------------------------------------------------------------
# lemmas (each follows by induction from the core axiom of the primitive; trusted)
# ---------------------------------------------------------------------------------------------
_core_unique = numpy_prims.QUALIFIED['numpy.unique']


@numpy_prims.q('numpy.unique')
def np_unique(ev, state, node):
    """core axioms + lemma: the sorted-unique form of a strictly increasing array is the array"""
    r = _core_unique(ev, state, node)
    if not isinstance(node.args[0], ast.Name):
        return r
    v = ev.eval(state, node.args[0])
    u = r if r.ty[0] in ('arr', 'list') else select(r, ('fld', 0))
    if v.ty[0] not in ('arr', 'list') or v.ty[1] != T.INT:
        return r
    n = seq_len(v)
    i, j = z3.Int(fresh_name('ui')), z3.Int(fresh_name('uj'))
    strict = z3.ForAll([i, j], z3.Implies(z3.And(0 <= i, i < j, j < n), seq_at(v, i) < seq_at(v, j)))
    state.assume(z3.Implies(strict, z3.And(
        seq_len(u) == n,
        z3.ForAll([i], z3.Implies(z3.And(0 <= i, i < n), seq_at(u, i) == seq_at(v, i))))))
    return r


_my_diff = numpy_prims.QUALIFIED['numpy.diff']


@numpy_prims.q('numpy.diff')
def np_diff_with_run_lemma(ev, state, node):
    """d = diff(v) plus the lemma: over a stretch where every difference is 1 the values form an
    arithmetic progression  (a <= b, d[p] == 1 for a <= p < b  =>  v[b] == v[a] + b - a)"""
    d = _my_diff(ev, state, node)
    if not isinstance(node.args[0], ast.Name):
        return d
    v = ev.eval(state, node.args[0])
    if v.ty[1] != T.INT:
        return d
    n = seq_len(v)
    a, b, p = z3.Int(fresh_name('ra')), z3.Int(fresh_name('rb')), z3.Int(fresh_name('rp'))
    state.assume(z3.ForAll([a, b], z3.Implies(
        z3.And(0 <= a, a <= b, b < n,
               z3.ForAll([p], z3.Implies(z3.And(a <= p, p < b), seq_at(d, p) == 1))),
        seq_at(v, b) == seq_at(v, a) + (b - a)),
        patterns=[z3.MultiPattern(seq_at(v, a), seq_at(v, b))]))
    return d


# ---------------------------------------------------------------------------------------------
# x['name'] and x[()] on abstracted h5py objects (same opt-in flag h5_shapes):
#   * group['name'] denotes the same object every time it is evaluated (A-H5ITEM: the file is
#     not restructured between two look-ups inside one function);
#   * dataset[()] reads the whole dataset: an array with the size of the dataset.
# Both may raise (missing key ...): the pending-raise of an abstracted expression is kept.
# ---------------------------------------------------------------------------------------------
ITEM = z3.Function('h5_item', T.sort_of(T.OPAQUE), z3.IntSort(), T.sort_of(T.OPAQUE))


def _opaque_subscript(ev, state, base, node):
    from ..symexec import PendingRaise
    from ..values import literal
    c = ev.ctx.contract
    if c is None or not c.ghost.get('h5_shapes'):
        return None
    sl = node.slice
    r = None
    if isinstance(sl, ast.Constant) and isinstance(sl.value, str):
        r = SymVal(T.OPAQUE, ITEM(base.term, literal(sl.value).term))
    elif isinstance(sl, ast.Tuple) and not sl.elts:
        r = fresh(T.OPAQUE, 'h5read')
        state.assume(SIZE_OF(r.term) == SIZE_OF(base.term))
    if r is None:
        return None
    b = z3.Bool(fresh_name('abs_raise'))
    ev.ctx.pending.append(PendingRaise('Exception', [b]))
    state.assume(z3.Not(b))
    ev.ctx.trusted_used.add('A-H5ITEM')
    return r


prims.OPAQUE_SUBSCRIPT = _opaque_subscript
