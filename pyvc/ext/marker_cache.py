"""Extension for the marker-cache area (C08, C04.g, C07.c, C17.c).

Trusted base added here (each entry is true for every valid input, and has an executable twin
that the native layer runs against the real objects):

* record `MCTree`: the caller's view of a `TaxonomyTree` - the two properties the marker code
  reads (`hierarchy`, `all_parents`) as fields, the two methods it calls (`children`, `parents`)
  as uninterpreted functions of (tree, level, node).  What is assumed about them is exactly
  `wf_mctree(tree)` (spec function below, checked natively on every generated tree; another
  package proves the tree functions themselves):
    - `hierarchy` is duplicate free (level index `lidx`),
    - `all_parents` = [None] + one (level, node) pair per node of every non-leaf level, without
      duplicates, ordered by level index (taxonomy_tree.py: two nested loops over
      `hierarchy[:-1]` / the nodes of the level),
    - `parents(level, node)` has exactly the levels above `level` as keys, and every value is
      a node of its level (hence an element of `all_parents`),
    - `children(level, node)` / `parents(level, node)` do not raise for a node of the tree.
* record `MCLog`: `CommandLog` - `warn`/`info` are no-ops (A-LOG), `error` raises RuntimeError.
* spec functions
    - `grp(level, node)`  = f"{level}/{node}" - the very function the engine uses for that
      f-string template; `grp_unambiguous(tree)`: no level name contains '/', which makes
      `grp` injective on the tree's levels (assumption A-GRP, see the finding in the report),
    - `ncommon(xs, qs)`  = len(set(qs).intersection(set(xs))) - built from the same set
      operations as the code, so that equal lists give equal counts by congruence,
    - `mc_same(a, b)`  = the two values are identical (term equality; implies `a == b`),
    - `pool(T, ML, level, node, own, i)`  recursive definition (unfolded once per ground use),
    - named predicates (define_predicate: an uninterpreted boolean function + the axiom
      "NAME(args) == <clause text>"; the text is the single definition, also executed natively):
      `fallback_ok` (FALLBACK_DEF = the fallback rule of C08 / DESIGN A.3), `group_ok`, `stored_ok`,
      `kept_ok`, `listed`,
    - `lidx`, `is_node`: level index / node-hood of the MCTree view.
* set theory for specification terms under quantifiers (set_theory_axioms): the defining axioms of
  set(xs), a & b, a | b, a - b that the engine states per ground application, quantified over the
  operands; plus three lemmas that hold for finite sets (q & (a | b) empty iff both parts empty;
  q & a empty when q or a is empty; |a & b| = |b & a|).
* HDF5: a file opened read-only is a fixed set of group names (`h5_has`, reconcile_taxonomy_and_
  markers only); a file opened for writing is a handle whose `create_group(k).create_dataset(
  'reference'|'query', data=a)` records `a` in the ghost dictionaries written_ref / written_query
  (write_query_markers_to_h5, create_marker_cache_from_specified_markers only).  The HDF5 round trip
  itself is trusted; the native layer reads the real file back.
"""
import ast
import z3

from .. import types as T
from .. import prims, ghost
from ..values import (SymVal, Unsupported, fresh, fresh_name, const_int, const_bool, NONEVAL,
                      seq_len, seq_at, wf, dict_dom, dict_val, dict_card, set_card,
                      fstr_function, literal)
from ..engine import truth, coerce, values_equal
from ..symexec import select, PendingRaise

NAME_S = z3.IntSort()

T.record('MCTree', hierarchy='List[Name]', all_parents='List[Opt[Tuple[Name,Name]]]')
T.record('MCLog', tag='Int')

TREE = T.TRec('MCTree')
TREE_S = T.sort_of(TREE)
KIDS_T = T.TList(T.NAME)
ANC_T = T.TDict(T.NAME, T.NAME)
PAR_T = T.TOpt(T.TTuple([T.NAME, T.NAME]))

KIDS = z3.Function('mct_children', TREE_S, NAME_S, NAME_S, T.sort_of(KIDS_T))
KIDS_ROOT = z3.Function('mct_root_children', TREE_S, T.sort_of(KIDS_T))
ANC = z3.Function('mct_parents', TREE_S, NAME_S, NAME_S, T.sort_of(ANC_T))
LIDX = z3.Function('mct_lidx', TREE_S, NAME_S, z3.IntSort())
ISNODE = z3.Function('mct_isnode', TREE_S, NAME_S, NAME_S, z3.BoolSort())
POS = z3.Function('mct_pos', TREE_S, NAME_S, NAME_S, z3.IntSort())


def _in_hier(t, L):
    h = select(t, ('fld', 'hierarchy'))
    return z3.And(0 <= LIDX(t.term, L), LIDX(t.term, L) < seq_len(h),
                  seq_at(h, LIDX(t.term, L)) == L)


def _call_args(ev, state, node, names):
    """positional / keyword arguments of a method call, by parameter name"""
    out = {}
    for n, a in zip(names, node.args):
        out[n] = ev.eval(state, a)
    for kw in node.keywords:
        out[kw.arg] = ev.eval(state, kw.value)
    return [out.get(n) for n in names]


def _name_arg(v):
    if v.ty == T.NAME:
        return v.term
    if v.ty == T.TOpt(T.NAME):
        return T.acc(v.ty, 'val')(v.term)
    raise Unsupported(f"tree method argument of type {T.show(v.ty)}")


@ghost.method('MCTree', 'children')
def mct_children(ev, state, node, recv, ref):
    level, nd = _call_args(ev, state, node, ['level', 'node'])
    if level.ty == T.NONE and nd.ty == T.NONE:
        r = SymVal(KIDS_T, KIDS_ROOT(recv.term))
        state.assume(*wf(r))
        return r
    l, n = _name_arg(level), _name_arg(nd)
    ev.ctx.oblige(state, ISNODE(recv.term, l, n), 'requires', node,
                  'TaxonomyTree.children: (level, node) is a node of the tree (RuntimeError otherwise)')
    r = SymVal(KIDS_T, KIDS(recv.term, l, n))
    state.assume(*wf(r))
    return r


@ghost.method('MCTree', 'parents')
def mct_parents(ev, state, node, recv, ref):
    level, nd = _call_args(ev, state, node, ['level', 'node'])
    l, n = _name_arg(level), _name_arg(nd)
    ev.ctx.oblige(state, ISNODE(recv.term, l, n), 'requires', node,
                  'TaxonomyTree.parents: (level, node) is a node of the tree (KeyError otherwise)')
    r = SymVal(ANC_T, ANC(recv.term, l, n))
    state.assume(*wf(r))      # what its keys / values are: wf_mctree
    return r


def _wf_mctree_sym(ev, state, node):
    ev.ctx.trusted_used.add('marker_cache:wf_mctree (caller view of TaxonomyTree.hierarchy/all_parents/children/parents)')
    t = ev.eval(state, node.args[0])
    tt = t.term
    h = select(t, ('fld', 'hierarchy'))
    ap = select(t, ('fld', 'all_parents'))
    nh, na = seq_len(h), seq_len(ap)
    i, j = z3.Int(fresh_name('wi')), z3.Int(fresh_name('wj'))
    l, n = z3.Int(fresh_name('wl')), z3.Int(fresh_name('wn'))
    api, apj = seq_at(ap, i), seq_at(ap, j)
    some = T.acc(PAR_T, 'val')
    tup = PAR_T[1]
    lv = lambda x: T.acc(tup, 'f0')(some(x))     # noqa: E731
    nd = lambda x: T.acc(tup, 'f1')(some(x))     # noqa: E731
    isnone = lambda x: T.opt_is_none(PAR_T, x)   # noqa: E731
    facts = [
        nh >= 1, na >= 1,
        # hierarchy is duplicate free: lidx is the position
        z3.ForAll([j], z3.Implies(z3.And(0 <= j, j < nh), LIDX(tt, seq_at(h, j)) == j),
                  patterns=[seq_at(h, j)]),
        # all_parents[0] is the root, every other entry is a node of a non-leaf level
        isnone(seq_at(ap, 0)),
        z3.ForAll([i], z3.Implies(z3.And(1 <= i, i < na),
                                  z3.And(z3.Not(isnone(api)), ISNODE(tt, lv(api), nd(api)),
                                         _in_hier(t, lv(api)), LIDX(tt, lv(api)) < nh - 1,
                                         POS(tt, lv(api), nd(api)) == i)),
                  patterns=[api]),
        # ... ordered by level
        z3.ForAll([i, j], z3.Implies(z3.And(1 <= i, i < j, j < na),
                                     LIDX(tt, lv(api)) <= LIDX(tt, lv(apj))),
                  patterns=[z3.MultiPattern(api, apj)]),
        # ... complete (and, with pos == i above, duplicate free)
        z3.ForAll([l, n], z3.Implies(z3.And(ISNODE(tt, l, n), _in_hier(t, l), LIDX(tt, l) < nh - 1),
                                     z3.And(1 <= POS(tt, l, n), POS(tt, l, n) < na,
                                            z3.Not(isnone(seq_at(ap, POS(tt, l, n)))),
                                            lv(seq_at(ap, POS(tt, l, n))) == l,
                                            nd(seq_at(ap, POS(tt, l, n))) == n)),
                  patterns=[ISNODE(tt, l, n)]),
    ]
    # parents(level, node) of a node: keys = the levels strictly above `level`, every value is a
    # node of its level
    L = z3.Int(fresh_name('wL'))
    anc = SymVal(ANC_T, ANC(tt, l, n))
    facts += [
        z3.ForAll([l, n, L], z3.Implies(ISNODE(tt, l, n),
                                        dict_dom(anc)[L] == z3.And(_in_hier(t, L), LIDX(tt, L) < LIDX(tt, l))),
                  patterns=[dict_dom(anc)[L]]),
        z3.ForAll([l, n, L], z3.Implies(z3.And(ISNODE(tt, l, n), dict_dom(anc)[L]),
                                        ISNODE(tt, L, dict_val(anc)[L])),
                  patterns=[dict_val(anc)[L]]),
    ]
    return SymVal(T.BOOL, z3.And(*facts))


def wf_mctree_native(t):
    """executable twin of wf_mctree on a real TaxonomyTree"""
    h = list(t.hierarchy)
    ap = list(t.all_parents)
    if len(h) < 1 or len(set(h)) != len(h):
        return False
    if len(ap) < 1 or ap[0] is not None or any(p is None for p in ap[1:]):
        return False
    if len(set(ap[1:])) != len(ap) - 1:
        return False
    expected = set((lv, nd) for lv in h[:-1] for nd in t.nodes_at_level(lv))
    if set(ap[1:]) != expected:
        return False
    idx = [h.index(p[0]) for p in ap[1:]]
    if idx != sorted(idx):
        return False
    for p in ap[1:]:
        anc = t.parents(p[0], p[1])
        if list(t.children(p[0], p[1])) is None:
            return False
        if set(anc.keys()) != set(h[:h.index(p[0])]):
            return False
        for L, a in anc.items():
            if (L, a) not in expected:
                return False
    return True


prims.spec_function('wf_mctree', native=wf_mctree_native)(_wf_mctree_sym)

# ---- group keys ---------------------------------------------------------------------------------
GRP_SEGMENTS = ['\x00-1:', '/', '\x00-1:']
GL = z3.Function('grp_level', NAME_S, NAME_S)
GN = z3.Function('grp_node', NAME_S, NAME_S)


def grp_term(l, n):
    return fstr_function(GRP_SEGMENTS, ['name', 'name'])(l, n)


@prims.spec_function('grp', native=lambda level, node: f'{level}/{node}')
def s_grp(ev, state, node):
    l, n = [ev.eval(state, a) for a in node.args]
    return SymVal(T.NAME, grp_term(_name_arg(l), _name_arg(n)))


def _grp_unambiguous_native(t):
    return all('/' not in lv for lv in t.hierarchy)


@prims.spec_function('grp_unambiguous', native=_grp_unambiguous_native)
def s_grp_unambiguous(ev, state, node):
    """A-GRP: no level name of the tree contains '/', hence '{level}/{node}' determines level
    and node for every level of the tree"""
    t = ev.eval(state, node.args[0])
    l, n = z3.Int(fresh_name('gl')), z3.Int(fresh_name('gn'))
    g = grp_term(l, n)
    return SymVal(T.BOOL, z3.ForAll([l, n], z3.Implies(_in_hier(t, l),
                                                        z3.And(GL(g) == l, GN(g) == n)),
                                    patterns=[g]))


# ---- ncommon / same -------------------------------------------------------------------------------
def _ncommon_native(xs, qs):
    return len(set(qs).intersection(set(xs)))


@prims.spec_function('ncommon', native=_ncommon_native)
def s_ncommon(ev, state, node):
    xs, qs = [ev.eval(state, a) for a in node.args]
    need_set_theory(ev, xs.ty[1])
    # the same terms as prims.to_set_value / Evaluator.set_binop build for
    # `set(qs).intersection(set(xs))`; their axioms come from set_theory_axioms (quantified)
    from ..values import canon
    st = T.TSet(xs.ty[1])
    sx = canon(st, 'setof', xs.term)
    sq = canon(st, 'setof', qs.term)
    r = canon(st, 'setinter', sq.term, sx.term)
    return SymVal(T.INT, set_card(r))


def _same_native(a, b):
    return a == b


@prims.spec_function('mc_same', native=_same_native)
def s_same(ev, state, node):
    a, b = [ev.eval(state, x) for x in node.args]
    if T.sort_of(a.ty) != T.sort_of(b.ty):
        raise Unsupported("same() of values of different sorts")
    return SymVal(T.BOOL, a.term == b.term)


# ---- CommandLog -------------------------------------------------------------------------------------
def _log_noop(ev, state, node, recv, ref):
    for a in node.args:
        ev.eval(state, a)
    return NONEVAL


def _log_error(ev, state, node, recv, ref):
    for a in node.args:
        ev.eval(state, a)
    ev.ctx.pending.append(PendingRaise('RuntimeError', [z3.BoolVal(True)]))
    state.assume(z3.BoolVal(False))
    return NONEVAL


for _m in ('warn', 'info', 'benchmark', 'env', 'add_msg'):
    ghost.METHODS[('MCLog', _m)] = _log_noop
ghost.METHODS[('MCLog', 'error')] = _log_error


# ---- universally quantified set theory (for set terms under quantifiers in specifications) ------
def set_theory_axioms(elt_ty=T.NAME):
    """the defining axioms of set(xs) / a & b / a | b / a - b (the same ones prims.to_set_value and
    Evaluator.set_binop state for each ground application), quantified over the operands, so that
    they are also available for set terms that mention bound variables of a specification"""
    from ..values import canon, set_has
    st = T.TSet(elt_ty)
    lt = T.TList(elt_ty)
    xs = z3.Const('sta!xs', T.sort_of(lt))
    a = z3.Const('sta!a', T.sort_of(st))
    b = z3.Const('sta!b', T.sort_of(st))
    k = z3.Const('sta!k', T.sort_of(elt_ty))
    i = z3.Int('sta!i')
    XS = SymVal(lt, xs)
    S = canon(st, 'setof', xs)
    W = z3.Function('sta!wit', T.sort_of(lt), T.sort_of(elt_ty), z3.IntSort())
    n = seq_len(XS)
    out = [
        z3.ForAll([xs, i], z3.Implies(z3.And(0 <= i, i < n), set_has(S)[seq_at(XS, i)]),
                  patterns=[z3.MultiPattern(S.term, seq_at(XS, i))]),
        z3.ForAll([xs, k], z3.Implies(set_has(S)[k],
                                      z3.And(0 <= W(xs, k), W(xs, k) < n, seq_at(XS, W(xs, k)) == k)),
                  patterns=[set_has(S)[k]]),
        z3.ForAll([xs], z3.And(set_card(S) <= n, z3.Implies(n > 0, set_card(S) >= 1), *wf(S)),
                  patterns=[S.term]),
    ]
    A, B = SymVal(st, a), SymVal(st, b)
    for kind, body in (('inter', z3.And(set_has(A)[k], set_has(B)[k])),
                       ('union', z3.Or(set_has(A)[k], set_has(B)[k])),
                       ('diff', z3.And(set_has(A)[k], z3.Not(set_has(B)[k])))):
        R = canon(st, 'set' + kind, a, b)
        # triggered by a membership test of the result, or of an operand once the result exists
        out.append(z3.ForAll([a, b, k], set_has(R)[k] == body,
                             patterns=[set_has(R)[k], z3.MultiPattern(R.term, set_has(A)[k]),
                                       z3.MultiPattern(R.term, set_has(B)[k])]))
        if kind == 'union':
            card = z3.And(set_card(R) >= set_card(A), set_card(R) >= set_card(B),
                          set_card(R) <= set_card(A) + set_card(B))
        else:
            card = set_card(R) <= set_card(A)
        out.append(z3.ForAll([a, b], z3.And(card, *wf(R)), patterns=[R.term]))
    # lemmas (consequences of the axioms above for finite sets; stated to keep proofs short):
    # q & (a | b) is empty iff q & a and q & b are; q & a is empty when q or a is
    inter = lambda x, y: canon(st, 'setinter', x, y)      # noqa: E731
    U = canon(st, 'setunion', a, b)
    q = z3.Const('sta!q', T.sort_of(st))
    out.append(z3.ForAll([q, a, b], (set_card(inter(q, U.term)) == 0) ==
                         z3.And(set_card(inter(q, a)) == 0, set_card(inter(q, b)) == 0),
                         patterns=[inter(q, U.term).term]))
    out.append(z3.ForAll([q, a], z3.Implies(z3.Or(set_card(SymVal(st, q)) == 0, set_card(A) == 0),
                                            set_card(inter(q, a)) == 0),
                         patterns=[inter(q, a).term]))
    # a & b and b & a have the same members, hence the same cardinality
    out.append(z3.ForAll([a, b], set_card(inter(a, b)) == set_card(inter(b, a)),
                         patterns=[inter(a, b).term]))
    # list(s): an enumeration has as many entries as the set has members (prims.enumeration_of)
    return out


def need_set_theory(ev, elt_ty=T.NAME):
    key = ('set_theory', elt_ty)
    done = getattr(ev.ctx, '_mc_axioms', None)
    if done is None:
        done = ev.ctx._mc_axioms = set()
    if key not in done:
        done.add(key)
        ev.ctx.axioms.extend(set_theory_axioms(elt_ty))
        ev.ctx.trusted_used.add('marker_cache:set-theory axioms + lemmas (union/empty/commutative cardinality)')


@prims.spec_function('lidx', native=lambda t, level: list(t.hierarchy).index(level))
def s_lidx(ev, state, node):
    """position of a level in tree.hierarchy (duplicate free by wf_mctree)"""
    t, l = [ev.eval(state, a) for a in node.args]
    return SymVal(T.INT, LIDX(t.term, _name_arg(l)))


# ---- pool: own markers plus the lists of the table-listed ancestors down to level index i ---------
def _pool_native(t, table, level, node, base, i):
    """base | lists of the ancestors of (level, node) that are keys of `table`, for the ancestor
    levels with index >= i (nearest = largest index first; the order does not matter for the set)"""
    h = list(t.hierarchy)
    anc = t.parents(level, node)
    out = set(base)
    for idx in range(h.index(level) - 1, i - 1, -1):
        k = f'{h[idx]}/{anc[h[idx]]}'
        if k in table:
            out |= set(table[k])
    return out


_POOLF = {}


def _pool_fn(table_ty):
    st = T.TSet(T.NAME)
    key = T.sort_of(table_ty).name()
    if key not in _POOLF:
        _POOLF[key] = z3.Function('mct_pool', TREE_S, T.sort_of(table_ty), NAME_S, NAME_S,
                                  T.sort_of(st), z3.IntSort(), T.sort_of(st))
    return _POOLF[key]


@prims.spec_function('pool', native=_pool_native)
def s_pool(ev, state, node):
    from ..values import canon
    t, table, level, nd, base, i = [ev.eval(state, a) for a in node.args]
    if table.ty != T.TDict(T.NAME, T.TList(T.NAME)):
        raise Unsupported("pool(): table must be Dict[Name,List[Name]]")
    st = T.TSet(T.NAME)
    base = coerce(base, st)
    need_set_theory(ev, T.NAME)
    F = _pool_fn(table.ty)
    tt, ml, l, n, b, k = t.term, table.term, _name_arg(level), _name_arg(nd), base.term, coerce(i, T.INT).term
    app = F(tt, ml, l, n, b, k)
    if not _under_binder(tt, ml, l, n, b, k):
        # the recursive definition, unfolded once at this (ground) index
        h = select(t, ('fld', 'hierarchy'))
        anc = SymVal(ANC_T, ANC(tt, l, n))
        lev = seq_at(h, k)
        akey = grp_term(lev, dict_val(anc)[lev])
        nxt = F(tt, ml, l, n, b, k + 1)
        added = canon(st, 'setunion', nxt, canon(st, 'setof', dict_val(table)[akey]).term).term
        state.assume(z3.Implies(k >= LIDX(tt, l), app == b),
                     z3.Implies(z3.And(0 <= k, k < LIDX(tt, l)),
                                app == z3.If(dict_dom(table)[akey], added, nxt)))
    return SymVal(st, app)


def _under_binder(*terms):
    """does a term mention a variable bound by an enclosing spec quantifier (named q_...)?"""
    seen = set()
    todo = list(terms)
    while todo:
        x = todo.pop()
        if x.get_id() in seen:
            continue
        seen.add(x.get_id())
        if z3.is_app(x):
            if x.num_args() == 0 and x.decl().name().startswith('q_'):
                return True
            todo.extend(x.children())
        elif z3.is_quantifier(x):
            todo.append(x.body())
    return False


# ---- fallback_ok: the fallback rule of C08 (DESIGN A.3) as a named predicate -------------------------
# T tree, ML input table, QS set of query genes, m minimum, (lv, nd) the parent, own = set of its
# listed markers, R the list returned for it.  pool(i) = own + lists of the table-listed ancestors
# at level index >= i (nearest ancestors have the largest index, so pools grow as i decreases).
FALLBACK_DEF = (
    "sorted_strict(R) and any("
    # i = where the search stopped: the first level index (from the parent upwards) at which the
    # pool reaches the minimum, or the top of the tree
    "(i == 0 or len(QS.intersection({pool_i})) >= m) and "
    "all(len(QS.intersection({pool_i2})) < m for i2 in range(i + 1, lidx(T, lv) + 1)) and "
    # R holds exactly the query genes of that pool, plus the root's if the pool is still short
    "all(g in QS and (g in {pool_i} or (len(QS.intersection({pool_i})) < m and 'None' in ML and g in ML['None'])) for g in R) and "
    "all(implies(g in {pool_i} or (len(QS.intersection({pool_i})) < m and 'None' in ML and g in ML['None']), g in R) for g in QS) "
    "for i in range(0, lidx(T, lv) + 1))"
).format(pool_i="pool(T, ML, lv, nd, own, i)", pool_i2="pool(T, ML, lv, nd, own, i2)")

_FB = {}


def _fallback_ok_native(T_, ML, QS, m, lv, nd, own, R):
    from ..native import sorted_strict, implies
    env = dict(T=T_, ML=ML, QS=set(QS), m=m, lv=lv, nd=nd, own=set(own), R=list(R),
               pool=_pool_native, lidx=lambda t, level: list(t.hierarchy).index(level),
               sorted_strict=sorted_strict, implies=implies)
    return bool(eval(FALLBACK_DEF, env))


@prims.spec_function('fallback_ok', native=_fallback_ok_native)
def s_fallback_ok(ev, state, node):
    from ..engine import State
    vals = [ev.eval(state, a) for a in node.args]
    names = ['T', 'ML', 'QS', 'm', 'lv', 'nd', 'own', 'R']
    tys = [TREE, T.TDict(T.NAME, T.TList(T.NAME)), T.TSet(T.NAME), T.INT, T.NAME, T.NAME,
           T.TSet(T.NAME), T.TList(T.NAME)]
    vals = [coerce(v, ty) for v, ty in zip(vals, tys)]
    need_set_theory(ev, T.NAME)
    key = tuple(T.sort_of(ty).name() for ty in tys)
    if key not in _FB:
        _FB[key] = z3.Function('mct_fallback_ok', *([T.sort_of(ty) for ty in tys] + [z3.BoolSort()]))
    F = _FB[key]
    done = ev.ctx._mc_axioms
    if ('fallback_ok', vals[0].term.get_id()) not in done:
        done.add(('fallback_ok', vals[0].term.get_id()))
        # definition: for the tree at hand, every other argument universally quantified
        consts = [vals[0]] + [SymVal(ty, z3.Const('fb!' + nm, T.sort_of(ty))) for nm, ty in zip(names[1:], tys[1:])]
        st = State()
        st.pc = []
        for nm, c in zip(names, consts):
            st.ghost[nm] = c
        ev.ctx.spec_mode += 1
        try:
            body = truth(ev.eval(st, ast.parse(FALLBACK_DEF, mode='eval').body))
        finally:
            ev.ctx.spec_mode -= 1
        app = F(*[c.term for c in consts])
        ev.ctx.axioms.append(z3.ForAll([c.term for c in consts[1:]],
                                       app == body, patterns=[app]))
        # (facts recorded in st.pc while evaluating the body are instances of set_theory_axioms
        # about bound variables; they are not needed and are dropped)
    return SymVal(T.BOOL, F(*[v.term for v in vals]))


def _is_node_native(t, level, node):
    return level in t.hierarchy and node in t.nodes_at_level(level)


@prims.spec_function('is_node', native=_is_node_native)
def s_is_node(ev, state, node):
    t, l, n = [ev.eval(state, a) for a in node.args]
    return SymVal(T.BOOL, ISNODE(t.term, _name_arg(l), _name_arg(n)))


# ---- read-only HDF5 marker cache: which groups exist ---------------------------------------------------
# `with h5py.File(path, 'r') as f: ... key in f ...`  is modelled, for the functions of this area
# only, as membership in an (unknown, fixed) set of names that is a function of the path value:
# the file is opened read-only and nothing in the block writes to it.
H5_READERS = {
    'cell_type_mapper.type_assignment.utils.reconcile_taxonomy_and_markers',
}


def _h5_keys(path_val):
    from ..values import canon
    return canon(T.TSet(T.NAME), 'h5keys', path_val.term)


def _h5_has_native(path, key):
    import h5py
    with h5py.File(path, 'r') as f:
        return key in f


@prims.spec_function('h5_has', native=_h5_has_native)
def s_h5_has(ev, state, node):
    from ..values import set_has
    path, key = [ev.eval(state, a) for a in node.args]
    ev.ctx.trusted_used.add('marker_cache:h5_has (read-only HDF5 file = fixed set of group names)')
    return SymVal(T.BOOL, set_has(_h5_keys(path))[_name_arg(key)])


def install_h5_reader():
    """(re-)install the h5py.File handler on top of whatever handler is registered"""
    prev = prims.QUALIFIED.get('h5py.File')
    if getattr(prev, '_mc_reader', False):
        return

    def q_h5_file(ev, state, node):
        if ev.ctx.qualname in H5_READERS and len(node.args) == 2 \
                and isinstance(node.args[1], ast.Constant) and node.args[1].value == 'r':
            path = ev.eval(state, node.args[0])
            r = _h5_keys(path)
            state.assume(*wf(r))
            return r
        if prev is not None:
            return prev(ev, state, node)
        raise Unsupported("h5py.File (no model for this use)")
    q_h5_file._mc_reader = True
    prims.QUALIFIED['h5py.File'] = q_h5_file


install_h5_reader()


# ---- HDF5 marker cache being written: ghost record of the per-group datasets -----------------------------
# `with h5py.File(path, 'w'|'a') as f` is a handle (record MCH5File); `f.create_group(name)` a group
# handle (record MCH5Group, field `grp_name`); `grp.create_dataset('reference'|'query', data=a)` stores
# the integer array `a` under the group name in the ghost dictionaries `written_ref` /
# `written_query` declared by the contract (ghost=dict(vars=...)); `f.create_dataset(name, data=a)`
# with an integer array stores it in `written_top[name]`.  Nothing else about h5py is modelled
# (HDF5 round trip: trusted, checked by the native layer which reads the file back).
T.record('MCH5File', tag='Int')
T.record('MCH5Group', grp_name='Name')
H5_WRITERS = {
    'cell_type_mapper.type_assignment.marker_cache_v2.write_query_markers_to_h5',
}


def _kwargs(ev, state, node, lenient_ok=True):
    out = {}
    for kw in node.keywords:
        if kw.arg is None:
            continue
        try:
            out[kw.arg] = ev.eval(state, kw.value)
        except Unsupported:
            if not ev.ctx.lenient:
                raise
            out[kw.arg] = None
    return out


def _ghost_store(ev, state, var, key_term, data):
    from ..symexec import read_ref, write_ref
    from ..values import dict_store
    ref = state.env.get(var)
    if ref is None or data is None or data.ty[0] not in ('arr', 'list') or data.ty[1] != T.INT:
        return
    cur = read_ref(state, ref)
    write_ref(state, ref, dict_store(cur, key_term, data.term))


def _m_file_create_dataset(ev, state, node, recv, ref):
    name = ev.eval(state, node.args[0]) if node.args else None
    kws = _kwargs(ev, state, node)
    if name is not None and name.ty == T.NAME:
        _ghost_store(ev, state, 'written_top', name.term, kws.get('data'))
    return fresh(T.OPAQUE, 'dataset')


def _m_file_create_group(ev, state, node, recv, ref):
    name = coerce(ev.eval(state, node.args[0]), T.NAME)
    ty = T.TRec('MCH5Group')
    return SymVal(ty, T.ctor(ty)(name.term))


def _m_group_create_dataset(ev, state, node, recv, ref):
    name = ev.eval(state, node.args[0])
    kws = _kwargs(ev, state, node)
    grp = T.acc(recv.ty, 'grp_name')(recv.term)
    if name.meta == ('const', 'reference'):
        _ghost_store(ev, state, 'written_ref', grp, kws.get('data'))
    elif name.meta == ('const', 'query'):
        _ghost_store(ev, state, 'written_query', grp, kws.get('data'))
    else:
        raise Unsupported("dataset of a marker group other than 'reference' / 'query'")
    return fresh(T.OPAQUE, 'dataset')


ghost.METHODS[('MCH5File', 'create_dataset')] = _m_file_create_dataset
ghost.METHODS[('MCH5File', 'create_group')] = _m_file_create_group
ghost.METHODS[('MCH5Group', 'create_dataset')] = _m_group_create_dataset


def install_h5_writer():
    prev = prims.QUALIFIED.get('h5py.File')
    if getattr(prev, '_mc_writer', False):
        return

    def q_h5_file_w(ev, state, node):
        if ev.ctx.qualname in H5_WRITERS and len(node.args) == 2 \
                and isinstance(node.args[1], ast.Constant) and node.args[1].value in ('w', 'a'):
            ev.eval(state, node.args[0])
            return fresh(T.TRec('MCH5File'), 'h5file')
        if prev is not None:
            return prev(ev, state, node)
        raise Unsupported("h5py.File (no model for this use)")
    q_h5_file_w._mc_writer = True
    q_h5_file_w._mc_reader = getattr(prev, '_mc_reader', False)
    prims.QUALIFIED['h5py.File'] = q_h5_file_w


install_h5_writer()


# ---- named predicates: a clause text given a name ("definition hiding") ------------------------------
# A predicate NAME(args) is an uninterpreted boolean function together with the axiom
# `forall args. NAME(args) == <clause text over the argument names>`, triggered by applications of
# NAME only.  Invariants and post-conditions can then carry NAME(...) across state changes by
# congruence, and unfold it where it is established / used.  The native twin evaluates the same text.
def define_predicate(name, arg_names, arg_types, text, helpers=None):
    tys = [T.parse_type(t) for t in arg_types]
    fn = z3.Function('pred_' + name, *([T.sort_of(t) for t in tys] + [z3.BoolSort()]))

    def native(*args):
        from .. import native as N
        env = dict(N.HELPERS)
        env.update(prims.NATIVE_SPEC)
        env.update(helpers or {})
        env.update(dict(zip(arg_names, args)))
        return bool(eval(text, env))

    def sym(ev, state, node):
        from ..engine import State
        vals = [coerce(ev.eval(state, a), ty) for a, ty in zip(node.args, tys)]
        done = getattr(ev.ctx, '_mc_axioms', None)
        if done is None:
            done = ev.ctx._mc_axioms = set()
        if ('pred', name) not in done:
            done.add(('pred', name))
            consts = [SymVal(ty, z3.Const(f'pd!{name}!{nm}', T.sort_of(ty))) for nm, ty in zip(arg_names, tys)]
            st = State()
            st.pc = []
            for nm, c in zip(arg_names, consts):
                st.ghost[nm] = c
            ev.ctx.spec_mode += 1
            try:
                body = truth(ev.eval(st, ast.parse(text, mode='eval').body))
            finally:
                ev.ctx.spec_mode -= 1
            app = fn(*[c.term for c in consts])
            ev.ctx.axioms.append(z3.ForAll([c.term for c in consts], app == body, patterns=[app]))
        return SymVal(T.BOOL, fn(*[v.term for v in vals]))
    prims.spec_function(name, native=native)(sym)
    return text


# group_ok: the `reference` / `query` arrays (wr, wq) written for a group that lists the genes `lst`,
# given the reference and query gene lists R, Qn  (C08.c)
GROUP_OK_DEF = define_predicate(
    'group_ok', ['lst', 'R', 'Qn', 'wr', 'wq'],
    ['List[Name]', 'List[Name]', 'List[Name]', 'Arr[Int]', 'Arr[Int]'],
    "len(wr) == len(lst) and len(wq) == len(lst) and "
    # valid column indices, paired by gene NAME
    "all(0 <= wr[i] < len(R) and 0 <= wq[i] < len(Qn) and R[wr[i]] == Qn[wq[i]] for i in range(len(lst))) and "
    # exactly the genes listed for the group
    "all(R[wr[i]] in lst for i in range(len(lst))) and "
    "all(any(R[wr[i]] == g for i in range(len(lst))) for g in lst) and "
    # co-sorted by (pairwise distinct) reference index
    "sorted_strict(wr)")


# stored_ok: the arrays written for a group whose (validated) marker list is `lst`: they index, by
# name, exactly the genes of `lst` that occur in the query, co-sorted by reference index  (C08.b/c)
STORED_OK_DEF = define_predicate(
    'stored_ok', ['lst', 'R', 'Qn', 'wr', 'wq'],
    ['List[Name]', 'List[Name]', 'List[Name]', 'Arr[Int]', 'Arr[Int]'],
    "len(wr) == len(wq) and "
    "all(0 <= wr[i] < len(R) and 0 <= wq[i] < len(Qn) and R[wr[i]] == Qn[wq[i]] for i in range(len(wr))) and "
    "all(R[wr[i]] in lst for i in range(len(wr))) and "
    "all(any(R[wr[i]] == g for i in range(len(wr))) for g in lst if g in Qn) and "
    "sorted_strict(wr)")

H5_WRITERS.add('cell_type_mapper.type_assignment.marker_cache_v2.create_marker_cache_from_specified_markers')


# listed(ML, g): gene g occurs in some list of the marker table ML
LISTED_DEF = define_predicate('listed', ['ML', 'g'], ['Dict[Name,List[Name]]', 'Name'],
                              "any(g in ML[k2] for k2 in ML)")


# kept_ok(lst, Qn, kept): `kept` enumerates, without repetition, the genes of `lst` that are in the
# query gene list Qn  (what create_marker_cache_from_specified_markers stores for a group)
KEPT_OK_DEF = define_predicate(
    'kept_ok', ['lst', 'Qn', 'kept'], ['List[Name]', 'List[Name]', 'List[Name]'],
    "dupfree(kept) and all(g in lst and g in Qn for g in kept) and all(g in kept for g in lst if g in Qn)")


# ---- reading a marker cache back (bounded layer of serialize_markers; native only) ---------------------
def _h5_names_native(path):
    import h5py
    import json
    with h5py.File(path, 'r') as f:
        return json.loads(f['reference_gene_names'][()].decode('utf-8'))


def _h5_ref_native(path, key):
    import h5py
    with h5py.File(path, 'r') as f:
        return [int(i) for i in f[key]['reference'][()]]


def _native_only(name):
    def h(ev, state, node):
        raise Unsupported(f"{name}() is a native-only specification function (bounded contracts)")
    return h


prims.spec_function('h5_names', native=_h5_names_native)(_native_only('h5_names'))
prims.spec_function('h5_ref', native=_h5_ref_native)(_native_only('h5_ref'))
