"""Taxonomy area: trusted primitives and spec helpers (C10 / C12 / C17 / C01.e).

Trusted base added here (keep minimal, each entry true for every input):
  * `<hetero dict>.keys()` as a value: the set of the fixed keys plus the keys of the rest.
"""
import ast
import z3

from .. import types as T
from ..values import (SymVal, Unsupported, fresh, fresh_name, wf, literal, dict_dom, dict_card,
                      set_has, set_card, seq_len, seq_at)
from ..symexec import select
from .. import ghost


def rec_keys(ev, state, node, recv, ref):
    """d.keys() of a heterogeneous dict (record with `_rest`), as a set value"""
    flds = T.RECORDS[recv.ty[1]]
    if '__rest__' not in flds:
        raise Unsupported(f".keys() of record {recv.ty[1]}")
    rest = select(recv, ('fld', '__rest__'))
    fixed = [literal(f).term for f in flds if f != '__rest__']
    r = fresh(T.TSet(rest.ty[1]), 'reckeys')
    k = z3.Const(fresh_name('k'), T.sort_of(rest.ty[1]))
    state.assume(z3.ForAll([k], set_has(r)[k] == z3.Or(dict_dom(rest)[k], *[k == f for f in fixed])),
                 set_card(r) >= len(fixed), set_card(r) <= dict_card(rest) + len(fixed), *wf(r))
    return r


def register_rec_keys(record_name):
    ghost.METHODS[(record_name, 'keys')] = rec_keys


# ---------------------------------------------------------------------------------------------
# first_index(xs, x): position of the first occurrence of x in xs, >= len(xs) when absent.
# Membership without an existential quantifier: `first_index(xs, x) < len(xs)`.
# Axioms (true of the function "first position in [0, len) holding x, else max(len, 0)" for
# every sequence value, also junk ones with negative length):
#   0 <= fi(xs, x);  fi(xs, x) < len(xs) -> xs[fi(xs, x)] == x;
#   0 <= q < len(xs) and xs[q] == x -> fi(xs, x) <= q
# ---------------------------------------------------------------------------------------------
from ..prims import spec_function          # noqa: E402
from ..engine import coerce                # noqa: E402

_FI = {}


def first_index_fn(ctx, seq_ty):
    s = T.sort_of(seq_ty)
    key = str(s)
    if key not in _FI:
        _FI[key] = z3.Function('first_index_' + T.mangle(seq_ty), s, T.sort_of(seq_ty[1]), z3.IntSort())
    f = _FI[key]
    done = getattr(ctx, '_first_index_axioms', None)
    if done is None:
        done = ctx._first_index_axioms = set()
    if key not in done:
        done.add(key)
        xs = z3.Const('fi_xs_' + T.mangle(seq_ty), s)
        x = z3.Const('fi_x_' + T.mangle(seq_ty), T.sort_of(seq_ty[1]))
        q = z3.Int('fi_q_' + T.mangle(seq_ty))
        ln = T.acc(seq_ty, 'len')(xs)
        at = T.acc(seq_ty, 'at')(xs)
        ctx.axioms.append(z3.ForAll([xs, x], z3.And(f(xs, x) >= 0,
                                                    z3.Implies(f(xs, x) < ln, at[f(xs, x)] == x)),
                                    patterns=[f(xs, x)]))
        ctx.axioms.append(z3.ForAll([xs, x, q], z3.Implies(z3.And(0 <= q, q < ln, at[q] == x),
                                                           f(xs, x) <= q),
                                    patterns=[z3.MultiPattern(f(xs, x), at[q])]))
    return f


def _first_index_native(xs, x):
    xs = list(xs)
    return xs.index(x) if x in xs else len(xs)


@spec_function('first_index', native=_first_index_native)
def s_first_index(ev, state, node):
    xs = ev.eval(state, node.args[0])
    if xs.ty[0] not in ('list', 'arr'):
        raise Unsupported(f"first_index of {T.show(xs.ty)}")
    x = coerce(ev.eval(state, node.args[1]), xs.ty[1])
    f = first_index_fn(ev.ctx, xs.ty)
    return SymVal(T.INT, f(xs.term, x.term))


# ---------------------------------------------------------------------------------------------
# constructor calls `Cls(args)`: modular call of the contracted __init__ on a fresh object.
# The __init__ contract must declare mutates=['self'], returns_alias='self' (the value of the
# constructor expression is the initialised object).
# ---------------------------------------------------------------------------------------------
def register_constructor(class_name, init_qualname, rec_name):
    from .. import prims

    def h(ev, state, node):
        # a caller may ask for a view of the constructor contract (ghost=dict(ctor_view='wf')):
        # e.g. "data well formed => no exception" instead of "exception only if malformed"
        view = (ev.ctx.contract.ghost or {}).get('ctor_view') if ev.ctx.contract is not None else None
        c = ev.ctx.registry.get(init_qualname + ('#' + view if view else ''))
        if c is None:
            raise Unsupported(f"constructor {class_name} without __init__ contract")
        obj = fresh(T.TRec(rec_name), 'new_' + class_name)
        state.assume(*wf(obj))
        return prims.call_contract(ev, state, node, c, init_qualname, receiver=(obj, None))
    prims.BUILTINS[class_name] = h


# ---------------------------------------------------------------------------------------------
# d.pop(k) on a heterogeneous dict: k must be a key of the rest (popping a fixed field would
# change the shape of the record: obligation `hetero-key`), KeyError when absent
# ---------------------------------------------------------------------------------------------
def rec_pop(ev, state, node, recv, ref):
    from ..symexec import write_ref, Ref
    from ..values import dict_val, dict_remove
    flds = T.RECORDS[recv.ty[1]]
    if '__rest__' not in flds or len(node.args) != 1 or node.keywords:
        raise Unsupported(f".pop() of record {recv.ty[1]}")
    if ref is None:
        raise Unsupported("pop on a temporary record")
    rest = select(recv, ('fld', '__rest__'))
    kv = coerce(ev.eval(state, node.args[0]), rest.ty[1])
    for f in flds:
        if f != '__rest__':
            ev.ctx.oblige(state, kv.term != literal(f).term, 'hetero-key', node,
                          f"popped key is not the fixed field {f!r}")
    ev.ctx.oblige(state, dict_dom(rest)[kv.term], 'KeyError', node, 'popped key present')
    out = SymVal(rest.ty[2], dict_val(rest)[kv.term])
    write_ref(state, Ref(ref.cid, ref.path + (('fld', '__rest__'),)), dict_remove(rest, kv.term))
    return out


def register_rec_pop(record_name):
    ghost.METHODS[(record_name, 'pop')] = rec_pop


# ---------------------------------------------------------------------------------------------
# s.startswith(<literal>): an uninterpreted predicate of (string, prefix) (A-STR), exact for
# string literals - in particular for the fixed field names of the declared records
# ---------------------------------------------------------------------------------------------
_SW = z3.Function('str_startswith', z3.IntSort(), z3.IntSort(), z3.BoolSort())


def _name_startswith(ev, state, node, recv):
    from .. import prims
    from .. import values as V
    if len(node.args) != 1 or node.keywords:
        raise Unsupported("startswith form")
    p = ev.eval(state, node.args[0])
    if not (p.meta and p.meta[0] == 'const' and isinstance(p.meta[1], str)):
        raise Unsupported("startswith with a non-literal prefix")
    prefix = p.meta[1]
    if recv.meta and recv.meta[0] == 'const' and isinstance(recv.meta[1], str):
        return SymVal(T.BOOL, z3.BoolVal(recv.meta[1].startswith(prefix)), ('const', recv.meta[1].startswith(prefix)))
    for flds in T.RECORDS.values():
        for f in flds:
            if f != '__rest__':
                literal(f)
    done = getattr(ev.ctx, '_sw_facts', None)
    if done is None:
        done = ev.ctx._sw_facts = set()
    for s, t in list(V._LITERALS.items()):
        if (s, prefix) not in done:
            done.add((s, prefix))
            ev.ctx.axioms.append(_SW(t, p.term) == z3.BoolVal(s.startswith(prefix)))
    return SymVal(T.BOOL, _SW(recv.term, p.term))


def _register_name_methods():
    from .. import prims
    prims.NAME_METHODS.setdefault('startswith', _name_startswith)


_register_name_methods()


# ---------------------------------------------------------------------------------------------
# owner_index(d, ks, x): first position i of the key list ks such that x occurs in the list
# d[ks[i]]; >= len(ks) when there is none.  "x is listed under one of the keys ks" without an
# existential quantifier.  Definitional axioms (min index satisfying a predicate, else max(len, 0)):
#   0 <= oi;   oi < len(ks) -> first_index(d[ks[oi]], x) < len(d[ks[oi]]);
#   0 <= i < len(ks) and first_index(d[ks[i]], x) < len(d[ks[i]]) -> oi <= i
#   0 <= i < len(ks) and 0 <= j < len(d[ks[i]]) and d[ks[i]][j] == x -> oi <= i   (same fact, other trigger)
# ---------------------------------------------------------------------------------------------
_OI = {}


def _owner_index_native(d, ks, x):
    for i, k in enumerate(ks):
        if x in list(d[k]):
            return i
    return len(ks)


@spec_function('owner_index', native=_owner_index_native)
def s_owner_index(ev, state, node):
    from ..values import dict_val
    d = ev.eval(state, node.args[0])
    ks = ev.eval(state, node.args[1])
    if d.ty[0] != 'dict' or d.ty[2][0] not in ('list', 'arr') or ks.ty[0] not in ('list', 'arr'):
        raise Unsupported("owner_index(dict of lists, key list, x)")
    ks = coerce(ks, T.TList(d.ty[1])) if T.sort_of(ks.ty) == T.sort_of(T.TList(d.ty[1])) else ks
    x = coerce(ev.eval(state, node.args[2]), d.ty[2][1])
    ctx = ev.ctx
    key = (str(T.sort_of(d.ty)), str(T.sort_of(ks.ty)))
    if key not in _OI:
        _OI[key] = z3.Function('owner_index_' + T.mangle(d.ty), T.sort_of(d.ty), T.sort_of(ks.ty),
                               T.sort_of(d.ty[2][1]), z3.IntSort())
    f = _OI[key]
    done = getattr(ctx, '_owner_index_axioms', None)
    if done is None:
        done = ctx._owner_index_axioms = set()
    if key not in done:
        done.add(key)
        fi = first_index_fn(ctx, d.ty[2])
        dd = z3.Const('oi_d_' + T.mangle(d.ty), T.sort_of(d.ty))
        kk = z3.Const('oi_ks_' + T.mangle(d.ty), T.sort_of(ks.ty))
        xx = z3.Const('oi_x_' + T.mangle(d.ty), T.sort_of(d.ty[2][1]))
        ii = z3.Int('oi_i_' + T.mangle(d.ty))
        klen = T.acc(ks.ty, 'len')(kk)
        kat = T.acc(ks.ty, 'at')(kk)
        val = T.acc(d.ty, 'val')(dd)
        llen = T.acc(d.ty[2], 'len')
        o = f(dd, kk, xx)
        ctx.axioms.append(z3.ForAll([dd, kk, xx], z3.And(
            o >= 0, z3.Implies(o < klen, fi(val[kat[o]], xx) < llen(val[kat[o]]))), patterns=[o]))
        ctx.axioms.append(z3.ForAll([dd, kk, xx, ii], z3.Implies(
            z3.And(0 <= ii, ii < klen, fi(val[kat[ii]], xx) < llen(val[kat[ii]])), o <= ii),
            patterns=[z3.MultiPattern(o, fi(val[kat[ii]], xx))]))
        # the same fact stated from an occurrence d[ks[i]][j] == x (no first_index term needed
        # as a trigger)
        jj = z3.Int('oi_j_' + T.mangle(d.ty))
        lat = T.acc(d.ty[2], 'at')
        ctx.axioms.append(z3.ForAll([dd, kk, xx, ii, jj], z3.Implies(
            z3.And(0 <= ii, ii < klen, 0 <= jj, jj < llen(val[kat[ii]]), lat(val[kat[ii]])[jj] == xx),
            o <= ii), patterns=[z3.MultiPattern(o, lat(val[kat[ii]])[jj])]))
    return SymVal(T.INT, f(d.term, ks.term, x.term))
