"""Extension for the election area (C02, C03, C01.d, C06.a/c, C07.b).

TRUSTED BASE added here (each entry states the library semantics it assumes; every entry is
true of the library for every input):

* `Generator.choice(a, k, replace=False)`  (record `Rng`): a length-k selection of elements of
  `a` at pairwise distinct positions; `ValueError` unless `0 <= k <= len(a)`.  With
  `replace=True`: positions need not be distinct.  Nothing else is assumed about the stream.
* `numpy.sort` (1-D): a sorted permutation.
* `numpy.argsort(M, axis=1)`: every row is a permutation of the column numbers that sorts the
  row in non-decreasing order (stability NOT assumed).  `numpy.argmax(M, axis=0)`: some
  maximiser of every column (`ValueError` for zero rows).
* 2-D indexing: `M[:, idx]`, `M[:, j]`, `M[:, a:b]`, `M[:, -1::-1]`, `M[R, C]` for paired 1-D /
  2-D integer index arrays; paired store `M[r, c] = v` with last-write-wins, exactly numpy's
  rule (hence `M[r, c] += v` = read, add, store: a repeated pair is incremented once).
* 2-D elementwise arithmetic (`+ - * /` with a scalar or a same-shape array), comparison with
  a scalar, `numpy.where(C, A, b)`, `numpy.array(list of equal-length lists)`, `[x] * k`.
* `M.sum(axis=1)` / `numpy.sum(M, axis=1)`: the fold `rowsum_fold` below.

DEFINED, NOT TRUSTED: the fold  rs(A, i, 0) = 0,  rs(A, i, n+1) = rs(A, i, n) + A[i, n]  and the
lemmas Z (zero row), N (non-negative row: rs >= 0 and rs >= every entry), U (single-cell
update), E (equal rows), M (pointwise <=).  Each lemma is proved by induction on n by z3 from the
two defining equations when this module is loaded (`_prove_lemmas`); the module refuses to load
if a proof fails, so the lemmas never enter a VC unproved.

The hooks are active only while a function of the election area is verified (`_mine`), so no
other area's proofs change meaning.
"""
import ast
import z3

from pyvc import types as T
from pyvc.values import (SymVal, Unsupported, fresh, fresh_name, const_int, const_bool, NONEVAL,
                         wf, seq_len, seq_at, mk_seq, empty_seq, canon)
from pyvc.engine import is_num, to_real, to_int, truth, join_types, coerce
from pyvc import numpy_prims as NP
from pyvc import prims as P
from pyvc import symexec as SX
from pyvc import ghost as G
from pyvc.symexec import select

AREA = ('cell_type_mapper.type_assignment.election.',
        'cell_type_mapper.type_assignment.matching.',
        'cell_type_mapper.utils.distance_utils.',
        'cell_type_mapper.cell_by_gene.utils.')


def _mine(ev):
    return ev.ctx.qualname.startswith(AREA)


def _in(i, n):
    return z3.And(0 <= i, i < n)


def _is_seq(v):
    return v.ty[0] in ('arr', 'list')


def _is_iseq(v):
    return _is_seq(v) and v.ty[1] == T.INT


def m_n0(v):
    return NP.m_n0(v)


def m_n1(v):
    return NP.m_n1(v)


def m_at(v, i, j):
    return NP.m_at(v, i, j)


def _pw1(state, n, ety, fn, hint):
    r = fresh(T.TArr(ety), hint)
    i = z3.Int(fresh_name('pi'))
    state.assume(seq_len(r) == n, z3.ForAll([i], z3.Implies(_in(i, n), seq_at(r, i) == fn(i))))
    return r


def _pw2(state, n0, n1, ety, fn, hint):
    r = fresh(T.TArr2(ety), hint)
    i, j = z3.Int(fresh_name('pi')), z3.Int(fresh_name('pj'))
    state.assume(m_n0(r) == n0, m_n1(r) == n1,
                 z3.ForAll([i, j], z3.Implies(z3.And(_in(i, n0), _in(j, n1)), m_at(r, i, j) == fn(i, j))))
    return r


# ---------------------------------------------------------------------------------------------
# the row-sum fold and its lemmas
# ---------------------------------------------------------------------------------------------
_RS = {}


def _esort(ety):
    return z3.IntSort() if ety == T.INT else z3.RealSort()


def rs_fn(ety):
    """rs(A, i, n) = A[i,0] + ... + A[i,n-1]   (A : Int x Int -> elem)"""
    if ety not in _RS:
        es = _esort(ety)
        _RS[ety] = z3.Function('rowsum_fold_' + ety[0], z3.ArraySort(z3.IntSort(), z3.IntSort(), es),
                               z3.IntSort(), z3.IntSort(), es)
    return _RS[ety]


def _lemma_statements(ety, A, B, i, i2, c, n):
    """name -> statement P(n) with every other symbol fixed"""
    rs = rs_fn(ety)
    j = z3.Int('lem_j')
    zero = z3.IntVal(0) if ety == T.INT else z3.RealVal(0)
    return {
        'Z': z3.Implies(z3.ForAll([j], z3.Implies(_in(j, n), A[i, j] == zero)), rs(A, i, n) == zero),
        'N': z3.Implies(z3.ForAll([j], z3.Implies(_in(j, n), A[i, j] >= zero)),
                        z3.And(rs(A, i, n) >= zero, z3.Implies(_in(c, n), rs(A, i, n) >= A[i, c]))),
        'U': z3.Implies(z3.ForAll([j], z3.Implies(z3.And(_in(j, n), j != c), B[i, j] == A[i, j])),
                        rs(B, i, n) == rs(A, i, n) + z3.If(_in(c, n), B[i, c] - A[i, c], zero)),
        'E': z3.Implies(z3.ForAll([j], z3.Implies(_in(j, n), B[i2, j] == A[i, j])),
                        rs(B, i2, n) == rs(A, i, n)),
        'M': z3.Implies(z3.ForAll([j], z3.Implies(_in(j, n), B[i2, j] <= A[i, j])),
                        rs(B, i2, n) <= rs(A, i, n)),
    }


def _prove_lemmas():
    """induction on n; the only facts used are the defining equations of the fold"""
    for ety in (T.INT, T.REAL):
        rs = rs_fn(ety)
        es = _esort(ety)
        asort = z3.ArraySort(z3.IntSort(), z3.IntSort(), es)
        A, B = z3.Const('lem_A', asort), z3.Const('lem_B', asort)
        i, i2, c, n = z3.Ints('lem_i lem_i2 lem_c lem_n')
        zero = z3.IntVal(0) if ety == T.INT else z3.RealVal(0)
        defs = []
        for X, r in ((A, i), (B, i), (B, i2)):
            defs += [rs(X, r, 0) == zero, rs(X, r, n + 1) == rs(X, r, n) + X[r, n]]
        for name in 'ZNUEM':
            p0 = _lemma_statements(ety, A, B, i, i2, c, z3.IntVal(0))[name]
            pn = _lemma_statements(ety, A, B, i, i2, c, n)[name]
            pn1 = _lemma_statements(ety, A, B, i, i2, c, n + 1)[name]
            for what, goal in (('base', p0), ('step', z3.Implies(z3.And(n >= 0, pn), pn1))):
                s = z3.Solver()
                s.set('timeout', 20000)
                s.add(*defs)
                s.add(z3.Not(goal))
                if s.check() != z3.unsat:
                    raise RuntimeError(f"pyvc.ext.election: lemma {name} ({ety[0]}, {what}) not proved")


_prove_lemmas()


def _rs_axioms(ctx, ety):
    """global (quantified) forms of Z, N for every matrix; U, E, M are emitted as instances"""
    key = '_rs_axioms_' + ety[0]
    if getattr(ctx, key, False):
        return
    setattr(ctx, key, True)
    rs = rs_fn(ety)
    es = _esort(ety)
    A = z3.Const('rsA_' + ety[0], z3.ArraySort(z3.IntSort(), z3.IntSort(), es))
    i, c, n = z3.Int('rsi_' + ety[0]), z3.Int('rsc_' + ety[0]), z3.Int('rsn_' + ety[0])
    st = _lemma_statements(ety, A, A, i, i, c, n)
    ctx.axioms.append(z3.ForAll([A, i, n], z3.Implies(n >= 0, st['Z']), patterns=[rs(A, i, n)]))
    j = z3.Int('rsj_' + ety[0])
    zero = z3.IntVal(0) if ety == T.INT else z3.RealVal(0)
    nonneg = z3.ForAll([j], z3.Implies(_in(j, n), A[i, j] >= zero))
    # N, split in two so that the first half needs no column term to be instantiated
    ctx.axioms.append(z3.ForAll([A, i, n], z3.Implies(z3.And(n >= 0, nonneg), rs(A, i, n) >= zero),
                                patterns=[rs(A, i, n)]))
    ctx.axioms.append(z3.ForAll([A, i, n, c], z3.Implies(z3.And(n >= 0, nonneg, _in(c, n)), rs(A, i, n) >= A[i, c]),
                                patterns=[z3.MultiPattern(rs(A, i, n), A[i, c])]))


def rowsum_term(ev, m, i):
    ety = m.ty[1]
    if m.ty[0] != 'arr2' or ety not in (T.INT, T.REAL):
        raise Unsupported("rowsum of a non-numeric matrix")
    _rs_axioms(ev.ctx, ety)
    return rs_fn(ety)(T.acc(m.ty, 'at')(m.term), i, m_n1(m))


def _rowsum_native(m, i):
    import numpy as np
    return np.asarray(m)[i, :].sum()


@P.spec_function('rowsum', native=_rowsum_native)
def s_rowsum(ev, state, node):
    m = ev.eval(state, node.args[0])
    i = to_int(ev.eval(state, node.args[1]))
    return SymVal(m.ty[1], rowsum_term(ev, m, i))


def _emit_update(state, ety, new, old, row, col, guard):
    """lemma U instance: `new` equals `old` on row `row` except (possibly) at column `col`"""
    rs = rs_fn(ety)
    n1 = m_n1(old)
    A, B = T.acc(old.ty, 'at')(old.term), T.acc(new.ty, 'at')(new.term)
    j = z3.Int(fresh_name('uj'))
    zero = z3.IntVal(0) if ety == T.INT else z3.RealVal(0)
    return z3.Implies(z3.And(guard, z3.ForAll([j], z3.Implies(z3.And(_in(j, n1), j != col), B[row, j] == A[row, j]))),
                      rs(B, row, n1) == rs(A, row, n1) + z3.If(_in(col, n1), B[row, col] - A[row, col], zero))


def _emit_equal(state, ety, new, r2, old, r1, guard, n=None):
    """lemma E instance: row r2 of `new` equals row r1 of `old`"""
    rs = rs_fn(ety)
    n1 = m_n1(old) if n is None else n
    A, B = T.acc(old.ty, 'at')(old.term), T.acc(new.ty, 'at')(new.term)
    j = z3.Int(fresh_name('ej'))
    return z3.Implies(z3.And(guard, z3.ForAll([j], z3.Implies(_in(j, n1), B[r2, j] == A[r1, j]))),
                      rs(B, r2, n1) == rs(A, r1, n1))


# ---------------------------------------------------------------------------------------------
# random generator
# ---------------------------------------------------------------------------------------------
T.record('Rng', stream='Int')


@G.method('Rng', 'choice')
def m_choice(ev, state, node, recv, ref):
    a = ev.eval(state, node.args[0])
    if len(node.args) > 1:
        kn = node.args[1]
    else:
        kn = NP._kw(node, 'size')
    if kn is None or not _is_seq(a):
        raise Unsupported("rng.choice form")
    kv = ev.eval(state, kn)
    if kv.meta and kv.meta[0] == 'integral':
        k = kv.meta[1]
    elif kv.ty == T.INT:
        k = kv.term
    else:
        raise Unsupported("rng.choice size")
    rep = NP._kw(node, 'replace')
    if rep is None:
        replace = z3.BoolVal(True)
    else:
        replace = truth(ev.eval(state, rep))
    n = seq_len(a)
    ev.ctx.oblige(state, z3.And(k >= 0, z3.Or(replace, k <= n), z3.Implies(k > 0, n > 0)), 'ValueError', node,
                  'rng.choice: 0 <= size, and size <= len(a) without replacement')
    r = fresh(T.TArr(a.ty[1]), 'choice')
    pos = z3.Function(fresh_name('choice_pos'), z3.IntSort(), z3.IntSort())
    j, j2 = z3.Int(fresh_name('cj')), z3.Int(fresh_name('cj2'))
    state.assume(seq_len(r) == k,
                 z3.ForAll([j], z3.Implies(_in(j, k), z3.And(_in(pos(j), n), seq_at(r, j) == seq_at(a, pos(j))))),
                 z3.Implies(z3.Not(replace),
                            z3.ForAll([j, j2], z3.Implies(z3.And(0 <= j, j < j2, j2 < k), pos(j) != pos(j2)))))
    ev.ctx.trusted_used.add('Generator.choice')
    return r


@NP.q('numpy.sort')
def np_sort(ev, state, node):
    v = ev.eval(state, node.args[0])
    if not _is_seq(v) or v.ty[1] not in (T.INT, T.REAL, T.NAME):
        raise Unsupported("np.sort operand")
    r = P.sorted_perm_of(state, SymVal(T.TArr(v.ty[1]), v.term), hint='npsort')
    if v.ty[1] == T.INT:
        # lemma (induction on k, from r[k] < r[k+1] over the integers): a strictly increasing
        # integer sequence grows by at least one per step
        n = seq_len(r)
        a, b, k = z3.Int(fresh_name('sa')), z3.Int(fresh_name('sb')), z3.Int(fresh_name('sk'))
        strict = z3.ForAll([a, b], z3.Implies(z3.And(0 <= a, a < b, b < n), seq_at(r, a) < seq_at(r, b)))
        state.assume(z3.Implies(z3.And(strict, n > 0),
                                z3.ForAll([k], z3.Implies(_in(k, n),
                                                          z3.And(seq_at(r, k) >= seq_at(r, 0) + k,
                                                                 seq_at(r, k) <= seq_at(r, n - 1) - (n - 1 - k))))))
    return r


def _prove_strict_lemma():
    """c strictly increasing on [0, n) => c[k] >= c[0] + k and c[k] <= c[n-1] - (n-1-k)"""
    c = z3.Array('lem_c', z3.IntSort(), z3.IntSort())
    n, k, a = z3.Ints('lem_n lem_k lem_a')
    adj = z3.ForAll([a], z3.Implies(z3.And(0 <= a, a + 1 < n), c[a] < c[a + 1]))
    up = lambda k_: z3.Implies(_in(k_, n), c[k_] >= c[0] + k_)
    dn = lambda k_: z3.Implies(_in(n - 1 - k_, n), c[n - 1 - k_] <= c[n - 1] - k_)
    for P_ in (up, dn):
        for goal in (P_(z3.IntVal(0)), z3.Implies(z3.And(k >= 0, P_(k)), P_(k + 1))):
            s = z3.Solver()
            s.set('timeout', 20000)
            s.add(adj, z3.Not(goal))
            if s.check() != z3.unsat:
                raise RuntimeError("pyvc.ext.election: strictly-increasing lemma not proved")


_prove_strict_lemma()


# ---------------------------------------------------------------------------------------------
# numpy functions on matrices
# ---------------------------------------------------------------------------------------------
def _axis(ev, state, node, pos=1):
    ax = NP._kw(node, 'axis')
    if ax is None and len(node.args) > pos:
        ax = node.args[pos]
    if ax is None:
        return None
    v = ev.eval(state, ax)
    if v.meta and v.meta[0] == 'const':
        return v.meta[1]
    raise Unsupported("symbolic axis")


_OVERRIDES = {}


def _override(name):
    """handler for a numpy function, active in the election area only (installed by install())"""
    def deco(f):
        _OVERRIDES[name] = f
        return f
    return deco


def _install_override(name, f):
    old = NP.QUALIFIED.get(name)
    if getattr(old, '_election', False):
        return

    def h(ev, state, node):
        if _mine(ev):
            r = f(ev, state, node)
            if r is not None:
                return r
        if old is None:
            raise Unsupported(f"{name} (not modelled)")
        return old(ev, state, node)
    h._election = True
    NP.QUALIFIED[name] = h


def _named(state, v, hint):
    """a constant equal to v (so that patterns mention a constant, not an if-then-else term)"""
    if z3.is_const(v.term):
        return v
    c = fresh(v.ty, hint)
    state.assume(c.term == v.term)
    return c


def argsort_rows(ev, state, m):
    m = _named(state, m, 'sorted_matrix')
    n0, n1 = m_n0(m), m_n1(m)
    r = fresh(T.TArr2(T.INT), 'argsort2')
    inv = z3.Function(fresh_name('argsort2_inv'), z3.IntSort(), z3.IntSort(), z3.IntSort())
    i, c, c2 = z3.Int(fresh_name('i')), z3.Int(fresh_name('c')), z3.Int(fresh_name('c2'))
    state.assume(
        m_n0(r) == n0, m_n1(r) == n1,
        z3.ForAll([i, c], z3.Implies(z3.And(_in(i, n0), _in(c, n1)),
                                     z3.And(_in(m_at(r, i, c), n1), inv(i, m_at(r, i, c)) == c))),
        # (every column has a rank; triggered by the rank or by the cell of the sorted matrix)
        z3.ForAll([i, c], z3.Implies(z3.And(_in(i, n0), _in(c, n1)),
                                     z3.And(_in(inv(i, c), n1), m_at(r, i, inv(i, c)) == c)),
                  patterns=[inv(i, c), m_at(m, i, c)]),
        z3.ForAll([i, c, c2], z3.Implies(z3.And(_in(i, n0), 0 <= c, c < c2, c2 < n1),
                                         m_at(m, i, m_at(r, i, c)) <= m_at(m, i, m_at(r, i, c2)))))
    return r


@_override('numpy.argsort')
def np_argsort2(ev, state, node):
    if _axis(ev, state, node) is None:
        return None
    m = ev.eval(state, node.args[0])
    if m.ty[0] != 'arr2' or m.ty[1] not in (T.INT, T.REAL):
        return None
    if _axis(ev, state, node) != 1:
        raise Unsupported("argsort axis")
    return argsort_rows(ev, state, m)


@_override('numpy.argmax')
def np_argmax(ev, state, node):
    m = ev.eval(state, node.args[0])
    ax = _axis(ev, state, node)
    if m.ty[0] != 'arr2' or m.ty[1] not in (T.INT, T.REAL) or ax != 0:
        raise Unsupported("np.argmax form")
    n0, n1 = m_n0(m), m_n1(m)
    ev.ctx.oblige(state, n0 > 0, 'ValueError', node, 'argmax over a non-empty axis')
    r = fresh(T.TArr(T.INT), 'argmax0')
    q_, r_ = z3.Int(fresh_name('q')), z3.Int(fresh_name('r'))
    state.assume(seq_len(r) == n1,
                 z3.ForAll([q_], z3.Implies(_in(q_, n1), _in(seq_at(r, q_), n0))),
                 z3.ForAll([q_, r_], z3.Implies(z3.And(_in(q_, n1), _in(r_, n0)),
                                               m_at(m, seq_at(r, q_), q_) >= m_at(m, r_, q_))))
    return r


def _once(ctx, key):
    key = '_election_ax_' + key
    if getattr(ctx, key, False):
        return False
    setattr(ctx, key, True)
    return True


def colsel_of(ev, base, idx):
    """M[:, idx] as an application of a global function; its defining axioms are stated once,
    for all arguments (the in-range obligation on idx is the caller's)"""
    ety = base.ty[1]
    ity = T.TArr(T.INT)
    r = canon(T.TArr2(ety), 'colsel_' + ety[0], base.term, idx.term)
    if _once(ev.ctx, 'colsel_' + ety[0]):
        f = r.term.decl()
        Mv = z3.Const('csM_' + ety[0], T.sort_of(base.ty))
        Iv = z3.Const('csI_' + ety[0], T.sort_of(ity))
        i, c = z3.Int('csi_' + ety[0]), z3.Int('csc_' + ety[0])
        mv, iv = SymVal(base.ty, Mv), SymVal(ity, Iv)
        rv = SymVal(base.ty, f(Mv, Iv))
        ev.ctx.axioms.append(z3.ForAll([Mv, Iv], z3.Implies(z3.And(m_n0(mv) >= 0, seq_len(iv) >= 0),
                                                            z3.And(m_n0(rv) == m_n0(mv), m_n1(rv) == seq_len(iv))),
                                       patterns=[f(Mv, Iv)]))
        ev.ctx.axioms.append(z3.ForAll(
            [Mv, Iv, i, c], z3.Implies(z3.And(_in(i, m_n0(mv)), _in(c, seq_len(iv))),
                                       m_at(rv, i, c) == m_at(mv, i, seq_at(iv, c))),
            patterns=[m_at(rv, i, c), z3.MultiPattern(f(Mv, Iv), m_at(mv, i, seq_at(iv, c)))]))
    return r


def positions_of(ev, arr, t):
    """strictly increasing array of the positions k with arr[k] == t, as a function of (arr, t);
    defining axioms stated once for all arguments"""
    kt = arr.ty[1]
    aty, ity = T.TArr(kt), T.TArr(T.INT)
    r = canon(ity, 'positions_' + kt[0], arr.term, t.term)
    dst = canon(ity, 'positions_inv_' + kt[0], arr.term, t.term)     # position -> rank
    if _once(ev.ctx, 'positions_' + kt[0]):
        f, g = r.term.decl(), dst.term.decl()
        Av = z3.Const('psA_' + kt[0], T.sort_of(aty))
        tv = z3.Const('pst_' + kt[0], T.sort_of(kt))
        j, j2, i = z3.Int('psj_' + kt[0]), z3.Int('psj2_' + kt[0]), z3.Int('psi_' + kt[0])
        av = SymVal(aty, Av)
        rv, dv = SymVal(ity, f(Av, tv)), SymVal(ity, g(Av, tv))
        n, m = seq_len(av), seq_len(rv)
        ax = ev.ctx.axioms
        # (stated for well-formed arrays only: a datatype value with a negative length field is
        # not an array, and an unguarded `0 <= m <= n` would be contradictory for it)
        ax.append(z3.ForAll([Av, tv], z3.Implies(n >= 0, z3.And(0 <= m, m <= n)), patterns=[f(Av, tv)]))
        ax.append(z3.ForAll([Av, tv, j], z3.Implies(
            _in(j, m), z3.And(_in(seq_at(rv, j), n), seq_at(av, seq_at(rv, j)) == tv, seq_at(dv, seq_at(rv, j)) == j)),
            patterns=[seq_at(rv, j)]))
        ax.append(z3.ForAll([Av, tv, j, j2], z3.Implies(z3.And(0 <= j, j < j2, j2 < m), seq_at(rv, j) < seq_at(rv, j2)),
                            patterns=[z3.MultiPattern(seq_at(rv, j), seq_at(rv, j2))]))
        ax.append(z3.ForAll([Av, tv, i], z3.Implies(
            z3.And(_in(i, n), seq_at(av, i) == tv), z3.And(_in(seq_at(dv, i), m), seq_at(rv, seq_at(dv, i)) == i)),
            patterns=[z3.MultiPattern(f(Av, tv), seq_at(av, i)), seq_at(dv, i)]))
    return r


def _positions_native(arr, t):
    import numpy as np
    return np.where(np.asarray(arr) == t)[0]


@P.spec_function('positions', native=_positions_native)
def s_positions(ev, state, node):
    arr, t = [ev.eval(state, a) for a in node.args]
    if not _is_seq(arr) or arr.ty[1] not in (T.INT, T.NAME):
        raise Unsupported("positions operands")
    return positions_of(ev, arr, coerce(t, arr.ty[1]))


@_override('numpy.where')
def np_where3(ev, state, node):
    if len(node.args) == 1 and isinstance(node.args[0], ast.Compare) and len(node.args[0].ops) == 1 \
            and isinstance(node.args[0].ops[0], ast.Eq):
        # np.where(arr == t) : canonical (a function of arr and t)
        a = ev.eval(state, node.args[0].left)
        b = ev.eval(state, node.args[0].comparators[0])
        if _is_seq(a) and a.ty[1] in (T.INT, T.NAME) and b.ty in (T.INT, T.NAME):
            r = positions_of(ev, a, coerce(b, a.ty[1]))
            ty = T.TTuple([r.ty])
            return SymVal(ty, T.ctor(ty)(r.term))
        return None
    if len(node.args) != 3:
        return None
    c = ev.eval(state, node.args[0])
    if c.ty != T.TArr2(T.BOOL):
        return None
    a, b = ev.eval(state, node.args[1]), ev.eval(state, node.args[2])
    n0, n1 = m_n0(c), m_n1(c)
    ety = None
    for v in (a, b):
        if v.ty[0] == 'arr2':
            ev.ctx.oblige(state, z3.And(m_n0(v) == n0, m_n1(v) == n1), 'ValueError', node, 'same shape')
            t = v.ty[1]
        elif v.ty in (T.INT, T.REAL):
            t = v.ty
        else:
            raise Unsupported("np.where branches")
        ety = t if ety is None else join_types(ety, t)

    def el(v, i, j):
        e = SymVal(v.ty[1], m_at(v, i, j)) if v.ty[0] == 'arr2' else v
        return coerce(e, ety).term
    return _pw2(state, n0, n1, ety, lambda i, j: z3.If(m_at(c, i, j), el(a, i, j), el(b, i, j)), 'where3_2d')


@_override('numpy.array')
def np_array2(ev, state, node):
    v = ev.eval(state, node.args[0])
    if not (v.ty[0] == 'list' and v.ty[1][0] == 'list' and v.ty[1][1] in (T.INT, T.REAL)):
        if v.ty[0] == 'arr2':
            return SymVal(v.ty, v.term)
        return None
    n = seq_len(v)
    inner = lambda i: SymVal(v.ty[1], seq_at(v, i))
    i = z3.Int(fresh_name('ai'))
    # an empty outer list gives a 1-D array of shape (0,), rows of different lengths are an error
    ev.ctx.oblige(state, n > 0, 'ValueError', node,
                  'np.array of a list of lists: at least one row (an empty list gives a 1-D array)')
    w = seq_len(inner(z3.IntVal(0)))
    ev.ctx.oblige(state, z3.ForAll([i], z3.Implies(_in(i, n), seq_len(inner(i)) == w)), 'ValueError', node,
                  'np.array of a list of lists: rows have equal length')
    return _pw2(state, n, w, v.ty[1][1], lambda x, y: seq_at(inner(x), y), 'array2')


@_override('numpy.sum')
def np_sum2(ev, state, node):
    m = ev.eval(state, node.args[0])
    if m.ty[0] != 'arr2':
        return None
    return _sum_axis(ev, state, node, m, _axis(ev, state, node))


def _sum_axis(ev, state, node, m, ax):
    if m.ty[1] not in (T.INT, T.REAL):
        raise Unsupported("sum of a non-numeric matrix")
    if ax != 1:
        raise Unsupported("M.sum(axis) with axis != 1")
    return _pw1(state, m_n0(m), m.ty[1], lambda i: rowsum_term(ev, m, i), 'rowsums')


# ---------------------------------------------------------------------------------------------
# hooks of the core array model
# ---------------------------------------------------------------------------------------------
def _wrap(mod, name, new):
    old = getattr(mod, name)

    def wrapped(*a, **k):
        return new(old, *a, **k)
    wrapped.__name__ = name
    wrapped._election = True
    setattr(mod, name, wrapped)


def _method(orig, ev, state, node, recv, ref, name):
    if _mine(ev) and recv.ty[0] == 'arr2':
        if name == 'sum' and (node.args or node.keywords):
            return _sum_axis(ev, state, node, recv, _axis(ev, state, node, pos=0))
        if name == 'transpose' and not node.args:
            return _pw2(state, m_n1(recv), m_n0(recv), recv.ty[1], lambda i, j: m_at(recv, j, i), 'transpose')
    return orig(ev, state, node, recv, ref, name)


def _elem2(v, i, j, ety):
    e = SymVal(v.ty[1], m_at(v, i, j)) if v.ty[0] == 'arr2' else v
    return coerce(e, ety).term


def _arr_binop(orig, ev, state, op, a, b, node):
    if _mine(ev) and a.ty[0] == 'arr2' and b.ty[0] == 'arr' and b.ty[1] in (T.INT, T.REAL) \
            and a.ty[1] in (T.INT, T.REAL) and isinstance(op, (ast.Div, ast.Sub)):
        # (n0, n1) op (n1,) : numpy broadcasts the vector along the last axis
        n0, n1 = m_n0(a), m_n1(a)
        ev.ctx.oblige(state, seq_len(b) == n1, 'ValueError', node,
                      'the vector has the length of the last axis (broadcasting)')
        if isinstance(op, ast.Div):
            j = z3.Int(fresh_name('dj'))
            ev.ctx.oblige(state, z3.ForAll([j], z3.Implies(_in(j, n1), to_real(SymVal(b.ty[1], seq_at(b, j))) != 0)),
                          'ZeroDivisionError', node, 'every divisor is non-zero (A-REAL)')
            return _pw2(state, n0, n1, T.REAL,
                        lambda i, j_: _elem2(a, i, j_, T.REAL) / to_real(SymVal(b.ty[1], seq_at(b, j_))), 'bdiv')
        ety = join_types(a.ty[1], b.ty[1])
        return _pw2(state, n0, n1, ety,
                    lambda i, j_: _elem2(a, i, j_, ety) - coerce(SymVal(b.ty[1], seq_at(b, j_)), ety).term, 'bsub')
    if _mine(ev) and (a.ty[0] == 'arr2' or b.ty[0] == 'arr2'):
        ms = [v for v in (a, b) if v.ty[0] == 'arr2']
        for v in (a, b):
            if v.ty[0] != 'arr2' and v.ty not in (T.INT, T.REAL, T.BOOL):
                raise Unsupported("2-D arithmetic with a 1-D operand (broadcasting not modelled)")
        n0, n1 = m_n0(ms[0]), m_n1(ms[0])
        if len(ms) == 2:
            ev.ctx.oblige(state, z3.And(m_n0(a) == m_n0(b), m_n1(a) == m_n1(b)), 'ValueError', node,
                          '2-D operands have the same shape')
        ety = None
        for v in (a, b):
            t = v.ty[1] if v.ty[0] == 'arr2' else v.ty
            ety = t if ety is None else join_types(ety, t)
        if ety == T.BOOL:
            ety = T.INT
        if ety not in (T.INT, T.REAL):
            raise Unsupported("2-D arithmetic element type")
        if isinstance(op, ast.Div):
            ety = T.REAL
            i, j = z3.Int(fresh_name('di')), z3.Int(fresh_name('dj'))
            # numpy does not raise on x/0 (inf / nan + warning); the real-valued model has no
            # such values, so a non-zero divisor is demanded everywhere (stricter than numpy)
            ev.ctx.oblige(state, z3.ForAll([i, j], z3.Implies(z3.And(_in(i, n0), _in(j, n1)),
                                                              _elem2(b, i, j, T.REAL) != 0)),
                          'ZeroDivisionError', node, 'every divisor is non-zero (A-REAL)')
        elif not isinstance(op, (ast.Add, ast.Sub, ast.Mult)):
            raise Unsupported("2-D arithmetic operator")
        r = _pw2(state, n0, n1, ety,
                 lambda i, j: NP.elem_arith(op, _elem2(a, i, j, ety), _elem2(b, i, j, ety), ety == T.REAL),
                 'arr2op')
        if isinstance(op, ast.Div) and a.ty[0] == 'arr2' and b.ty[0] != 'arr2':
            # consequences of real division by one positive scalar (lemmas checked by
            # _prove_div_lemmas): order and sign are preserved, x <= d gives x / d <= 1
            d = to_real(b)
            i, j, i2, j2 = [z3.Int(fresh_name(x)) for x in ('di', 'dj', 'di2', 'dj2')]
            x, y = _elem2(a, i, j, T.REAL), _elem2(a, i2, j2, T.REAL)
            state.assume(
                z3.Implies(d > 0, z3.ForAll(
                    [i, j, i2, j2], z3.Implies(z3.And(_in(i, n0), _in(j, n1), _in(i2, n0), _in(j2, n1), x <= y),
                                               m_at(r, i, j) <= m_at(r, i2, j2)),
                    patterns=[z3.MultiPattern(m_at(r, i, j), m_at(r, i2, j2))])),
                z3.Implies(d > 0, z3.ForAll(
                    [i, j], z3.Implies(z3.And(_in(i, n0), _in(j, n1)),
                                       z3.And((m_at(r, i, j) > 0) == (x > 0), (m_at(r, i, j) >= 0) == (x >= 0),
                                              z3.Implies(x <= d, m_at(r, i, j) <= 1), m_at(r, i, j) * d == x)),
                    patterns=[m_at(r, i, j)])))
        return r
    return orig(ev, state, op, a, b, node)


def _arr_compare(orig, ev, state, op, a, b, node):
    if _mine(ev) and (a.ty[0] == 'arr2' or b.ty[0] == 'arr2'):
        ms = [v for v in (a, b) if v.ty[0] == 'arr2']
        for v in (a, b):
            if v.ty[0] != 'arr2' and v.ty not in (T.INT, T.REAL, T.BOOL):
                raise Unsupported("2-D comparison with a 1-D operand")
        n0, n1 = m_n0(ms[0]), m_n1(ms[0])
        if len(ms) == 2:
            ev.ctx.oblige(state, z3.And(m_n0(a) == m_n0(b), m_n1(a) == m_n1(b)), 'ValueError', node,
                          '2-D operands have the same shape')
        i, j = z3.Int(fresh_name('ci')), z3.Int(fresh_name('cj'))

        def el(v):
            return SymVal(v.ty[1], m_at(v, i, j)) if v.ty[0] == 'arr2' else v
        c = ev.compare(state, op, el(a), el(b), node)
        r = fresh(T.TArr2(T.BOOL), 'cmp2')
        state.assume(m_n0(r) == n0, m_n1(r) == n1,
                     z3.ForAll([i, j], z3.Implies(z3.And(_in(i, n0), _in(j, n1)), m_at(r, i, j) == c)))
        return r
    return orig(ev, state, op, a, b, node)


def _is_reverse_slice(sl):
    def c(x, val):
        return isinstance(x, ast.UnaryOp) and isinstance(x.op, ast.USub) and \
            isinstance(x.operand, ast.Constant) and x.operand.value == val
    return isinstance(sl, ast.Slice) and c(sl.lower, 1) and sl.upper is None and c(sl.step, 1)


def _arr2_subscript(orig, ev, state, base, node):
    if not _mine(ev):
        return orig(ev, state, base, node)
    sl = node.slice
    n0, n1 = m_n0(base), m_n1(base)
    ety = base.ty[1]
    if isinstance(sl, ast.Tuple) and len(sl.elts) == 2:
        a, b = sl.elts
        if NP._is_full_slice(a):
            if _is_reverse_slice(b):
                # M[:, -1::-1] : columns in reverse order
                r = _pw2(state, n0, n1, ety, lambda i, c: m_at(base, i, n1 - 1 - c), 'colrev')
                i_, c_ = z3.Int(fresh_name('pi')), z3.Int(fresh_name('pj'))
                # (the same fact read from the side of the original matrix)
                state.assume(z3.ForAll([i_, c_], z3.Implies(z3.And(_in(i_, n0), _in(c_, n1)),
                                                            m_at(base, i_, c_) == m_at(r, i_, n1 - 1 - c_)),
                                       patterns=[m_at(base, i_, c_)]))
                return r
            if isinstance(b, ast.Slice):
                lo, hi = ev.slice_bounds(state, n1, b)
                ln = z3.If(hi > lo, hi - lo, 0)
                r = _pw2(state, n0, ln, ety, lambda i, c: m_at(base, i, lo + c), 'colblock')
                if z3.is_int_value(lo) and lo.as_long() == 0:
                    i_, c_ = z3.Int(fresh_name('pi')), z3.Int(fresh_name('pj'))
                    state.assume(z3.ForAll([i_, c_], z3.Implies(z3.And(_in(i_, n0), _in(c_, ln)),
                                                                m_at(base, i_, c_) == m_at(r, i_, c_)),
                                           patterns=[m_at(base, i_, c_)]))
                return r
            bv = ev.eval(state, b)
            if bv.ty == T.INT:
                j = to_int(bv)
                ev.ctx.oblige(state, _in(j, n1), 'IndexError', node,
                              'column index in range (negative indices not modelled)')
                return _pw1(state, n0, ety, lambda i: m_at(base, i, j), 'col')
            if _is_iseq(bv):
                m = seq_len(bv)
                k = z3.Int(fresh_name('k'))
                ev.ctx.oblige(state, z3.ForAll([k], z3.Implies(_in(k, m), _in(seq_at(bv, k), n1))),
                              'IndexError', node, 'column indices in range')
                # M[:, idx] is a function of (M, idx): canonical term, so that the same
                # selection written twice (code / specification) is the same value
                return colsel_of(ev, base, bv)
        elif not isinstance(a, ast.Slice) and not isinstance(b, ast.Slice):
            av, bv = ev.eval(state, a), ev.eval(state, b)
            if _is_iseq(av) and _is_iseq(bv):
                m = seq_len(av)
                k = z3.Int(fresh_name('k'))
                ev.ctx.oblige(state, seq_len(bv) == m, 'IndexError', node,
                              'paired index arrays have the same length (broadcasting not modelled)')
                ev.ctx.oblige(state, z3.ForAll([k], z3.Implies(_in(k, m), z3.And(_in(seq_at(av, k), n0),
                                                                                 _in(seq_at(bv, k), n1)))),
                              'IndexError', node, 'paired indices in range')
                return _pw1(state, m, ety, lambda k_: m_at(base, seq_at(av, k_), seq_at(bv, k_)), 'pairs')
            if av.ty == T.TArr2(T.INT) and bv.ty == T.TArr2(T.INT):
                s0, s1 = m_n0(av), m_n1(av)
                x, y = z3.Int(fresh_name('x')), z3.Int(fresh_name('y'))
                ev.ctx.oblige(state, z3.And(m_n0(bv) == s0, m_n1(bv) == s1), 'IndexError', node,
                              'paired 2-D index arrays have the same shape (broadcasting not modelled)')
                ev.ctx.oblige(state, z3.ForAll([x, y], z3.Implies(
                    z3.And(_in(x, s0), _in(y, s1)),
                    z3.And(_in(m_at(av, x, y), n0), _in(m_at(bv, x, y), n1)))),
                    'IndexError', node, 'paired 2-D indices in range')
                return _pw2(state, s0, s1, ety, lambda i, c: m_at(base, m_at(av, i, c), m_at(bv, i, c)), 'pairs2')
            if av.ty == T.INT and bv.ty == T.INT:
                return orig(ev, state, base, node)
    return orig(ev, state, base, node)


def _arr2_store(orig, ev, state, base, target, v, node):
    if not _mine(ev):
        return orig(ev, state, base, target, v, node)
    sl = target.slice
    n0, n1 = m_n0(base), m_n1(base)
    ety = base.ty[1]
    if isinstance(sl, ast.Tuple) and len(sl.elts) == 2:
        a, b = sl.elts
        if NP._is_full_slice(a) and not isinstance(b, ast.Slice):
            bv = ev.eval(state, b)
            if bv.ty == T.INT and _is_seq(v):
                # M[:, j] = column
                j = to_int(bv)
                ev.ctx.oblige(state, _in(j, n1), 'IndexError', node, 'column index in range')
                ev.ctx.oblige(state, seq_len(v) == n0, 'ValueError', node, 'column has the height of the matrix')
                vt = v.ty[1]
                if join_types(ety, vt) != ety:
                    raise Unsupported("column store would change the dtype")
                r = _pw2(state, n0, n1, ety,
                         lambda x, y: z3.If(y == j, coerce(SymVal(vt, seq_at(v, x)), ety).term, m_at(base, x, y)),
                         'colstore')
                if ety in (T.INT, T.REAL):
                    x = z3.Int(fresh_name('x'))
                    state.assume(z3.ForAll([x], _emit_update(state, ety, r, base, x, j, _in(x, n0)),
                                           patterns=[rs_fn(ety)(T.acc(r.ty, 'at')(r.term), x, n1)]))
                return r
        if not isinstance(a, ast.Slice) and not isinstance(b, ast.Slice):
            av, bv = ev.eval(state, a), ev.eval(state, b)
            if _is_iseq(av) and _is_iseq(bv):
                return _pair_store(ev, state, base, av, bv, v, node)
    return orig(ev, state, base, target, v, node)


def _pair_store(ev, state, base, av, bv, v, node):
    """M[rows, cols] = v  for paired 1-D index arrays: the last write to a cell wins"""
    n0, n1 = m_n0(base), m_n1(base)
    ety = base.ty[1]
    m = seq_len(av)
    k = z3.Int(fresh_name('k'))
    ev.ctx.oblige(state, seq_len(bv) == m, 'IndexError', node, 'paired index arrays have the same length')
    ev.ctx.oblige(state, z3.ForAll([k], z3.Implies(_in(k, m), z3.And(_in(seq_at(av, k), n0), _in(seq_at(bv, k), n1)))),
                  'IndexError', node, 'paired indices in range')
    if _is_seq(v):
        ev.ctx.oblige(state, seq_len(v) == m, 'ValueError', node, 'one value per index pair')
        if join_types(ety, v.ty[1]) != ety:
            raise Unsupported("paired store would change the dtype")
        val = lambda kk: coerce(SymVal(v.ty[1], seq_at(v, kk)), ety).term
    else:
        if join_types(ety, v.ty) != ety:
            raise Unsupported("paired store would change the dtype")
        sv = coerce(v, ety).term
        val = lambda kk: sv
    r = fresh(base.ty, 'pstore')
    w = z3.Function(fresh_name('lastw'), z3.IntSort(), z3.IntSort(), z3.IntSort())   # cell -> last writer or -1
    x, y = z3.Int(fresh_name('x')), z3.Int(fresh_name('y'))
    state.assume(
        m_n0(r) == n0, m_n1(r) == n1,
        z3.ForAll([x, y], z3.And(-1 <= w(x, y), w(x, y) < m,
                                 z3.Implies(w(x, y) >= 0, z3.And(seq_at(av, w(x, y)) == x,
                                                                 seq_at(bv, w(x, y)) == y))),
                  patterns=[w(x, y)]),
        z3.ForAll([k], z3.Implies(_in(k, m), w(seq_at(av, k), seq_at(bv, k)) >= k)),
        z3.ForAll([x, y], z3.Implies(z3.And(_in(x, n0), _in(y, n1)),
                                     m_at(r, x, y) == z3.If(w(x, y) >= 0, val(w(x, y)), m_at(base, x, y))),
                  patterns=[m_at(r, x, y)]))
    if ety in (T.INT, T.REAL):
        # consequences for the row sums: instances of lemma U (row x, column c = the column
        # paired with some occurrence of x among the row indices) and of lemma E (rows that are
        # not indexed).  Both instances are valid whatever c is; their hypotheses ("the row is
        # unchanged elsewhere") are left to the prover.
        rsn = rs_fn(ety)
        _rs_axioms(ev.ctx, ety)
        inv = z3.Function(fresh_name('row_occ'), z3.IntSort(), z3.IntSort())    # row -> some k with av[k] == row
        state.assume(z3.ForAll([k], z3.Implies(_in(k, m), z3.And(_in(inv(seq_at(av, k)), m),
                                                                 seq_at(av, inv(seq_at(av, k))) == seq_at(av, k))),
                               patterns=[seq_at(av, k)]))
        pat = [rsn(T.acc(r.ty, 'at')(r.term), x, n1)]
        state.assume(z3.ForAll([x], z3.And(
            _touch(seq_at(av, x)),
            _emit_update(state, ety, r, base, x, seq_at(bv, inv(x)), _in(x, n0)),
            _emit_equal(state, ety, r, x, base, x, _in(x, n0))), patterns=pat))
    return r


_TOUCH = z3.Function('touch', z3.IntSort(), z3.BoolSort())


def _touch(t):
    """instantiation hint: mentions the term t; `touch` is unconstrained (True is a model)"""
    return _TOUCH(t)


def _arith(orig):
    def arith(self, state, op, a, b, node):
        if isinstance(op, ast.Mult) and a.ty[0] == 'list' and b.ty == T.INT and _mine(self) \
                and a.meta != ('empty',):
            # xs * k : k copies of xs one after the other
            la, k = seq_len(a), to_int(b)
            r = fresh(a.ty, 'rep')
            j = z3.Int(fresh_name('rj'))
            cnt = z3.If(k > 0, k, 0)
            la_c = z3.simplify(la)
            if z3.is_int_value(la_c) and la_c.as_long() == 1:
                state.assume(seq_len(r) == cnt,
                             z3.ForAll([j], z3.Implies(_in(j, cnt), seq_at(r, j) == seq_at(a, 0))), *wf(r))
            else:
                state.assume(seq_len(r) == cnt * la,
                             z3.ForAll([j], z3.Implies(_in(j, cnt * la), seq_at(r, j) == seq_at(a, j % la))), *wf(r))
            return r
        return orig(self, state, op, a, b, node)
    return arith


def _prove_div_lemmas():
    x, y, d = z3.Reals('lem_x lem_y lem_d')
    for goal in (z3.Implies(z3.And(d > 0, x <= y), x / d <= y / d),
                 z3.Implies(d > 0, z3.And((x / d > 0) == (x > 0), (x / d >= 0) == (x >= 0))),
                 z3.Implies(z3.And(d > 0, x <= d), x / d <= 1), z3.Implies(d > 0, (x / d) * d == x)):
        s_ = z3.Solver()
        s_.set('timeout', 20000)
        s_.add(z3.Not(goal))
        if s_.check() != z3.unsat:
            raise RuntimeError("pyvc.ext.election: division lemma not proved")


_prove_div_lemmas()


def install():
    """wrap the core hooks (idempotent; called again when the contracts are loaded so that
    these wrappers end up outermost - they decline everything outside the election area)"""
    for name, new in (('method', _method), ('arr_binop', _arr_binop), ('arr_compare', _arr_compare),
                      ('arr2_subscript', _arr2_subscript), ('arr2_store', _arr2_store)):
        if getattr(getattr(NP, name), '_election', False):
            continue
        _wrap(NP, name, new)
    for name, f in _OVERRIDES.items():
        _install_override(name, f)
    if not getattr(SX.Evaluator.arith, '_election', False):
        f = _arith(SX.Evaluator.arith)
        f._election = True
        SX.Evaluator.arith = f


install()


# ---------------------------------------------------------------------------------------------
# specification functions of the numerical layer (uninterpreted in proofs, recomputed natively)
# ---------------------------------------------------------------------------------------------
def _pcorr_native(b, r, q_arr, q):
    import numpy as np
    x = np.asarray(b, dtype=float)[r, :]
    y = np.asarray(q_arr, dtype=float)[q, :]
    dx, dy = x - x.mean(), y - y.mean()
    nx, ny = np.sqrt((dx * dx).sum()), np.sqrt((dy * dy).sum())
    if nx == 0.0 or ny == 0.0:
        return 0.0
    return float((dx * dy).sum() / (nx * ny))


_PCORR = {}


@P.spec_function('pcorr', native=_pcorr_native)
def s_pcorr(ev, state, node):
    """Pearson correlation of row r of B with row q of Q; 0 when a row is constant"""
    b, r, qa, q_ = [ev.eval(state, a) for a in node.args]
    if b.ty != T.TArr2(T.REAL) or qa.ty != T.TArr2(T.REAL):
        raise Unsupported("pcorr operands")
    if 'f' not in _PCORR:
        s = T.sort_of(b.ty)
        _PCORR['f'] = z3.Function('pcorr', s, z3.IntSort(), s, z3.IntSort(), z3.RealSort())
    return SymVal(T.REAL, _PCORR['f'](b.term, to_int(r), qa.term, to_int(q_)))


def _znorm_native(data, i, g):
    import numpy as np
    x = np.asarray(data, dtype=float)[i, :]
    d = x - x.mean()
    nrm = np.sqrt((d * d).sum())
    return float(d[g] / (nrm if nrm != 0.0 else 1.0))


@P.spec_function('znorm', native=_znorm_native)
def s_znorm(ev, state, node):
    d, i, g = [ev.eval(state, a) for a in node.args]
    if 'z' not in _PCORR:
        _PCORR['z'] = z3.Function('znorm', T.sort_of(d.ty), z3.IntSort(), z3.IntSort(), z3.RealSort())
    return SymVal(T.REAL, _PCORR['z'](d.term, to_int(i), to_int(g)))


@P.spec_function('close', native=lambda a, b: abs(float(a) - float(b)) <= 1e-9 * (1.0 + abs(float(b))))
def s_close(ev, state, node):
    """equality up to float rounding: exact equality in the real-valued model (A-REAL)"""
    a, b = [ev.eval(state, x) for x in node.args]
    return SymVal(T.BOOL, to_real(a) == to_real(b))


@P.spec_function('tol', native=lambda: 1e-9)
def s_tol(ev, state, node):
    """float rounding slack of native comparisons; zero in the real-valued model (A-REAL)"""
    return SymVal(T.REAL, z3.RealVal(0))


def _n_markers_for_native(path, parent):
    import json
    import h5py
    with h5py.File(path, 'r') as f:
        return len(f['None' if parent is None else f"{parent[0]}/{parent[1]}"]['reference'][()])


_NMK = {}


@P.spec_function('n_markers_for', native=_n_markers_for_native)
def s_n_markers_for(ev, state, node):
    """number of marker pairs the marker cache stores for a parent node (uninterpreted)"""
    path, parent = [ev.eval(state, a) for a in node.args]
    key = (T.sort_of(path.ty).name(), T.sort_of(parent.ty).name())
    if key not in _NMK:
        _NMK[key] = z3.Function('n_markers_for_' + '_'.join(key).replace(' ', ''), T.sort_of(path.ty),
                                T.sort_of(parent.ty), z3.IntSort())
    return SymVal(T.INT, _NMK[key](path.term, parent.term))


# ---------------------------------------------------------------------------------------------
# sums over a selection of columns (aggregate_votes: row sums are preserved)
#
# cols_equal(M, types, x)[i, j] = M[i, j] if types[j] == x else 0
# cols_below(M, types, x)[i, j] = M[i, j] if types[j] <  x else 0
#
# Lemmas, proved by induction by z3 when the module is loaded (_prove_selection_lemmas):
#   R  a range of zero entries does not change the fold
#   W  the fold over the selected columns M[:, positions(types, x)] equals the fold over
#      cols_equal(M, types, x)   (S = positions, strictly increasing and complete)
#   A  the fold is additive:  C = A + B pointwise  =>  rs(C) = rs(A) + rs(B)
# Their instances for the canonical terms are added as axioms (_selection_axioms).
# ---------------------------------------------------------------------------------------------
def _prove_selection_lemmas():
    for ety in (T.INT, T.REAL):
        es = _esort(ety)
        zero = z3.IntVal(0) if ety == T.INT else z3.RealVal(0)
        asort = z3.ArraySort(z3.IntSort(), z3.IntSort(), es)
        rs = rs_fn(ety)
        A, B, C, E = [z3.Const('sel_' + x, asort) for x in 'ABCE']
        S, D = z3.Array('sel_S', z3.IntSort(), z3.IntSort()), z3.Array('sel_D', z3.IntSort(), z3.IntSort())
        K = z3.Array('sel_K', z3.IntSort(), z3.BoolSort())
        i, i2, i3, m, n, k, p, q, j, c, c2 = z3.Ints('sel_i sel_i2 sel_i3 sel_m sel_n sel_k sel_p sel_q sel_j sel_c sel_c2')

        def R(p_, q_):
            return z3.Implies(z3.And(0 <= p_, p_ <= q_,
                                     z3.ForAll([j], z3.Implies(z3.And(p_ <= j, j < q_), E[i3, j] == zero))),
                              rs(E, i3, q_) == rs(E, i3, p_))
        H = [m >= 0, n >= 0,
             z3.ForAll([c], z3.Implies(_in(c, m), z3.And(_in(S[c], n), K[S[c]], D[S[c]] == c))),
             z3.ForAll([c, c2], z3.Implies(z3.And(0 <= c, c < c2, c2 < m), S[c] < S[c2])),
             z3.ForAll([j], z3.Implies(z3.And(_in(j, n), K[j]), z3.And(_in(D[j], m), S[D[j]] == j))),
             z3.ForAll([c], z3.Implies(_in(c, m), B[i2, c] == A[i, S[c]])),
             z3.ForAll([j], z3.Implies(_in(j, n), E[i3, j] == z3.If(K[j], A[i, j], zero)))]

        def b(k_):
            return z3.If(k_ < m, S[k_], n)

        def Q(k_):
            return z3.Implies(z3.And(0 <= k_, k_ <= m), rs(B, i2, k_) == rs(E, i3, b(k_)))

        def Ad(n_):
            return z3.Implies(z3.ForAll([j], z3.Implies(_in(j, n_), C[i3, j] == A[i, j] + B[i2, j])),
                              rs(C, i3, n_) == rs(A, i, n_) + rs(B, i2, n_))
        checks = [
            ('R base', [p >= 0], R(p, p)),
            ('R step', [p >= 0, rs(E, i3, q + 1) == rs(E, i3, q) + E[i3, q]], z3.Implies(z3.And(q >= p, R(p, q)), R(p, q + 1))),
            # W uses instances of R (proved above) and the defining equations of the fold
            ('W base', H + [rs(B, i2, 0) == zero, rs(E, i3, 0) == zero, R(z3.IntVal(0), b(z3.IntVal(0)))], Q(z3.IntVal(0))),
            ('W step', H + [rs(B, i2, k + 1) == rs(B, i2, k) + B[i2, k],
                            rs(E, i3, S[k] + 1) == rs(E, i3, S[k]) + E[i3, S[k]], R(S[k] + 1, b(k + 1))],
             z3.Implies(z3.And(k >= 0, Q(k)), Q(k + 1))),
            ('A base', [rs(C, i3, 0) == zero, rs(A, i, 0) == zero, rs(B, i2, 0) == zero], Ad(z3.IntVal(0))),
            ('A step', [rs(X, r, n + 1) == rs(X, r, n) + X[r, n] for X, r in ((C, i3), (A, i), (B, i2))],
             z3.Implies(z3.And(n >= 0, Ad(n)), Ad(n + 1))),
        ]
        for name, hyps, goal in checks:
            s = z3.Solver()
            s.set('timeout', 30000)
            s.add(*hyps)
            s.add(z3.Not(goal))
            if s.check() != z3.unsat:
                raise RuntimeError(f"pyvc.ext.election: selection lemma {name} ({ety[0]}) not proved")


_prove_selection_lemmas()


def _masked_cols(ev, m, types, x, kind):
    """cols_equal / cols_below as canonical terms with their (global, guarded) axioms"""
    ety, kt = m.ty[1], types.ty[1]
    if m.ty[0] != 'arr2' or ety not in (T.INT, T.REAL) or not _is_seq(types) or kt not in (T.INT, T.NAME):
        raise Unsupported("cols_equal / cols_below operands")
    aty, ity = T.TArr(kt), T.TArr(T.INT)
    x = coerce(x, kt)
    r = canon(m.ty, f'cols_{kind}_{ety[0]}_{kt[0]}', m.term, types.term, x.term)
    # make sure the companion terms (and their axioms) exist
    ce = canon(m.ty, f'cols_equal_{ety[0]}_{kt[0]}', m.term, types.term, x.term)
    cb = canon(m.ty, f'cols_below_{ety[0]}_{kt[0]}', m.term, types.term, x.term)
    pos = positions_of(ev, SymVal(aty, types.term), x)
    sel = colsel_of(ev, m, pos)
    _rs_axioms(ev.ctx, ety)
    if _once(ev.ctx, f'masked_cols_{ety[0]}_{kt[0]}'):
        fe, fb, fp, fs = ce.term.decl(), cb.term.decl(), pos.term.decl(), sel.term.decl()
        rs = rs_fn(ety)
        zero = z3.IntVal(0) if ety == T.INT else z3.RealVal(0)
        Mv = z3.Const(f'mcM_{ety[0]}{kt[0]}', T.sort_of(m.ty))
        Tv = z3.Const(f'mcT_{ety[0]}{kt[0]}', T.sort_of(aty))
        xv, yv = z3.Const(f'mcx_{ety[0]}{kt[0]}', T.sort_of(kt)), z3.Const(f'mcy_{ety[0]}{kt[0]}', T.sort_of(kt))
        i, j = z3.Int(f'mci_{ety[0]}{kt[0]}'), z3.Int(f'mcj_{ety[0]}{kt[0]}')
        mv, tv = SymVal(m.ty, Mv), SymVal(aty, Tv)
        n0, n1 = m_n0(mv), m_n1(mv)
        wf_ = z3.And(n0 >= 0, n1 >= 0, seq_len(tv) == n1)
        ax = ev.ctx.axioms
        for f, cond in ((fe, lambda jj, v: seq_at(tv, jj) == v), (fb, lambda jj, v: seq_at(tv, jj) < v)):
            rv = SymVal(m.ty, f(Mv, Tv, xv))
            ax.append(z3.ForAll([Mv, Tv, xv], z3.Implies(wf_, z3.And(m_n0(rv) == n0, m_n1(rv) == n1)),
                                patterns=[f(Mv, Tv, xv)]))
            ax.append(z3.ForAll([Mv, Tv, xv, i, j], z3.Implies(
                z3.And(wf_, _in(i, n0), _in(j, n1)),
                m_at(rv, i, j) == z3.If(cond(j, xv), m_at(mv, i, j), zero)), patterns=[m_at(rv, i, j)]))
        at = lambda t: T.acc(m.ty, 'at')(t)
        ex, bx, by = fe(Mv, Tv, xv), fb(Mv, Tv, xv), fb(Mv, Tv, yv)
        px = fp(Tv, xv)
        sx = fs(Mv, px)
        # lemma W for S = positions(types, x), B = M[:, S], E = cols_equal(M, types, x)
        ax.append(z3.ForAll([Mv, Tv, xv, i], z3.Implies(
            z3.And(wf_, _in(i, n0)),
            rs(at(sx), i, T.acc(ity, 'len')(px)) == rs(at(ex), i, n1)),
            patterns=[rs(at(ex), i, n1), rs(at(sx), i, T.acc(ity, 'len')(px))]))
        # lemma A: cols_below(y) = cols_below(x) + cols_equal(x) pointwise  =>  same for the folds
        ax.append(z3.ForAll([Mv, Tv, xv, yv, i], z3.Implies(
            z3.And(wf_, _in(i, n0),
                   z3.ForAll([j], z3.Implies(_in(j, n1), at(by)[i, j] == at(bx)[i, j] + at(ex)[i, j]))),
            rs(at(by), i, n1) == rs(at(bx), i, n1) + rs(at(ex), i, n1)),
            patterns=[z3.MultiPattern(rs(at(by), i, n1), rs(at(bx), i, n1))]))
        # lemma A: M = cols_below(x) + cols_equal(x) pointwise  =>  same for the folds
        ax.append(z3.ForAll([Mv, Tv, xv, i], z3.Implies(
            z3.And(wf_, _in(i, n0),
                   z3.ForAll([j], z3.Implies(_in(j, n1), at(Mv)[i, j] == at(bx)[i, j] + at(ex)[i, j]))),
            rs(at(Mv), i, n1) == rs(at(bx), i, n1) + rs(at(ex), i, n1)),
            patterns=[z3.MultiPattern(rs(at(Mv), i, n1), rs(at(bx), i, n1))]))
    return r


def _cols_native(kind):
    def f(m, types, x):
        import numpy as np
        m = np.asarray(m)
        t = np.asarray(list(types), dtype=object)
        mask = np.array([(tt == x) if kind == 'equal' else (tt < x) for tt in t], dtype=bool)
        out = np.zeros_like(m)
        if m.shape[1]:
            out[:, mask] = m[:, mask]
        return out
    return f


@P.spec_function('cols_equal', native=_cols_native('equal'))
def s_cols_equal(ev, state, node):
    m, types, x = [ev.eval(state, a) for a in node.args]
    return _masked_cols(ev, m, types, x, 'equal')


@P.spec_function('cols_below', native=_cols_native('below'))
def s_cols_below(ev, state, node):
    m, types, x = [ev.eval(state, a) for a in node.args]
    return _masked_cols(ev, m, types, x, 'below')


@P.spec_function('whole', native=lambda x: abs(float(x) - round(float(x))) < 1e-9)
def s_whole(ev, state, node):
    """x is a whole number"""
    x = to_real(ev.eval(state, node.args[0]))
    return SymVal(T.BOOL, z3.IsInt(x))
