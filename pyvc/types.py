"""Type language of the sidecar contracts and its mapping to z3 sorts.

Types are hashable tuples:
  ('int',) ('real',) ('bool',) ('name',) ('none',) ('opaque',)
  ('opt', T) ('list', T) ('arr', T) ('arr2', T) ('dict', K, V) ('set', K)
  ('tuple', (T1, ..., Tn)) ('rec', 'RecordName')

Encoding choices (assumptions are listed in DESIGN.md 2.3):
  * int   -> Int (exact for Python ints; numpy ints under A-OVF)
  * real  -> Real (A-REAL)
  * name  -> Int (A-STR: a string that is only compared / ordered / hashed is an
             element of an abstract linear order; distinct literals are distinct
             constants ordered as CPython orders them)
  * list/arr -> datatype (len, at: Int -> T); only indices in [0,len) are meaningful
  * dict  -> datatype (dom: K -> Bool, val: K -> V, card)
  * set   -> datatype (has: K -> Bool, card)
"""
import re
import z3

INT = ('int',)
REAL = ('real',)
BOOL = ('bool',)
NAME = ('name',)
NONE = ('none',)
OPAQUE = ('opaque',)


def TOpt(t): return ('opt', t)
def TList(t): return ('list', t)
def TArr(t): return ('arr', t)
def TArr2(t): return ('arr2', t)
def TDict(k, v): return ('dict', k, v)
def TSet(k): return ('set', k)
def TTuple(ts): return ('tuple', tuple(ts))
def TRec(n): return ('rec', n)


RECORDS = {}      # name -> ordered dict field -> type
RECORD_META = {}  # name -> dict(rest=type or None, invariant=[...])


def record(_rec_name, _rest=None, _invariant=(), _aliases=None, **fields):
    """Declare a record (object / heterogeneous dict) type.  _aliases maps read-only property
    names to the field they return (e.g. normalization -> _normalization)."""
    flds = {}
    for k, v in fields.items():
        flds[k] = parse_type(v) if isinstance(v, str) else v
    if _rest is not None:
        flds['__rest__'] = parse_type(_rest) if isinstance(_rest, str) else _rest
    name = _rec_name
    if name in RECORDS and RECORDS[name] != flds:
        raise ValueError(f"record {name} redeclared differently")
    RECORDS[name] = flds
    RECORD_META[name] = dict(rest=_rest is not None, invariant=list(_invariant),
                             aliases=dict(_aliases or {}))
    return TRec(name)


_TOK = re.compile(r"\s*([A-Za-z_][A-Za-z_0-9]*|\[|\]|,)")


def parse_type(s):
    toks = _TOK.findall(s)
    if ''.join(toks) != re.sub(r"\s+", "", s):
        raise ValueError(f"bad type {s!r}")
    pos = [0]

    def peek():
        return toks[pos[0]] if pos[0] < len(toks) else None

    def eat(t=None):
        x = peek()
        if t is not None and x != t:
            raise ValueError(f"bad type {s!r}: expected {t} got {x}")
        pos[0] += 1
        return x

    def args():
        out = []
        eat('[')
        out.append(ty())
        while peek() == ',':
            eat(',')
            out.append(ty())
        eat(']')
        return out

    def ty():
        n = eat()
        base = {'Int': INT, 'Real': REAL, 'Bool': BOOL, 'Name': NAME, 'Str': NAME,
                'None': NONE, 'Opaque': OPAQUE}
        if n in base:
            return base[n]
        if n == 'Opt':
            a = args()
            return TOpt(a[0])
        if n == 'List':
            return TList(args()[0])
        if n == 'Arr':
            return TArr(args()[0])
        if n == 'Arr2':
            return TArr2(args()[0])
        if n == 'Set':
            return TSet(args()[0])
        if n == 'Dict':
            a = args()
            return TDict(a[0], a[1])
        if n == 'Tuple':
            return TTuple(args())
        if n in RECORDS:
            return TRec(n)
        raise ValueError(f"unknown type {n!r} in {s!r}")

    r = ty()
    if pos[0] != len(toks):
        raise ValueError(f"trailing tokens in type {s!r}")
    return r


def show(t):
    k = t[0]
    if k in ('int', 'real', 'bool', 'name', 'none', 'opaque'):
        return k.capitalize()
    if k == 'opt':
        return f"Opt[{show(t[1])}]"
    if k in ('list', 'arr', 'arr2', 'set'):
        return f"{k.capitalize()}[{show(t[1])}]"
    if k == 'dict':
        return f"Dict[{show(t[1])},{show(t[2])}]"
    if k == 'tuple':
        return "Tuple[" + ",".join(show(x) for x in t[1]) + "]"
    if k == 'rec':
        return t[1]
    return str(t)


def mangle(t):
    return re.sub(r"[^A-Za-z0-9]", "_", show(t))


_SORTS = {}
_DT = {}   # type -> datatype sort (for accessors)
OpaqueSort = z3.DeclareSort('Opaque')


def is_mutable(t):
    return t[0] in ('list', 'arr', 'arr2', 'dict', 'set', 'rec')


def canon(t):
    """representation type: names are ints, 1-D arrays are lists (same z3 sort)"""
    k = t[0]
    if k == 'name':
        return INT
    if k in ('int', 'real', 'bool', 'none', 'opaque', 'rec'):
        return t
    if k == 'arr':
        return ('list', canon(t[1]))
    if k in ('opt', 'list', 'arr2', 'set'):
        return (k, canon(t[1]))
    if k == 'dict':
        return ('dict', canon(t[1]), canon(t[2]))
    if k == 'tuple':
        return ('tuple', tuple(canon(x) for x in t[1]))
    return t


def sort_of(t):
    if t in _SORTS:
        return _SORTS[t]
    c = canon(t)
    if c != t:
        s = sort_of(c)
        _SORTS[t] = s
        return s
    k = t[0]
    if k in ('int', 'name'):
        s = z3.IntSort()
    elif k == 'real':
        s = z3.RealSort()
    elif k == 'bool':
        s = z3.BoolSort()
    elif k == 'none':
        d = z3.Datatype('NoneT')
        d.declare('none_v')
        s = d.create()
    elif k == 'opaque':
        s = OpaqueSort
    elif k in ('list', 'arr'):
        es = sort_of(t[1])
        d = z3.Datatype('Seq_' + mangle(t[1]))
        d.declare('mk', ('len', z3.IntSort()), ('at', z3.ArraySort(z3.IntSort(), es)))
        s = d.create()
        # list and arr of the same element share the sort
        _SORTS[('list', t[1])] = s
        _SORTS[('arr', t[1])] = s
    elif k == 'arr2':
        es = sort_of(t[1])
        d = z3.Datatype('Mat_' + mangle(t[1]))
        d.declare('mk', ('n0', z3.IntSort()), ('n1', z3.IntSort()),
                  ('at', z3.ArraySort(z3.IntSort(), z3.IntSort(), es)))
        s = d.create()
    elif k == 'dict':
        ks, vs = sort_of(t[1]), sort_of(t[2])
        d = z3.Datatype('Dict_' + mangle(t[1]) + '__' + mangle(t[2]))
        d.declare('mk', ('dom', z3.ArraySort(ks, z3.BoolSort())),
                  ('val', z3.ArraySort(ks, vs)), ('card', z3.IntSort()))
        s = d.create()
    elif k == 'set':
        ks = sort_of(t[1])
        d = z3.Datatype('Set_' + mangle(t[1]))
        d.declare('mk', ('has', z3.ArraySort(ks, z3.BoolSort())), ('card', z3.IntSort()))
        s = d.create()
    elif k == 'opt':
        vs = sort_of(t[1])
        d = z3.Datatype('Opt_' + mangle(t[1]))
        d.declare('none')
        d.declare('some', ('val', vs))
        s = d.create()
    elif k == 'tuple':
        d = z3.Datatype('Tup_' + mangle(t))
        d.declare('mk', *[(f'f{i}', sort_of(x)) for i, x in enumerate(t[1])])
        s = d.create()
    elif k == 'rec':
        flds = RECORDS[t[1]]
        d = z3.Datatype('Rec_' + t[1])
        d.declare('mk', *[(f, sort_of(x)) for f, x in flds.items()])
        s = d.create()
    else:
        raise ValueError(f"no sort for {t}")
    _SORTS[t] = s
    return s


def acc(t, field):
    """accessor function of the datatype behind type t"""
    s = sort_of(t)
    k = t[0]
    if k in ('list', 'arr'):
        names = ['len', 'at']
    elif k == 'arr2':
        names = ['n0', 'n1', 'at']
    elif k == 'dict':
        names = ['dom', 'val', 'card']
    elif k == 'set':
        names = ['has', 'card']
    elif k == 'tuple':
        names = [f'f{i}' for i in range(len(t[1]))]
    elif k == 'rec':
        names = list(RECORDS[t[1]].keys())
    elif k == 'opt':
        if field == 'val':
            return s.accessor(1, 0)
        raise KeyError(field)
    else:
        raise KeyError((t, field))
    return s.accessor(0, names.index(field))


def ctor(t):
    s = sort_of(t)
    if t[0] == 'opt':
        raise ValueError
    return s.constructor(0)


def opt_none(t):
    return sort_of(t).constructor(0)()


def opt_some(t, v):
    return sort_of(t).constructor(1)(v)


def opt_is_none(t, term):
    return sort_of(t).recognizer(0)(term)


def none_value():
    return sort_of(NONE).constructor(0)()
