"""debug runner: python -m pyvc.run <qualname substring> [-v]"""
import sys, json, time
import contracts
from pyvc.contracts import REGISTRY
from pyvc.verify import verify_function


def main():
    contracts.load_all()
    pat = sys.argv[1] if len(sys.argv) > 1 else ''
    verbose = '-v' in sys.argv
    rc = 0
    for name, c in REGISTRY.by_name.items():
        if pat not in name or c.trusted:
            continue
        if c.mode == 'bounded':
            print(f"{name}: bounded (native execution only, not verified)")
            continue
        t0 = time.time()
        res, ctx = verify_function(c)
        n = len(res.obligations)
        ok = sum(1 for o in res.obligations if o['verdict'] == 'proved')
        print(f"{name}: status={res.status} obligations={n} proved={ok} paths={res.paths} "
              f"gen={res.gen_time_s:.2f}s solve={res.solve_time_s:.2f}s")
        if res.status != 'ok':
            print('   ', res.message)
            rc = 3
        for o in res.obligations:
            if o['verdict'] != 'proved' or verbose:
                print(f"   [{o['verdict']:8s}] {o['id']}  {o['text'][:110]}  ({o['backend']}, {o['time_s']}s)")
                if o['verdict'] != 'proved':
                    print(f"        src: {o['src'][:100]}")
                    if o.get('model'):
                        for k, v in list(o['model'].items())[:8]:
                            print(f"        {k} = {v[:200]}")
                    rc = max(rc, 1 if o['verdict'] == 'refuted' else 2)
        if verbose:
            for a in res.abstracted[:30]:
                print('    abstracted:', a)
            for a in res.notes[:30]:
                print('    note:', a)
    return rc


if __name__ == '__main__':
    sys.exit(main())
