"""Statement executor, loop cutting, function-level VC generation."""
import ast
import itertools
import os
import z3

from . import types as T
from .values import (SymVal, Unsupported, fresh, fresh_name, const_int, const_bool, NONEVAL,
                     literal, wf, seq_len, seq_at, empty_seq, seq_append, seq_store, dict_dom,
                     dict_val, dict_store, empty_dict, empty_set, set_has, set_add, mk_set,
                     membership_array, card_of, literal_axioms, default_of)
from .engine import (Ref, Obligation, State, exc_is, is_num, to_real, to_int, truth, join_types,
                     coerce, values_equal)
from .symexec import (Ctx, Evaluator, select, update, read_ref, write_ref, PendingRaise,
                      MUTATORS, DROPPED_CALLS)
from . import prims
from .contracts import find_function, ContractError

MAX_PATHS = 4000


class Outcome:
    __slots__ = ('kind', 'state', 'value', 'exc')

    def __init__(self, kind, state, value=None, exc=None):
        self.kind = kind      # 'normal' | 'return' | 'raise' | 'break' | 'continue'
        self.state = state
        self.value = value
        self.exc = exc


FEASIBLE_MS = 300     # per-function override: contract ghost['feasible_ms'] (set by Executor)


def feasible(state, timeout_ms=None):
    """cheap pruning of infeasible paths; `unknown` counts as feasible"""
    s = z3.Solver()
    s.set('timeout', int(timeout_ms or FEASIBLE_MS))
    # E-matching only: with quantified facts in the path condition the default configuration
    # spends the whole timeout in model-based instantiation and answers `unknown` anyway
    # (measured: 0.3 s per branch, 25 s for one slice); `unknown` counts as feasible
    s.set('auto_config', False)
    s.set('mbqi', False)
    for f in state.pc:
        s.add(f)
    return s.check() != z3.unsat


# ---------------------------------------------------------------------------------------------
# syntactic analyses
# ---------------------------------------------------------------------------------------------
def root_name(node):
    while isinstance(node, (ast.Subscript, ast.Attribute)):
        node = node.value
    if isinstance(node, ast.Name):
        return node.id
    return None


def modified_names(stmts, registry=None, module=None):
    """names assigned, and names of containers mutated, anywhere in stmts.

    Aliasing: `x = y[k]` / `x = y.f` / `x = y` / `for x in y` make x a possible alias of (a part
    of) y; when x is then mutated in place (store through a subscript / attribute, mutator method)
    y counts as mutated too.  The names that are mutated *only* through such an alias are
    reported in `mutated.alias_only` (their length / key set cannot change that way)."""
    assigned, mutated = set(), set()
    deep = set()          # mutated in place (not merely re-bound / augmented by name)
    alias_edges = []      # (alias name, root name of the aliased expression)

    class V(ast.NodeVisitor):
        def visit_FunctionDef(self, n):
            pass

        def visit_Lambda(self, n):
            pass

        def target(self, t):
            if isinstance(t, ast.Name):
                assigned.add(t.id)
            elif isinstance(t, (ast.Tuple, ast.List)):
                for e in t.elts:
                    self.target(e)
            elif isinstance(t, (ast.Subscript, ast.Attribute)):
                r = root_name(t)
                if r:
                    mutated.add(r)
                    deep.add(r)
            elif isinstance(t, ast.Starred):
                self.target(t.value)

        def alias(self, t, value):
            if isinstance(t, ast.Name) and isinstance(value, (ast.Name, ast.Subscript, ast.Attribute)):
                r = root_name(value)
                if r and r != t.id:
                    alias_edges.append((t.id, r))

        def visit_Assign(self, n):
            for t in n.targets:
                self.target(t)
                self.alias(t, n.value)
            self.generic_visit(n)

        def visit_AugAssign(self, n):
            self.target(n.target)
            if isinstance(n.target, ast.Name):
                mutated.add(n.target.id)
            self.generic_visit(n)

        def visit_AnnAssign(self, n):
            self.target(n.target)
            self.generic_visit(n)

        def visit_For(self, n):
            self.target(n.target)
            self.alias(n.target, n.iter)
            self.generic_visit(n)

        def visit_With(self, n):
            for it in n.items:
                if it.optional_vars is not None:
                    self.target(it.optional_vars)
            self.generic_visit(n)

        def visit_Delete(self, n):
            for t in n.targets:
                if isinstance(t, (ast.Subscript,)):
                    r = root_name(t)
                    if r:
                        mutated.add(r)
            self.generic_visit(n)

        def visit_ExceptHandler(self, n):
            if n.name:
                assigned.add(n.name)
            self.generic_visit(n)

        def visit_Call(self, n):
            if isinstance(n.func, ast.Attribute) and n.func.attr in MUTATORS:
                r = root_name(n.func.value)
                if r:
                    mutated.add(r)
                    deep.add(r)
            # arguments of callees that mutate them / of unknown callees
            for a in list(n.args) + [k.value for k in n.keywords]:
                r = root_name(a) if isinstance(a, (ast.Name, ast.Subscript, ast.Attribute)) else None
                if r:
                    mutated.add(('arg', r))
            self.generic_visit(n)

        def visit_NamedExpr(self, n):
            self.target(n.target)
            self.generic_visit(n)

    v = V()
    for s in stmts:
        v.visit(s)
    args = {m[1] for m in mutated if isinstance(m, tuple)}
    mutated = _MutSet(m for m in mutated if not isinstance(m, tuple))
    direct = set(mutated)
    changed = True
    while changed:
        changed = False
        for a, r in alias_edges:
            if a in deep and r not in deep:
                deep.add(r)
                mutated.add(r)
                changed = True
    mutated.alias_only = frozenset(mutated - direct - assigned)
    return assigned, mutated, args


class _MutSet(set):
    alias_only = frozenset()


def escaping_jump(node):
    """'return' / 'break' / 'continue' if the statement can transfer control out of itself that
    way (a break / continue bound to a loop inside the statement does not count), else None"""
    def walk(n, in_loop):
        if isinstance(n, (ast.FunctionDef, ast.AsyncFunctionDef, ast.Lambda, ast.ClassDef)):
            return None
        if isinstance(n, ast.Return):
            return 'return'
        if isinstance(n, ast.Break) and not in_loop:
            return 'break'
        if isinstance(n, ast.Continue) and not in_loop:
            return 'continue'
        if isinstance(n, (ast.For, ast.While)):
            for ch in n.body:
                r = walk(ch, True)
                if r:
                    return r
            for ch in n.orelse:
                r = walk(ch, in_loop)
                if r:
                    return r
            return None
        for ch in ast.iter_child_nodes(n):
            r = walk(ch, in_loop)
            if r:
                return r
        return None
    for ch in ast.iter_child_nodes(node):
        r = walk(ch, False)
        if r:
            return r
    return None


def names_in(node):
    return {n.id for n in ast.walk(node) if isinstance(n, ast.Name)}


# ---------------------------------------------------------------------------------------------
LOG_METHODS = {'info', 'warn', 'warning', 'debug', 'error', 'benchmark', 'add_msg', 'log_software_env'}


def _is_log_call(call):
    if not isinstance(call, ast.Call):
        return False
    f = call.func
    if isinstance(f, ast.Name):
        return f.id in ('print', 'print_timing')
    if isinstance(f, ast.Attribute):
        if f.attr == 'warn' and isinstance(f.value, ast.Name) and f.value.id == 'warnings':
            return True
        if f.attr in LOG_METHODS:
            base = f.value
            last = base.id if isinstance(base, ast.Name) else (base.attr if isinstance(base, ast.Attribute) else '')
            return 'log' in last.lower()
    return False


def _is_plain_test(test):
    """a test made of names, constants, `is` / `is not` / comparisons and boolean operators only"""
    for n in ast.walk(test):
        if isinstance(n, (ast.Call, ast.Subscript, ast.Await, ast.Lambda, ast.NamedExpr)):
            return False
    return True


def is_log_only(node):
    """assumption A-LOG: a statement that only prints / logs / reads the clock"""
    if isinstance(node, ast.Expr):
        return _is_log_call(node.value)
    if isinstance(node, ast.Assign) and len(node.targets) == 1 and isinstance(node.targets[0], ast.Name):
        v = node.value
        if isinstance(v, ast.Call) and isinstance(v.func, ast.Attribute) and v.func.attr in ('time', 'perf_counter') \
                and isinstance(v.func.value, ast.Name) and v.func.value.id == 'time' and not v.args:
            return True
        return False
    if isinstance(node, ast.If):
        return _is_plain_test(node.test) and bool(node.body) and \
            all(is_log_only(x) for x in node.body) and all(is_log_only(x) for x in node.orelse)
    return False


class Executor:
    def __init__(self, ctx):
        self.ctx = ctx
        self.ev = Evaluator(ctx)
        self.inline = self._index_inline_asserts()
        self.splits = self._index_case_splits()
        global FEASIBLE_MS
        FEASIBLE_MS = int((ctx.contract.ghost.get('feasible_ms') if ctx.contract else None) or 300)

    # ---- assertions at program points (contract field `inline_asserts`) ---------------------
    def _index_inline_asserts(self):
        """inline_asserts = {'<first line of a statement, or a prefix of it>': [clauses]}.
        The clauses are checked (obligation kind `assert`, then assumed) right AFTER every
        normal completion of that statement; a clause `ghost NAME = expr` binds a specification
        name to the value of expr at that point instead.  A key must select exactly one
        statement of the function, otherwise the contract is out of date."""
        ia = getattr(self.ctx.contract, 'inline_asserts', None) if self.ctx.contract else None
        if not ia:
            return {}
        stmts = [n for n in self.ctx._preorder(self.ctx.fn) if isinstance(n, ast.stmt) and n is not self.ctx.fn]
        out = {}
        for key, clauses in ia.items():
            hits = [n for n in stmts if ast.unparse(n).split('\n')[0].startswith(key.strip())]
            if len(hits) != 1:
                raise ContractError(f"{self.ctx.qualname}: inline assertion key {key!r} selects "
                                    f"{len(hits)} statements (contract out of date)")
            out.setdefault(id(hits[0]), []).extend(clauses)
        return out

    # ---- case analysis on a local before a statement (contract ghost key `case_split`) -------
    def _index_case_splits(self):
        """ghost=dict(case_split={'<first line of a statement, or a prefix>': ('var', ['lit', ...])}):
        case analysis on the value of the string-valued local `var` right BEFORE the selected
        statement: one path per listed literal (on it the old value is assumed equal to the
        literal and `var` is rebound to that literal constant) plus the path on which the value
        differs from every listed literal.  Sound: the paths together cover every value; nothing
        is assumed on all of them.  (Used for heterogeneous dicts accessed with a loop variable.)"""
        cs = (self.ctx.contract.ghost or {}).get('case_split') if self.ctx.contract else None
        if not cs:
            return {}
        stmts = [n for n in self.ctx._preorder(self.ctx.fn) if isinstance(n, ast.stmt) and n is not self.ctx.fn]
        out = {}
        for key, (var, lits) in cs.items():
            hits = [n for n in stmts if ast.unparse(n).split('\n')[0].startswith(key.strip())]
            if len(hits) != 1:
                raise ContractError(f"{self.ctx.qualname}: case_split key {key!r} selects "
                                    f"{len(hits)} statements (contract out of date)")
            out[id(hits[0])] = (var, list(lits))
        return out

    def case_split_states(self, node, state):
        var, lits = self.splits[id(node)]
        if var not in state.env:
            return [state]
        cur = read_ref(state, state.env[var])
        if cur.ty != T.NAME or (cur.meta and cur.meta[0] == 'const'):
            return [state]
        states = []
        for lit in lits:
            s = state.copy()
            lv = literal(lit)
            s.assume(cur.term == lv.term)
            s.env[var] = s.new_cell(lv)
            states.append(s)
        state.assume(*[cur.term != literal(lit).term for lit in lits])
        states.append(state)
        return [s for s in states if feasible(s)]

    def apply_inline_asserts(self, node, outs):
        ctx = self.ctx
        for o in outs:
            if o.kind != 'normal':
                continue
            for text in self.inline[id(node)]:
                t = text.strip()
                ghost_name = None
                if t.startswith('ghost '):
                    ghost_name, t = [x.strip() for x in t[6:].split('=', 1)]
                expr = ast.parse(t, mode='eval').body
                ctx.spec_mode += 1
                try:
                    v = self.ev.eval(o.state, expr)
                finally:
                    ctx.spec_mode -= 1
                if ghost_name is not None:
                    if T.is_mutable(v.ty) and not z3.is_const(v.term):
                        # name the snapshot (patterns of later facts then mention a constant,
                        # not e.g. the if-then-else term of a merge)
                        c = fresh(v.ty, 'ghost_' + ghost_name)
                        o.state.assume(c.term == v.term)
                        v = c
                    o.state.ghost[ghost_name] = v
                else:
                    ctx.oblige(o.state, truth(v), 'assert', node, f"at `{ast.unparse(node).splitlines()[0][:60]}`: {text}")

    # ---- blocks ---------------------------------------------------------------------------
    def block(self, stmts, state):
        outs = [Outcome('normal', state)]
        for st in stmts:
            nxt = []
            for o in outs:
                if o.kind != 'normal':
                    nxt.append(o)
                    continue
                nxt.extend(self.stmt(st, o.state))
            outs = nxt
            if sum(1 for o in outs if o.kind == 'normal') > MAX_PATHS:
                raise Unsupported(f"path explosion at line {st.lineno}")
        return outs

    def stmt(self, node, state):
        ctx = self.ctx
        # exceptional outcomes pending in the *enclosing* statement (calls made in an if / while
        # test or a for iterable before this nested statement runs) must survive this statement
        outer_pending = ctx.pending
        ctx.pending = []
        pre = state.copy() if True else None
        m = getattr(self, 's_' + type(node).__name__, None)
        try:
            if m is None:
                raise Unsupported(f"statement {type(node).__name__} at line {node.lineno}")
            if isinstance(node, ast.Expr) and isinstance(node.value, ast.Constant):
                outs = [Outcome('normal', state)]      # docstring / bare constant
            elif ctx.lenient and isinstance(node, ast.Expr) and _is_log_call(node.value) \
                    and not self._log_receiver_tracked(node.value):
                # assumption A-LOG: a print / logging statement is a no-op that does not raise (its
                # arguments may mention tracked names, e.g. the name of the scratch directory)
                ctx.abstracted.append(f"L{node.lineno}: logging statement (A-LOG: does not raise)")
                outs = [Outcome('normal', state)]
            elif ctx.lenient and ctx.contract.tracked and isinstance(
                    node, (ast.Assign, ast.AugAssign, ast.Expr, ast.Delete, ast.AnnAssign, ast.Assert)) \
                    and not self.mentions_tracked(node):
                outs = self.abstract_stmt(node, state)
            elif self.splits and id(node) in self.splits:
                outs = []
                for s_ in self.case_split_states(node, state):
                    outs.extend(self.stmt_after_split(node, s_, m))
            else:
                outs = m(node, state)
        except Unsupported as e:
            if not ctx.lenient:
                raise
            outs = self.abstract_stmt(node, state, why=str(e))
        # exceptional outcomes of calls made while evaluating this statement
        pend, ctx.pending = ctx.pending, outer_pending
        extra = []
        for p in pend:
            s = pre.copy()
            s.assume(*p.conds)
            for r in p.havoc_refs:
                try:
                    old = read_ref(s, r)
                    nv = fresh(old.ty, 'exc_havoc')
                    s.assume(*wf(nv))
                    write_ref(s, r, nv)
                except Exception:
                    pass
            extra.append(Outcome('raise', s, exc=p.exc))
        if self.inline and id(node) in self.inline:
            self.apply_inline_asserts(node, outs)
        return outs + extra

    def stmt_after_split(self, node, state, m):
        try:
            return m(node, state)
        except Unsupported as e:
            if not self.ctx.lenient:
                raise
            return self.abstract_stmt(node, state, why=str(e))

    def _log_receiver_tracked(self, call):
        f = call.func
        if isinstance(f, ast.Attribute):
            for n in ast.walk(f.value):
                if isinstance(n, ast.Name) and n.id in self.ctx.contract.tracked:
                    return True
        return False

    def mentions_tracked(self, node):
        tr = set(self.ctx.contract.tracked)
        for n in ast.walk(node):
            if isinstance(n, ast.Name) and n.id in tr:
                return True
            if isinstance(n, ast.Attribute) and n.attr in tr:
                return True
            if isinstance(n, ast.Call):
                kind, name = prims.call_name(self.ev, n)
                if kind == 'qualified' and (self.ctx.registry.get(name) is not None
                                            or name in self.ctx.contract.ghost.get('calls', ())):
                    return True
                if isinstance(n.func, ast.Attribute) and n.func.attr in self.ctx.contract.ghost.get('methods', ()):
                    return True
        return False

    def abstract_stmt(self, node, state, why='untracked'):
        """slice mode: the statement touches no tracked state; havoc what it assigns, it may raise"""
        ctx = self.ctx
        if is_log_only(node):
            # assumption A-LOG: print / logging / timing statements are no-ops that do not raise
            ctx.abstracted.append(f"L{node.lineno}: logging / timing statement (A-LOG: does not raise)")
            assigned, _mut, _args = modified_names([node])
            for n in assigned:
                if n in state.env and n not in ctx.contract.tracked:
                    self.havoc_name(state, n, keep_type=False)
                    state.asg[n] = z3.BoolVal(True)
            return [Outcome('normal', state)]
        try:
            src = ast.unparse(node).split('\n')[0][:80]
        except Exception:
            src = type(node).__name__
        esc = escaping_jump(node)
        if esc is not None:
            # "havoc what it assigns; may raise" would silently drop this control transfer
            raise Unsupported(f"cannot abstract the statement at line {node.lineno}: it contains "
                              f"`{esc}` (reason for abstraction: {why[:80]})")
        ctx.abstracted.append(f"L{node.lineno}: {src}  [{why[:60]}]")
        assigned, mutated, args = modified_names([node])
        tracked = set(ctx.contract.tracked)
        bad = (assigned | mutated) & tracked
        s_raise = state.copy()
        outs = []
        b = z3.Bool(fresh_name('abs_raise'))
        s_raise.assume(b)
        outs.append(Outcome('raise', s_raise, exc='Exception'))
        state.assume(z3.Not(b))
        # `a[i] = v` / `a[i] op= v` (abstracted because of v or i): the store changes elements of the
        # list / array `a`, never its length
        same_len = {}
        if isinstance(node, (ast.Assign, ast.AugAssign)):
            tgts = node.targets if isinstance(node, ast.Assign) else [node.target]
            if all(isinstance(t, ast.Subscript) and isinstance(t.value, ast.Name) for t in tgts):
                for t in tgts:
                    nm = t.value.id
                    if nm in state.env and nm not in assigned:
                        try:
                            cur = read_ref(state, state.env[nm])
                        except Exception:
                            continue
                        if cur.ty[0] == 'arr' or (cur.ty[0] == 'list' and not isinstance(t.slice, ast.Slice)):
                            same_len[nm] = seq_len(cur)
        for n in assigned | mutated | (args & set(state.env)):
            if n in assigned or n in mutated:
                self.havoc_name(state, n, keep_type=(n in tracked))
                if n in same_len and n in tracked:
                    nv = read_ref(state, state.env[n])
                    if nv.ty[0] in ('list', 'arr'):
                        state.assume(seq_len(nv) == same_len[n])
            elif n in state.env:
                v = read_ref(state, state.env[n])
                if T.is_mutable(v.ty) and n in tracked:
                    self.havoc_name(state, n, keep_type=True)
        # a simple assignment that completes normally has bound its target name(s)
        if isinstance(node, (ast.Assign, ast.AnnAssign, ast.AugAssign)):
            tgts = node.targets if isinstance(node, ast.Assign) else [node.target]
            for t in tgts:
                for nn in ast.walk(t):
                    if isinstance(nn, ast.Name) and isinstance(nn.ctx, ast.Store) and nn.id in state.env:
                        state.asg[nn.id] = z3.BoolVal(True)
        if bad and why == 'untracked':
            raise Unsupported(f"internal: tracked {bad} in untracked statement")
        outs.append(Outcome('normal', state))
        return outs

    def havoc_name(self, state, name, keep_type=True):
        ctx = self.ctx
        ty = ctx.hint_type(name)
        if name in state.env:
            cur = read_ref(state, state.env[name])
            if ty is None:
                ty = cur.ty if keep_type else T.OPAQUE
            nv = fresh(ty, 'hv_' + name)
            state.assume(*wf(nv))
            if state.env[name].path:
                write_ref(state, state.env[name], nv)
            else:
                state.env[name] = state.new_cell(nv)
            if z3.is_true(state.asg.get(name, z3.BoolVal(False))) is False:
                state.asg[name] = z3.Bool(fresh_name('asg_' + name))
        else:
            if ty is None:
                ty = T.OPAQUE
            nv = fresh(ty, 'hv_' + name)
            state.assume(*wf(nv))
            state.env[name] = state.new_cell(nv)
            state.asg[name] = z3.BoolVal(True) if not keep_type or True else z3.Bool(fresh_name('asg'))

    # ---- simple statements -------------------------------------------------------------------
    def s_Pass(self, node, state):
        return [Outcome('normal', state)]

    def s_Import(self, node, state):
        return [Outcome('normal', state)]

    s_ImportFrom = s_Import

    def s_Global(self, node, state):
        raise Unsupported("global")

    def s_Expr(self, node, state):
        if isinstance(node.value, ast.Constant):
            return [Outcome('normal', state)]   # docstring
        self.ev.eval(state, node.value)
        return [Outcome('normal', state)]

    def s_Delete(self, node, state):
        for t in node.targets:
            if isinstance(t, ast.Name):
                if t.id in state.env:
                    a = state.asg.get(t.id, z3.BoolVal(False))
                    self.ctx.oblige(state, a, 'UnboundLocalError', node, f"del {t.id}: is assigned")
                    state.asg[t.id] = z3.BoolVal(False)
                else:
                    self.ctx.oblige(state, z3.BoolVal(False), 'UnboundLocalError', node,
                                    f"del {t.id}: is assigned")
            elif isinstance(t, ast.Subscript):
                ref = self.ev.eval_ref(state, t.value)
                base = self.ev.eval(state, t.value)
                if base.ty[0] == 'dict' and ref is not None:
                    kv = coerce(self.ev.eval(state, t.slice), base.ty[1])
                    self.ctx.oblige(state, dict_dom(base)[kv.term], 'KeyError', node, 'deleted key present')
                    from .values import dict_remove
                    write_ref(state, ref, dict_remove(base, kv.term))
                else:
                    raise Unsupported("del of subscript")
            else:
                raise Unsupported("del target")
        return [Outcome('normal', state)]

    def s_Assert(self, node, state):
        c = truth(self.ev.eval(state, node.test))
        self.ctx.oblige(state, c, 'AssertionError', node, 'assert holds')
        return [Outcome('normal', state)]

    def s_Return(self, node, state):
        v = self.ev.eval(state, node.value) if node.value is not None else NONEVAL
        # a returned l-value of a parameter object keeps its identity (returns_alias)
        return [Outcome('return', state, value=v)]

    def s_Raise(self, node, state):
        exc = 'Exception'
        if node.exc is None:
            exc = state.ghost.get('__handling__', 'Exception')
            if isinstance(exc, SymVal):
                exc = 'Exception'
        else:
            e = node.exc
            if isinstance(e, ast.Call):
                # evaluate message arguments for their own safety obligations
                for a in e.args:
                    try:
                        self.ev.eval(state, a)
                    except Unsupported:
                        if not self.ctx.lenient:
                            raise
                e = e.func
            if isinstance(e, ast.Name):
                exc = e.id
            elif isinstance(e, ast.Attribute):
                exc = e.attr
        return [Outcome('raise', state, exc=exc)]

    def s_Break(self, node, state):
        return [Outcome('break', state)]

    def s_Continue(self, node, state):
        return [Outcome('continue', state)]

    # ---- assignment --------------------------------------------------------------------------
    def s_Assign(self, node, state):
        val_node = node.value
        v = self.ev.eval(state, val_node)
        src_ref = None
        if T.is_mutable(v.ty):
            if v.meta and v.meta[0] == 'alias':
                src_ref = v.meta[1]
            elif isinstance(val_node, (ast.Name, ast.Subscript, ast.Attribute)):
                src_ref = self.ev.eval_ref(state, val_node)
        for t in node.targets:
            self.assign_target(t, v, state, node, src_ref, val_node)
        return [Outcome('normal', state)]

    def s_AnnAssign(self, node, state):
        if node.value is None:
            return [Outcome('normal', state)]
        v = self.ev.eval(state, node.value)
        self.assign_target(node.target, v, state, node, None, node.value)
        return [Outcome('normal', state)]

    def assign_target(self, t, v, state, node, src_ref=None, val_node=None):
        ctx = self.ctx
        if isinstance(t, ast.Name):
            hint = ctx.hint_type(t.id)
            if hint is not None:
                v = coerce(v, hint)
            if src_ref is not None and hint is None:
                state.env[t.id] = src_ref
            else:
                state.env[t.id] = state.new_cell(v)
            state.asg[t.id] = z3.BoolVal(True)
            return
        if isinstance(t, (ast.Tuple, ast.List)):
            if v.ty[0] == 'tuple':
                if len(v.ty[1]) != len(t.elts):
                    ctx.oblige(state, z3.BoolVal(False), 'ValueError', node, 'unpack arity')
                    return
                for i, e in enumerate(t.elts):
                    self.assign_target(e, select(v, ('fld', i)), state, node)
                return
            if v.ty[0] in ('list', 'arr'):
                ctx.oblige(state, seq_len(v) == len(t.elts), 'ValueError', node, 'unpack arity')
                for i, e in enumerate(t.elts):
                    self.assign_target(e, SymVal(v.ty[1], seq_at(v, i)), state, node)
                return
            if v.ty == T.OPAQUE:
                for e in t.elts:
                    self.assign_target(e, fresh(T.OPAQUE, 'unpk'), state, node)
                return
            raise Unsupported(f"unpack of {T.show(v.ty)}")
        if isinstance(t, ast.Subscript):
            self.assign_subscript(t, v, state, node, val_node)
            return
        if isinstance(t, ast.Attribute):
            ref = self.ev.eval_ref(state, t)
            if ref is None:
                raise Unsupported(f"attribute store {ast.unparse(t)}")
            cur = read_ref(state, ref)
            write_ref(state, ref, coerce(v, cur.ty))
            return
        raise Unsupported(f"assignment target {type(t).__name__}")

    def assign_subscript(self, t, v, state, node, val_node=None):
        ctx = self.ctx
        ev = self.ev
        base_ref = ev.eval_ref(state, t.value)
        if base_ref is None:
            raise Unsupported(f"store into a temporary: {ast.unparse(t)}")
        base = read_ref(state, base_ref)
        if base.ty[0] == 'opt':
            ctx.oblige(state, z3.Not(T.opt_is_none(base.ty, base.term)), 'TypeError', node,
                       'subscripted value is not None')
            base_ref = Ref(base_ref.cid, base_ref.path + (('some',),))
            base = select(base, ('some',))
        sl = t.slice
        k = base.ty[0]
        if k == 'dict':
            if base.meta == ('empty',):
                kv0 = ev.eval(state, sl)
                hint = ctx.hint_type(root_name(t)) if isinstance(t.value, ast.Name) else None
                nty = hint if hint is not None else T.TDict(kv0.ty, v.ty)
                base = coerce(base, nty)
            kv = coerce(ev.eval(state, sl), base.ty[1])
            try:
                stored = coerce(v, base.ty[2]).term
            except Unsupported:
                # a scalar stored under a key of a dict whose declared value type is a container
                # (bookkeeping entries such as metadata['flattened'] = True): the entry becomes an
                # arbitrary value of the declared type - an over-approximation, never an assumption
                if not (v.ty in (T.BOOL, T.INT, T.REAL, T.NAME, T.NONE) and T.is_mutable(base.ty[2])):
                    raise
                hv = fresh(base.ty[2], 'illtyped_store')
                state.assume(*wf(hv))
                stored = hv.term
                ctx.notes.append(f"L{node.lineno}: value of type {T.show(v.ty)} stored into "
                                 f"{T.show(base.ty)}: entry havocked")
            write_ref(state, base_ref, dict_store(base, kv.term, stored))
            if isinstance(val_node, ast.Name) and T.is_mutable(v.ty):
                state.env[val_node.id] = Ref(base_ref.cid, base_ref.path + (('key', kv.term),))
            return
        if k in ('list', 'arr'):
            if isinstance(sl, ast.Slice):
                from . import numpy_prims
                n = seq_len(base)
                lo, hi = ev.slice_bounds(state, n, sl)
                r = fresh(base.ty, 'slstore')
                i = z3.Int(fresh_name('i'))
                ln = z3.If(hi > lo, hi - lo, 0)
                if v.ty[0] in ('list', 'arr'):
                    if k == 'list':
                        raise Unsupported("list slice assignment")
                    ctx.oblige(state, seq_len(v) == ln, 'ValueError', node,
                               'assigned array has the length of the slice')
                    src = lambda ii: seq_at(v, ii - lo)
                else:
                    sv = coerce(v, base.ty[1]).term
                    src = lambda ii: sv
                state.assume(seq_len(r) == n,
                             z3.ForAll([i], z3.Implies(z3.And(0 <= i, i < n),
                                                       seq_at(r, i) == z3.If(z3.And(lo <= i, i < hi),
                                                                             src(i), seq_at(base, i)))))
                write_ref(state, base_ref, r)
                return
            iv = ev.eval(state, sl)
            if iv.ty[0] == 'opt' and iv.ty[1][0] in ('list', 'arr', 'int'):
                # a[None] would be numpy's newaxis: the model demands a real index here
                ctx.oblige(state, z3.Not(T.opt_is_none(iv.ty, iv.term)), 'TypeError', node,
                           'index is not None')
                iv = select(iv, ('some',))
            if iv.ty[0] in ('list', 'arr'):
                from . import numpy_prims
                numpy_prims_store = getattr(numpy_prims, 'fancy_store', None)
                if numpy_prims_store is None:
                    raise Unsupported("fancy store")
                write_ref(state, base_ref, numpy_prims_store(ev, state, base, iv, v, node))
                return
            i = to_int(iv)
            n = seq_len(base)
            ctx.oblige(state, z3.And(-n <= i, i < n), 'IndexError', node, 'store index in range')
            idx = i if (iv.meta and iv.meta[0] == 'const' and iv.meta[1] >= 0) else z3.If(i < 0, i + n, i)
            write_ref(state, base_ref, seq_store(base, idx, coerce(v, base.ty[1]).term))
            if isinstance(val_node, ast.Name) and T.is_mutable(v.ty):
                state.env[val_node.id] = Ref(base_ref.cid, base_ref.path + (('idx', idx),))
            return
        if k == 'rec':
            acc = ev.subscript_accessor(state, base, t)
            if acc is None:
                raise Unsupported("record store")
            ref = Ref(base_ref.cid, base_ref.path + tuple(acc))
            cur = read_ref(state, Ref(base_ref.cid, base_ref.path + tuple(acc[:-1]))) if False else None
            # target type
            tv = base
            for a in acc[:-1]:
                tv = select(tv, a)
            last = acc[-1]
            if last[0] == 'key':
                write_ref(state, Ref(base_ref.cid, base_ref.path + tuple(acc[:-1])),
                          dict_store(tv, last[1], coerce(v, tv.ty[2]).term))
            else:
                write_ref(state, ref, coerce(v, select(tv, last).ty))
            if isinstance(val_node, ast.Name) and T.is_mutable(v.ty):
                state.env[val_node.id] = ref
            return
        if k == 'arr2':
            from . import numpy_prims
            h = getattr(numpy_prims, 'arr2_store', None)
            if h is None:
                raise Unsupported("2-D store")
            write_ref(state, base_ref, h(ev, state, base, t, v, node))
            return
        raise Unsupported(f"store into {T.show(base.ty)}")

    def s_AugAssign(self, node, state):
        ev = self.ev
        t = node.target
        load = copy_as_load(t)
        cur = ev.eval(state, load)
        rhs = ev.eval(state, node.value)
        if cur.ty[0] == 'list' and isinstance(node.op, ast.Add):
            # in-place extend: the object keeps its identity
            ref = ev.eval_ref(state, load)
            if ref is None:
                raise Unsupported("+= on temporary list")
            if rhs.ty[0] in ('dict', 'set'):
                rhs = prims.enumeration_of(state, rhs)
            if cur.meta == ('empty',):
                hint = self.ctx.hint_type(t.id) if isinstance(t, ast.Name) else None
                cur = coerce(cur, hint if hint is not None else T.TList(rhs.ty[1]))
            write_ref(state, ref, ev.concat(state, cur, coerce(SymVal(T.TList(rhs.ty[1]), rhs.term), cur.ty)))
            return [Outcome('normal', state)]
        if cur.ty[0] in ('arr',) and isinstance(t, ast.Name):
            ref = ev.eval_ref(state, load)
            v = ev.arith(state, node.op, cur, rhs, node)
            write_ref(state, ref, coerce(v, cur.ty))
            return [Outcome('normal', state)]
        if isinstance(t, ast.Subscript):
            base = ev.eval(state, t.value)
            if base.ty[0] == 'arr':
                iv = ev.eval(state, t.slice) if not isinstance(t.slice, ast.Slice) else None
                if iv is not None and iv.ty[0] in ('arr', 'list'):
                    from . import numpy_prims
                    h = getattr(numpy_prims, 'fancy_augstore', None)
                    if h is None:
                        raise Unsupported("a[idx] op= v")
                    ref = ev.eval_ref(state, t.value)
                    write_ref(state, ref, h(ev, state, base, iv, node.op, rhs, node))
                    return [Outcome('normal', state)]
        v = ev.arith(state, node.op, cur, rhs, node)
        self.assign_target(t, v, state, node)
        return [Outcome('normal', state)]

    # ---- control flow ------------------------------------------------------------------------
    def s_If(self, node, state):
        ctx = self.ctx
        c = truth(self.ev.eval(state, node.test))
        if z3.is_true(c):
            return self.block(node.body, state)
        if z3.is_false(c):
            return self.block(node.orelse, state)
        base_len = len(state.pc)
        s1, s2 = state.copy(), state
        s1.assume(c)
        s2.assume(z3.Not(c))
        outs = []
        f1, f2 = feasible(s1), feasible(s2)
        o1 = self.block(node.body, s1) if f1 else []
        o2 = self.block(node.orelse, s2) if f2 else []
        normals = [o for o in o1 + o2 if o.kind == 'normal']
        others = [o for o in o1 + o2 if o.kind != 'normal']
        # ghost=dict(no_merge=['<source text of the test>', ...]): keep the branches of that `if`
        # apart (more paths, but no ite-merged container values afterwards)
        keep_apart = False
        nm = (ctx.contract.ghost or {}).get('no_merge') if ctx.contract is not None else None
        if nm:
            try:
                keep_apart = ast.unparse(node.test) in nm
            except Exception:
                keep_apart = False
        if len(normals) >= 2 and not keep_apart:
            merged = merge_states([o.state for o in normals], base_len)
            if merged is not None:
                return [Outcome('normal', merged)] + others
        return normals + others

    def s_With(self, node, state):
        ctx = self.ctx
        from . import ghost
        exits = []
        for it in node.items:
            r = ghost.with_enter(self, state, it, node)
            exits.append(r)
        outs = self.block(node.body, state)
        for o in outs:
            for r in reversed(exits):
                ghost.with_exit(self, o.state, r, node)
        return outs

    def s_Try(self, node, state):
        base_len = len(state.pc)
        outs = self.block(node.body, state)
        if len(outs) > 3:
            outs = merge_outcomes(outs, base_len)
        result = []
        for o in outs:
            if o.kind == 'raise':
                handled = False
                for h in node.handlers:
                    names = handler_names(h)
                    if any(exc_is(o.exc, n) or (o.exc == 'Exception' and n != 'BaseException' and False)
                           for n in names):
                        hs = o.state
                        if h.name:
                            hs.bind(h.name, fresh(T.OPAQUE, 'exc'))
                        hs.ghost['__handling__'] = o.exc
                        ho = self.block(h.body, hs)
                        for x in ho:
                            x.state.ghost.pop('__handling__', None)
                        result.extend(ho)
                        handled = True
                        break
                    # a generic 'Exception' outcome (abstracted code) may or may not match a
                    # specific handler: both continuations are explored
                    if o.exc == 'Exception' and any(n not in ('Exception', 'BaseException') for n in names):
                        hs = o.state.copy()
                        if h.name:
                            hs.bind(h.name, fresh(T.OPAQUE, 'exc'))
                        hs.ghost['__handling__'] = names[0]
                        result.extend(self.block(h.body, hs))
                if not handled:
                    result.append(o)
            elif o.kind == 'normal' and node.orelse:
                result.extend(self.block(node.orelse, o.state))
            else:
                result.append(o)
        if node.finalbody:
            if len(result) > 3:
                result = merge_outcomes(result, base_len)
            final = []
            for o in result:
                fo = self.block(node.finalbody, o.state)
                for x in fo:
                    if x.kind == 'normal':
                        final.append(Outcome(o.kind, x.state, o.value, o.exc))
                    else:
                        final.append(x)
            result = final
        return result

    # ---- loops ---------------------------------------------------------------------------
    def loop_frame(self, node, state, extra_assigned=()):
        """havoc everything the loop body may modify; returns the havocked state"""
        ctx = self.ctx
        body = node.body + node.orelse
        assigned, mutated, args = modified_names(body)
        assigned |= set(extra_assigned)
        # arguments of contracted callees that mutate them; of unknown callees (lenient): any
        for n in ast.walk(ast.Module(body=body, type_ignores=[])):
            if isinstance(n, ast.Call):
                kind, name = prims.call_name(self.ev, n)
                c = ctx.registry.get(name) if kind == 'qualified' else None
                if c is not None:
                    try:
                        am = prims.bind_args(c.fn_node(), n)
                    except Unsupported:
                        am = {}
                    for p in c.mutates:
                        a = am.get(p)
                        r = root_name(a) if a is not None else None
                        if r:
                            mutated.add(r)
                if kind == 'method' and isinstance(n.func, ast.Attribute):
                    # a contracted method that mutates its receiver (mutates=['self']) modifies
                    # the object the receiver expression is rooted in
                    for (cls_, mname), mc in ctx.registry.methods.items():
                        if mname == name and 'self' in mc.mutates:
                            r = root_name(n.func.value)
                            if r:
                                mutated.add(r)
                if c is not None:
                    pass
                elif ctx.lenient and kind in ('qualified', 'method', 'builtin') and \
                        not (kind == 'builtin' and name in prims.BUILTINS):
                    from . import numpy_prims
                    if kind == 'qualified' and (name in numpy_prims.QUALIFIED or name in prims.QUALIFIED
                                                or name in DROPPED_CALLS):
                        continue
                    if kind == 'method' and name in ('add', 'append', 'discard', 'remove', 'index',
                                                     'count', 'get', 'intersection', 'union',
                                                     'difference') and isinstance(n.func, ast.Attribute):
                        # a modelled method of a builtin container stores / compares its argument
                        # and never mutates it: no havoc of the argument's root when the receiver
                        # is (rooted in) a list / set / dict known before the loop
                        r0 = root_name(n.func.value)
                        try:
                            if r0 and isinstance(n.func.value, ast.Name):
                                hint = ctx.hint_type(r0)      # declared in the contract's `locals`
                                if (r0 in state.env and read_ref(state, state.env[r0]).ty[0]
                                        in ('list', 'set', 'dict')) or \
                                        (r0 not in state.env and hint is not None
                                         and hint[0] in ('list', 'set', 'dict')):
                                    continue
                        except Exception:
                            pass
                    for a in list(n.args) + [k.value for k in n.keywords]:
                        r = root_name(a) if isinstance(a, (ast.Name, ast.Subscript, ast.Attribute)) else None
                        if r and r in state.env:
                            try:
                                if T.is_mutable(read_ref(state, state.env[r]).ty):
                                    mutated.add(r)
                            except Exception:
                                pass
        gvars = set((ctx.contract.ghost.get('vars') or {}).keys())
        cc = ctx.contract.ghost.get('count_calls') or {}
        if cc:
            for n in ast.walk(ast.Module(body=body, type_ignores=[])):
                if isinstance(n, ast.Call):
                    nm = n.func.attr if isinstance(n.func, ast.Attribute) else \
                        (n.func.id if isinstance(n.func, ast.Name) else None)
                    if nm in cc:
                        mutated.add(cc[nm])
        if gvars:
            for n in ast.walk(ast.Module(body=body, type_ignores=[])):
                if isinstance(n, ast.Call) and isinstance(n.func, ast.Attribute) and \
                        n.func.attr in ('start',) + tuple(ctx.contract.ghost.get('mutators', ())):
                    mutated |= gvars
                # plain-name calls listed as ghost mutators (e.g. mkstemp_clean(...))
                if isinstance(n, ast.Call) and isinstance(n.func, ast.Name) and \
                        n.func.id in tuple(ctx.contract.ghost.get('mutators', ())):
                    mutated |= gvars
        s = state
        # cells reachable from mutated names
        for n in sorted(mutated):
            if n in s.env and n not in assigned:
                ref = s.env[n]
                cur = read_ref(s, ref)
                ty = ctx.hint_type(n) or cur.ty
                if cur.meta == ('empty',) and ctx.hint_type(n) is None:
                    ty = self.infer_container_type(n, body, s, cur)
                nv = fresh(ty, 'lp_' + n)
                s.assume(*wf(nv))
                if n in getattr(mutated, 'alias_only', ()) and nv.ty == cur.ty:
                    # only parts of n are mutated in place (through an alias): its own shape
                    # (length / key set) cannot change that way
                    if nv.ty[0] in ('list', 'arr'):
                        s.assume(seq_len(nv) == seq_len(cur))
                    elif nv.ty[0] in ('dict', 'set'):
                        kq = z3.Const(fresh_name('fk'), T.sort_of(nv.ty[1]))
                        s.assume(z3.ForAll([kq], membership_array(nv)[kq] == membership_array(cur)[kq]),
                                 card_of(nv) == card_of(cur))
                if ref.path:
                    write_ref(s, ref, nv)
                else:
                    s.cells[ref.cid] = nv
        for n in sorted(assigned):
            hint = ctx.hint_type(n)
            if n in s.env:
                cur = read_ref(s, s.env[n])
                ty = hint or cur.ty
                if cur.meta == ('empty',) and hint is None:
                    ty = self.infer_container_type(n, body, s, cur)
                nv = fresh(ty, 'lp_' + n)
                s.assume(*wf(nv))
                s.env[n] = s.new_cell(nv)
                a = s.asg.get(n, z3.BoolVal(False))
                if not z3.is_true(a):
                    s.asg[n] = z3.Bool(fresh_name('asg_' + n))
            elif hint is not None:
                nv = fresh(hint, 'lp_' + n)
                s.assume(*wf(nv))
                s.env[n] = s.new_cell(nv)
                s.asg[n] = z3.Bool(fresh_name('asg_' + n))
            else:
                # first assigned inside the loop: not loop-carried as far as the model goes
                s.env.pop(n, None)
                s.asg.pop(n, None)
        return s, assigned, mutated

    def infer_container_type(self, name, body, state, cur):
        """type of an initially empty container, from the first append/add/store in the loop"""
        raise Unsupported(f"loop-carried container {name} starts empty: give its type in `locals`")

    def check_invariants(self, spec, state, node, kind):
        ctx = self.ctx
        for text, expr in spec['inv']:
            ctx.spec_mode += 1
            try:
                g = truth(self.ev.eval(state, expr))
            finally:
                ctx.spec_mode -= 1
            ord_ = ctx.loop_ordinals[id(node)]
            sm = ctx.spec_mode
            ctx.spec_mode = 0
            ctx.oblige(state, g, f'inv-{kind}[{ord_}]', node, f"loop {ord_} invariant {kind}: {text}",
                       assume=False)
            ctx.spec_mode = sm

    def assume_invariants(self, spec, state):
        ctx = self.ctx
        for text, expr in spec['inv']:
            ctx.spec_mode += 1
            try:
                g = truth(self.ev.eval(state, expr))
            finally:
                ctx.spec_mode -= 1
            state.assume(g)

    def s_While(self, node, state):
        ctx = self.ctx
        ord_ = ctx.loop_ordinals[id(node)]
        spec = ctx.contract.loop_spec(ord_)
        self.check_invariants(spec, state, node, 'establish')
        s, assigned, mutated = self.loop_frame(node, state)
        self.assume_invariants(spec, s)
        try:
            c = truth(self.ev.eval(s, node.test))
        except Unsupported as e:
            if not ctx.lenient:
                raise
            # slice mode: a loop condition the model cannot evaluate is non-deterministic
            ctx.abstracted.append(f"L{node.lineno}: while {ast.unparse(node.test)[:60]}  "
                                  f"[condition abstracted: {str(e)[:50]}]")
            c = z3.Bool(fresh_name('while_cond'))
        s_exit = s.copy()
        s_exit.assume(z3.Not(c))
        s_body = s
        s_body.assume(c)
        results = []
        variant0 = None
        if spec.get('decreases'):
            ctx.spec_mode += 1
            variant0 = to_int(self.ev.eval(s_body, ast.parse(spec['decreases'], mode='eval').body))
            ctx.spec_mode -= 1
        if feasible(s_body):
            for o in self.block(node.body, s_body):
                if o.kind in ('normal', 'continue'):
                    self.check_invariants(spec, o.state, node, 'preserve')
                    if variant0 is not None:
                        ctx.spec_mode += 1
                        v1 = to_int(self.ev.eval(o.state, ast.parse(spec['decreases'], mode='eval').body))
                        ctx.spec_mode -= 1
                        ctx.oblige(o.state, z3.And(v1 < variant0, variant0 >= 0), f'variant[{ord_}]', node,
                                   f"loop {ord_} variant {spec['decreases']} decreases and is bounded")
                elif o.kind == 'break':
                    results.append(Outcome('normal', o.state))
                else:
                    results.append(o)
        if feasible(s_exit):
            if node.orelse:
                results.extend(self.block(node.orelse, s_exit))
            else:
                results.append(Outcome('normal', s_exit))
        return results

    def unrolled_for(self, node, state):
        """for x in (a, b, c): a literal tuple / list is unrolled (no invariant needed)"""
        live = [state]
        results = []
        for elt in node.iter.elts:
            nxt = []
            for st in live:
                v = self.ev.eval(st, elt)
                self.assign_target(node.target, v, st, node)
                for o in self.block(node.body, st):
                    if o.kind in ('normal', 'continue'):
                        nxt.append(o.state)
                    elif o.kind == 'break':
                        results.append(Outcome('normal', o.state))
                    else:
                        results.append(o)
            live = nxt
        for st in live:
            if node.orelse:
                results.extend(self.block(node.orelse, st))
            else:
                results.append(Outcome('normal', st))
        return results

    def s_For(self, node, state):
        ctx = self.ctx
        ev = self.ev
        if isinstance(node.iter, (ast.Tuple, ast.List)) and len(node.iter.elts) <= 16 and \
                ctx.loop_ordinals[id(node)] not in ctx.contract.loops:
            return self.unrolled_for(node, state)
        ord_ = ctx.loop_ordinals[id(node)]
        spec = ctx.contract.loop_spec(ord_)
        it = self.iteration_source(node, state)
        tnames = set()
        for n in ast.walk(node.target):
            if isinstance(n, ast.Name):
                tnames.add(n.id)
        # names of the iterated container(s) must not be modified by the body
        # establish
        g0 = it.ghost_init(state)
        saved = dict(state.ghost)
        state.ghost.update(g0)
        self.check_invariants(spec, state, node, 'establish')
        state.ghost = saved
        pre_env = {n: (state.env.get(n), state.asg.get(n)) for n in tnames}
        s, assigned, mutated = self.loop_frame(node, state, extra_assigned=())
        bad = it.roots & ((assigned | mutated) - set(getattr(mutated, 'alias_only', ())))
        if bad:
            raise Unsupported(f"loop at line {node.lineno} modifies the container it iterates over: {bad}")
        gh = it.ghost_havoc(s)
        s.ghost.update(gh)
        self.assume_invariants(spec, s)
        # exit path
        s_exit = s.copy()
        s_exit.assume(it.exhausted(s_exit))
        results = []
        # body path
        s_body = s
        s_body.assume(it.has_next(s_body))
        if feasible(s_body):
            it.bind_target(self, s_body, node)
            body_ghost = {k: v for k, v in s_body.ghost.items()}
            # inside the body the "next value" ghost of a range loop is the bound target itself
            for n in tnames:
                s_body.ghost.pop(n, None)
            for o in self.block(node.body, s_body):
                if o.kind in ('normal', 'continue'):
                    st = o.state
                    st.ghost.update(it.ghost_step(st, body_ghost))
                    self.check_invariants(spec, st, node, 'preserve')
                elif o.kind == 'break':
                    for k in gh:
                        o.state.ghost.pop(k, None)
                    o.state.ghost.update(saved)
                    results.append(Outcome('normal', o.state))
                else:
                    results.append(o)
        if feasible(s_exit):
            it.after_exhaustion(self, s_exit, node, pre_env)
            # invariants stay assumed; ghost names of this loop go out of scope, but stay
            # readable for enclosing invariants through their ordinal-suffixed names
            for k in list(gh):
                if not k.endswith(str(ord_)):
                    s_exit.ghost.pop(k, None)
            for k, v in saved.items():
                s_exit.ghost.setdefault(k, v)
            if node.orelse:
                results.extend(self.block(node.orelse, s_exit))
            else:
                results.append(Outcome('normal', s_exit))
        return results

    def iteration_source(self, node, state):
        if not self.ctx.lenient:
            return self._iteration_source(node, state)
        try:
            return self._iteration_source(node, state)
        except Unsupported as e:
            # slice mode: an iteration the model cannot follow runs an unknown number of rounds
            # with unknown targets; the body is still executed symbolically
            self.ctx.abstracted.append(f"L{node.lineno}: for ... in {ast.unparse(node.iter)[:60]}  "
                                       f"[iteration abstracted: {str(e)[:60]}]")
            return OpaqueIter(node, self.ctx.loop_ordinals[id(node)], self.ctx)

    def _iteration_source(self, node, state):
        ev = self.ev
        it = node.iter
        ord_ = self.ctx.loop_ordinals[id(node)]
        if isinstance(it, ast.Call) and isinstance(it.func, ast.Name):
            fn = it.func.id
            if fn == 'range':
                args = [ev.eval(state, a) for a in it.args]
                rit = RangeIter(args, node, ord_)
                if rit.sign is None:
                    # symbolic step: only positive steps are modelled; positivity is an
                    # obligation (stricter than Python, which also accepts negative steps)
                    self.ctx.oblige(state, rit.step > 0, 'ValueError', node,
                                    'range step is positive (symbolic step)')
                    rit.sign = 1
                return rit
            if fn == 'enumerate':
                inner = self.seq_source(it.args[0], state)
                return SeqIter([inner[0]], node, ord_, enum=True, roots=inner[1])
            if fn == 'zip':
                srcs = [self.seq_source(a, state) for a in it.args]
                roots = set()
                for s_ in srcs:
                    roots |= s_[1]
                return SeqIter([s_[0] for s_ in srcs], node, ord_, zipped=True, roots=roots)
        if isinstance(it, ast.Call) and isinstance(it.func, ast.Attribute) and \
                it.func.attr in ('items', 'keys', 'values') and not it.args:
            base = ev.eval(state, it.func.value)
            if base.ty[0] == 'rec' and '__rest__' in T.RECORDS[base.ty[1]] and it.func.attr == 'keys':
                return RecKeysIter(base, node, ord_, roots={root_name(it.func.value)} - {None})
            if base.ty[0] == 'opt':
                self.ctx.oblige(state, z3.Not(T.opt_is_none(base.ty, base.term)), 'AttributeError',
                                node, 'receiver is not None')
                base = select(base, ('some',))
            if base.ty[0] == 'dict':
                return SetIter(base, node, ord_, mode=it.func.attr, roots={root_name(it.func.value)} - {None})
        v = ev.eval(state, it)
        roots = {root_name(it)} - {None} if isinstance(it, (ast.Name, ast.Subscript, ast.Attribute)) else set()
        if v.ty[0] == 'opt':
            self.ctx.oblige(state, z3.Not(T.opt_is_none(v.ty, v.term)), 'TypeError', node,
                            'iterated value is not None')
            v = select(v, ('some',))
        if v.ty[0] in ('list', 'arr'):
            return SeqIter([v], node, ord_, roots=roots)
        if v.ty[0] in ('dict', 'set'):
            return SetIter(v, node, ord_, mode='keys', roots=roots)
        if v.ty[0] == 'rec' and '__rest__' in T.RECORDS[v.ty[1]]:
            return RecKeysIter(v, node, ord_, roots=roots)
        if v.ty[0] == 'tuple':
            ty = v.ty[1][0]
            lst = empty_seq(T.TList(ty))
            for i in range(len(v.ty[1])):
                lst = seq_append(lst, coerce(select(v, ('fld', i)), ty).term)
            lst.meta = ('tuple_of', [select(v, ('fld', i)) for i in range(len(v.ty[1]))])
            return SeqIter([lst], node, ord_, roots=roots)
        if v.ty == T.OPAQUE and self.ctx.lenient:
            return OpaqueIter(node, ord_, self.ctx, src=v)
        raise Unsupported(f"iteration over {T.show(v.ty)} at line {node.lineno}")

    def seq_source(self, a, state):
        v = self.ev.eval(state, a)
        roots = {root_name(a)} - {None} if isinstance(a, (ast.Name, ast.Subscript, ast.Attribute)) else set()
        if v.ty[0] in ('dict', 'set'):
            v = prims.enumeration_of(state, v)
        if v.ty[0] == 'opaque' and self.ctx.lenient:
            raise Unsupported("enumerate/zip over abstracted value")
        if v.ty[0] not in ('list', 'arr'):
            raise Unsupported(f"enumerate/zip over {T.show(v.ty)}")
        return v, roots


def merge_outcomes(outs, base_len):
    """merge outcomes of the same kind (and exception type) whose states share the path
    condition prefix pc[:base_len]; the value of a `return` travels in the pseudo-local __ret__"""
    groups = {}
    order = []
    for o in outs:
        key = (o.kind, o.exc)
        if key not in groups:
            groups[key] = []
            order.append(key)
        groups[key].append(o)
    result = []
    for key in order:
        g = groups[key]
        if len(g) == 1:
            result.extend(g)
            continue
        if key[0] == 'return':
            tys = set()
            for o in g:
                v = o.value if o.value is not None else NONEVAL
                o.state.env['__ret__'] = o.state.new_cell(v)
                o.state.asg['__ret__'] = z3.BoolVal(True)
        try:
            m = merge_states([o.state for o in g], base_len)
        except Exception:
            m = None
        if m is None:
            result.extend(g)
            continue
        if key[0] == 'return':
            val = read_ref(m, m.env['__ret__'])
            result.append(Outcome('return', m, value=val))
        else:
            result.append(Outcome(key[0], m, exc=key[1]))
    return result


def handler_names(h):
    if h.type is None:
        return ['BaseException']
    if isinstance(h.type, ast.Name):
        return [h.type.id]
    if isinstance(h.type, ast.Tuple):
        return [e.id for e in h.type.elts if isinstance(e, ast.Name)]
    if isinstance(h.type, ast.Attribute):
        return [h.type.attr]
    return ['Exception']


def copy_as_load(t):
    import copy as _c
    n = _c.deepcopy(t)
    for x in ast.walk(n):
        if hasattr(x, 'ctx'):
            x.ctx = ast.Load()
    return n


# ---------------------------------------------------------------------------------------------
# iteration sources
# ---------------------------------------------------------------------------------------------
class RangeIter:
    """for v in range(a, b, step): ghost `v` = the next value to be handed out"""

    def __init__(self, args, node, ord_):
        self.node = node
        self.ord = ord_
        self.roots = set()
        if len(args) == 1:
            self.lo, self.hi, self.step = z3.IntVal(0), to_int(args[0]), z3.IntVal(1)
            self.sign = 1
        elif len(args) == 2:
            self.lo, self.hi, self.step = to_int(args[0]), to_int(args[1]), z3.IntVal(1)
            self.sign = 1
        else:
            self.lo, self.hi, self.step = to_int(args[0]), to_int(args[1]), to_int(args[2])
            st = args[2]
            if st.meta and st.meta[0] == 'const':
                if st.meta[1] == 0:
                    raise Unsupported("range step 0")
                self.sign = 1 if st.meta[1] > 0 else -1
            else:
                self.sign = None   # decided by an obligation below
        if not isinstance(node.target, ast.Name):
            raise Unsupported("range loop target")
        self.name = node.target.id
        self.cnt = None

    def ghost_init(self, state):
        if self.sign is None:
            # symbolic step: require it positive (the only form in the code base)
            raise Unsupported("range with symbolic step needs a positive-step proof")
        return {self.name: SymVal(T.INT, self.lo), f'_n{self.ord}': const_int(0), '_n': const_int(0)}

    def ghost_havoc(self, state):
        v = z3.Int(fresh_name('next_' + self.name))
        n = z3.Int(fresh_name('iters'))
        self.cur = v
        self.cnt = n
        # v = lo + n*step, n >= 0 ; stated without the product when step is +-1
        state.assume(n >= 0)
        stc = self.step
        if z3.is_int_value(stc) and abs(stc.as_long()) == 1:
            state.assume(v == self.lo + n * stc.as_long())
        else:
            state.assume(v == self.lo + n * stc)
        if self.sign > 0:
            state.assume(v >= self.lo)
            # all earlier values were in range: v - step < hi whenever n > 0
            state.assume(z3.Implies(n > 0, v - self.step < self.hi))
        else:
            state.assume(v <= self.lo)
            state.assume(z3.Implies(n > 0, v - self.step > self.hi))
        return {self.name: SymVal(T.INT, v), f'_n{self.ord}': SymVal(T.INT, n), '_n': SymVal(T.INT, n)}

    def has_next(self, state):
        return self.cur < self.hi if self.sign > 0 else self.cur > self.hi

    def exhausted(self, state):
        return z3.Not(self.has_next(state))

    def bind_target(self, ex, state, node):
        state.bind(self.name, SymVal(T.INT, self.cur))

    def ghost_step(self, state, body_ghost):
        return {self.name: SymVal(T.INT, self.cur + self.step),
                f'_n{self.ord}': SymVal(T.INT, self.cnt + 1), '_n': SymVal(T.INT, self.cnt + 1)}

    def after_exhaustion(self, ex, state, node, pre_env):
        # Python leaves the last handed-out value in the target (if any)
        old_ref, old_asg = pre_env.get(self.name, (None, None))
        last = self.cur - self.step
        if old_ref is not None and old_ref.cid in state.cells:
            try:
                ov = read_ref(state, old_ref)
                if ov.ty == T.INT:
                    state.env[self.name] = state.new_cell(SymVal(T.INT, z3.If(self.cnt > 0, last, ov.term)))
                    oa = old_asg if old_asg is not None else z3.BoolVal(False)
                    state.asg[self.name] = z3.Or(oa, self.cnt > 0)
                    return
            except Exception:
                pass
        state.env[self.name] = state.new_cell(SymVal(T.INT, last))
        state.asg[self.name] = self.cnt > 0


class SeqIter:
    """for x in seq / enumerate(seq) / zip(seqs): ghost `_i` = number of completed iterations"""

    def __init__(self, seqs, node, ord_, enum=False, zipped=False, roots=()):
        self.seqs = seqs
        self.node = node
        self.ord = ord_
        self.enum = enum
        self.zipped = zipped
        self.roots = set(roots)
        n = seq_len(seqs[0])
        for s in seqs[1:]:
            n = z3.If(seq_len(s) < n, seq_len(s), n)
        self.n = n

    def _g(self, i):
        g = {'_i': SymVal(T.INT, i), f'_i{self.ord}': SymVal(T.INT, i)}
        g['_it'] = self.seqs[0]
        g[f'_it{self.ord}'] = self.seqs[0]
        return g

    def ghost_init(self, state):
        return self._g(z3.IntVal(0))

    def ghost_havoc(self, state):
        self.i = z3.Int(fresh_name('it_i'))
        state.assume(0 <= self.i, self.i <= self.n)
        return self._g(self.i)

    def has_next(self, state):
        return self.i < self.n

    def exhausted(self, state):
        return self.i >= self.n

    def bind_target(self, ex, state, node):
        vals = [SymVal(s.ty[1], seq_at(s, self.i)) for s in self.seqs]
        if self.enum:
            ty = T.TTuple([T.INT, vals[0].ty])
            v = SymVal(ty, T.ctor(ty)(self.i, vals[0].term))
        elif self.zipped:
            ty = T.TTuple([x.ty for x in vals])
            v = SymVal(ty, T.ctor(ty)(*[x.term for x in vals]))
        else:
            v = vals[0]
        # element of a named list of mutables: the target aliases the element
        src_ref = None
        if not self.enum and not self.zipped and T.is_mutable(v.ty) and isinstance(node.iter, ast.Name):
            base = state.env.get(node.iter.id)
            if base is not None:
                src_ref = Ref(base.cid, base.path + (('idx', self.i),))
        ex.assign_target(node.target, v, state, node, src_ref)

    def ghost_step(self, state, body_ghost):
        return self._g(self.i + 1)

    def after_exhaustion(self, ex, state, node, pre_env):
        pass


class SetIter:
    """for k in set / dict (/.items()/.values()): ghost `_seen` = keys already visited"""

    def __init__(self, cont, node, ord_, mode='keys', roots=()):
        self.cont = cont
        self.node = node
        self.ord = ord_
        self.mode = mode
        self.roots = set(roots)
        self.kt = cont.ty[1]
        self.sty = T.TSet(self.kt)

    def _g(self, seen):
        return {'_seen': seen, f'_seen{self.ord}': seen}

    def ghost_init(self, state):
        return self._g(empty_set(self.sty))

    def ghost_havoc(self, state):
        self.seen = fresh(self.sty, 'seen')
        k = z3.Const(fresh_name('k'), T.sort_of(self.kt))
        mem = membership_array(self.cont)
        state.assume(z3.ForAll([k], z3.Implies(set_has(self.seen)[k], mem[k])),
                     *wf(self.seen), card_of(self.seen) <= card_of(self.cont))
        self.k = z3.Const(fresh_name('key'), T.sort_of(self.kt))
        return self._g(self.seen)

    def has_next(self, state):
        mem = membership_array(self.cont)
        return z3.And(mem[self.k], z3.Not(set_has(self.seen)[self.k]))

    def exhausted(self, state):
        k = z3.Const(fresh_name('k'), T.sort_of(self.kt))
        mem = membership_array(self.cont)
        return z3.And(z3.ForAll([k], z3.Implies(mem[k], set_has(self.seen)[k])),
                      card_of(self.seen) == card_of(self.cont))

    def bind_target(self, ex, state, node):
        kv = SymVal(self.kt, self.k)
        if self.mode == 'keys':
            v = kv
        elif self.mode == 'values':
            v = SymVal(self.cont.ty[2], dict_val(self.cont)[self.k])
        else:
            vv = SymVal(self.cont.ty[2], dict_val(self.cont)[self.k])
            ty = T.TTuple([self.kt, vv.ty])
            v = SymVal(ty, T.ctor(ty)(self.k, vv.term))
        ex.assign_target(node.target, v, state, node)

    def ghost_step(self, state, body_ghost):
        return self._g(set_add(self.seen, self.k))

    def after_exhaustion(self, ex, state, node, pre_env):
        pass


class RecKeysIter(SetIter):
    """keys of a heterogeneous dict: the fixed fields plus the keys of the rest"""

    def __init__(self, rec, node, ord_, roots=()):
        flds = T.RECORDS[rec.ty[1]]
        rest = select(rec, ('fld', '__rest__'))
        self.fixed = [literal(f).term for f in flds if f != '__rest__']
        SetIter.__init__(self, rest, node, ord_, 'keys', roots)
        self.rest = rest

    def _mem(self, k):
        return z3.Or(dict_dom(self.rest)[k], *[k == f for f in self.fixed])

    def ghost_havoc(self, state):
        self.seen = fresh(self.sty, 'seen')
        k = z3.Const(fresh_name('k'), T.sort_of(self.kt))
        state.assume(z3.ForAll([k], z3.Implies(set_has(self.seen)[k], self._mem(k))), *wf(self.seen))
        self.k = z3.Const(fresh_name('key'), T.sort_of(self.kt))
        return self._g(self.seen)

    def has_next(self, state):
        return z3.And(self._mem(self.k), z3.Not(set_has(self.seen)[self.k]))

    def exhausted(self, state):
        k = z3.Const(fresh_name('k'), T.sort_of(self.kt))
        return z3.ForAll([k], z3.Implies(self._mem(k), set_has(self.seen)[k]))


class OpaqueIter:
    """iteration over an abstracted value (slice mode): unknown number of rounds"""

    def __init__(self, node, ord_, ctx=None, src=None):
        self.node = node
        self.ord = ord_
        self.roots = set()
        self.ctx = ctx
        self.src = src       # the abstracted container iterated over, when known

    def ghost_init(self, state):
        return {}

    def ghost_havoc(self, state):
        self.more = z3.Bool(fresh_name('more'))
        return {}

    def has_next(self, state):
        return self.more

    def exhausted(self, state):
        return z3.Not(self.more)

    def bind_target(self, ex, state, node):
        for n in ast.walk(node.target):
            if isinstance(n, ast.Name):
                hint = self.ctx.hint_type(n.id) if self.ctx is not None else None
                v = fresh(hint or T.OPAQUE, 'it_' + n.id)
                state.assume(*wf(v))
                if self.src is not None and v.ty == T.OPAQUE and isinstance(node.target, ast.Name):
                    # taint ghost: the elements of a sanitised container are sanitised
                    from . import ghost as _g
                    state.assume(z3.Implies(_g.SANITIZED(self.src.term), _g.SANITIZED(v.term)))
                state.bind(n.id, v)

    def ghost_step(self, state, body_ghost):
        return {}

    def after_exhaustion(self, ex, state, node, pre_env):
        pass


# ---------------------------------------------------------------------------------------------
# merging at joins
# ---------------------------------------------------------------------------------------------
def merge_states(states, base_len):
    r = _merge_states(states, base_len)
    if r is None and os.environ.get('VERIF_DEBUG_MERGE'):
        print('merge failed', [sorted(set(s.env)) == sorted(set(states[0].env)) for s in states], _MERGE_WHY[-1:])
    return r


_MERGE_WHY = []


def _merge_states(states, base_len):
    """ite-merge of states that share the path-condition prefix pc[:base_len]; None if the
    states bind names to values of incompatible types"""
    first = states[0]
    prefix = first.pc[:base_len]
    for s in states:
        if len(s.pc) < base_len or any(a is not b for a, b in zip(s.pc[:base_len], prefix)):
            _MERGE_WHY.append(1)
            return None
    names = set(first.env)
    for s in states[1:]:
        names |= set(s.env)
    # a name bound on some branches only: unassigned (arbitrary value) on the others
    patched = []
    for s in states:
        missing = names - set(s.env)
        if missing:
            s = s.copy()
            for n in missing:
                donor = next(x for x in states if n in x.env)
                dv = read_ref(donor, donor.env[n])
                s.env[n] = s.new_cell(fresh(dv.ty, 'unasg_' + n))
                s.asg[n] = z3.BoolVal(False)
        patched.append(s)
    states = patched
    first = states[0]
    conds = [z3.And(*s.pc[base_len:]) if len(s.pc) > base_len else z3.BoolVal(True) for s in states]
    full = conds
    # the first branch-specific assumption (the branch condition) selects the state when it
    # is distinct for every state; otherwise the whole branch-specific condition does
    sels = [s.pc[base_len] if len(s.pc) > base_len else None for s in states]
    if all(x is not None for x in sels) and \
            all(not a.eq(b) for i, a in enumerate(sels) for b in sels[i + 1:]):
        conds = sels
    out = State()
    out.pc = list(prefix) + [z3.Or(*full)]
    out.ghost = dict(first.ghost)
    out.events = first.events
    # cells: union; a cell with different values is merged by ite
    cids = set()
    for s in states:
        cids |= set(s.cells)
    for cid in cids:
        vals = [s.cells.get(cid) for s in states]
        present = [v for v in vals if v is not None]
        if all(v is present[0] or (v.ty == present[0].ty and v.term.eq(present[0].term)) for v in present):
            out.cells[cid] = present[0]
            continue
        if len(present) != len(vals):
            # cell created in one branch only: referenced through env names handled below
            out.cells[cid] = present[0]
            continue
        ty = present[0].ty
        for v in present[1:]:
            ty = join_types(ty, v.ty)
            if ty is None:
                _MERGE_WHY.append(3)
                return None
        try:
            term = coerce(vals[-1], ty).term
            for c, v in zip(reversed(conds[:-1]), reversed(vals[:-1])):
                term = z3.If(c, coerce(v, ty).term, term)
        except Unsupported:
            _MERGE_WHY.append(4)
            return None
        if T.is_mutable(ty) and _term_size(term, 60) >= 60:
            # a big merged container value: give it a name (one defining equation) instead of
            # repeating the ite / constructor / store tower at every later use
            named = fresh(ty, 'merged')
            out.pc.append(named.term == term)
            term = named.term
        out.cells[cid] = SymVal(ty, term)
    for n in names:
        refs = [s.env[n] for s in states]
        if all(r.cid == refs[0].cid and _same_path(r.path, refs[0].path) for r in refs):
            out.env[n] = refs[0]
        else:
            try:
                vals = [read_ref(s, s.env[n]) for s in states]
            except Exception:
                _MERGE_WHY.append(5)
                return None
            ty = vals[0].ty
            for v in vals[1:]:
                ty = join_types(ty, v.ty)
                if ty is None:
                    _MERGE_WHY.append(6)
                    return None
            if T.is_mutable(ty) and any(r.path for r in refs):
                _MERGE_WHY.append(7)
                return None    # aliases into different containers: keep the paths apart
            try:
                term = coerce(vals[-1], ty).term
                for c, v in zip(reversed(conds[:-1]), reversed(vals[:-1])):
                    term = z3.If(c, coerce(v, ty).term, term)
            except Unsupported:
                _MERGE_WHY.append(8)
                return None
            meta = vals[0].meta if all(v.meta == vals[0].meta for v in vals) else None
            if T.is_mutable(ty) and _term_size(term, 60) >= 60:
                named = fresh(ty, 'merged_' + n)
                out.pc.append(named.term == term)
                term = named.term
            out.env[n] = out.new_cell(SymVal(ty, term, meta))
        asgs = [s.asg.get(n, z3.BoolVal(False)) for s in states]
        if all(z3.is_true(a) for a in asgs):
            out.asg[n] = z3.BoolVal(True)
        else:
            a = asgs[-1]
            for c, x in zip(reversed(conds[:-1]), reversed(asgs[:-1])):
                a = z3.If(c, x, a)
            out.asg[n] = z3.simplify(a)
    # captured call arguments (arg_of): `out.ghost` starts as the first state's, which would let a
    # clause about arg_of(...) after the merge see the first branch's call only.  A value that is
    # not the same on every branch is ite-merged under the branch conditions; on a branch that
    # never made the call it is an arbitrary value of its own, so nothing can be proved of it there
    akeys = set()
    for s in states:
        akeys |= {k for k in s.ghost if isinstance(k, str) and k.startswith('__arg__')}
    for k in akeys:
        vals = [s.ghost.get(k) for s in states]
        if all(v is vals[0] for v in vals):
            continue
        donor = next(v for v in vals if v is not None)
        try:
            ty = donor.ty
            for v in vals:
                if v is not None:
                    ty = join_types(ty, v.ty)
                    if ty is None:
                        raise Unsupported('arg types')
            vals = [coerce(v, ty) if v is not None else fresh(ty, 'no_such_argument') for v in vals]
            term = vals[-1].term
            for c, v in zip(reversed(conds[:-1]), reversed(vals[:-1])):
                term = z3.If(c, v.term, term)
            out.ghost[k] = SymVal(ty, term)
        except Exception:
            out.ghost[k] = fresh(T.OPAQUE, 'no_such_argument')
    return out


def _term_size(t, limit):
    """number of distinct sub-terms of t, counted up to `limit`"""
    seen, stack = set(), [t]
    while stack and len(seen) < limit:
        e = stack.pop()
        i = e.get_id()
        if i in seen:
            continue
        seen.add(i)
        if z3.is_app(e):
            stack.extend(e.children())
    return len(seen)


def _same_path(p, q):
    if len(p) != len(q):
        return False
    for a, b in zip(p, q):
        if a[0] != b[0]:
            return False
        if len(a) > 1:
            x, y = a[1], b[1]
            if isinstance(x, z3.ExprRef) and isinstance(y, z3.ExprRef):
                if not x.eq(y):
                    return False
            elif x != y:
                return False
    return True
