"""Expression evaluator and statement executor."""
import ast
import itertools
import z3

from . import types as T
from .values import (SymVal, Unsupported, fresh, fresh_name, const_int, const_real, const_bool,
                     NONEVAL, literal, wf, seq_len, seq_at, mk_seq, empty_seq, seq_append,
                     seq_store, dict_dom, dict_val, dict_card, mk_dict, empty_dict, dict_store,
                     dict_remove, set_has, set_card, mk_set, empty_set, set_add, set_remove,
                     membership_array, card_of, default_of)
from .engine import (Ref, Obligation, State, exc_is, is_num, to_real, to_int, truth, join_types,
                     coerce, values_equal)

MUTATORS = {'append', 'pop', 'sort', 'add', 'update', 'extend', 'reverse', 'remove', 'insert',
            'clear', 'discard', 'popitem', 'setdefault', 'put', 'start', 'join'}

DROPPED_CALLS = {'print', 'print_timing', 'update_timer', 'warnings.warn', 'time.time',
                 'time.sleep', 'gc.collect'}


IMPLICIT_EXCEPTIONS = {'KeyError', 'IndexError', 'ValueError', 'ZeroDivisionError', 'TypeError',
                       'AttributeError', 'UnboundLocalError', 'AssertionError'}

FSTRING_HOOKS = {}      # f-string template ('unmapped_{}_{}') -> handler(ev, state, part values) -> SymVal | None


class PendingRaise:
    def __init__(self, exc, conds, havoc_refs=(), on_raise=None):
        self.exc = exc
        self.conds = list(conds)
        self.havoc_refs = list(havoc_refs)
        self.on_raise = on_raise      # ghost effects that happened before the exception


class Ctx:
    """per-function verification context"""

    def __init__(self, qualname, fn_node, module_info, contract, registry, lenient=False):
        self.qualname = qualname
        self.fn = fn_node
        self.module = module_info          # dict: imports (alias -> qualified), source path
        self.contract = contract
        self.registry = registry
        self.lenient = lenient
        self.obligations = []
        self.abstracted = []               # statements / expressions abstracted (slice mode)
        self.notes = []
        self.pending = []
        self.spec_mode = 0
        self.guards = []                   # short-circuit guards for obligations
        self.entry = None                  # entry snapshot state
        self.result = None
        self.ob_counter = itertools.count()
        self.loop_ordinals = {}
        self.axioms = []                   # global facts (lemmas, spec function axioms)
        self.trusted_used = set()
        self.callee_used = set()
        self.hints = dict(contract.locals) if contract else {}
        n = 0
        for node in ast.walk(fn_node):
            pass
        for node in self._preorder(fn_node):
            if isinstance(node, (ast.For, ast.While)):
                self.loop_ordinals[id(node)] = n
                n += 1
        self.n_loops = n
        self.paths_explored = 0

    def _preorder(self, node):
        yield node
        for ch in ast.iter_child_nodes(node):
            if isinstance(ch, (ast.FunctionDef, ast.Lambda)) and ch is not node:
                continue
            yield from self._preorder(ch)

    # -- obligations -----------------------------------------------------------------------
    def oblige(self, state, goal, kind, node=None, text='', assume=True):
        if self.spec_mode:
            return
        if z3.is_true(goal):
            return
        only = self.contract.ghost.get('only_kinds') if self.contract is not None else None
        if only and not any(kind.startswith(k) for k in only):
            # a view that states one kind of obligation only (e.g. 'forward'): the safety of the
            # other statements is the business of the function's other views; the path continues
            # as if the statement did not raise
            if assume:
                if not self.guards:
                    state.assume(goal)
                else:
                    state.assume(z3.Implies(z3.And(*self.guards), goal))
            return
        if kind in IMPLICIT_EXCEPTIONS and assume and self.contract is not None and \
                any(exc_is(kind, exc) for exc in self.contract.raises):
            # an implicit exception of a type the contract lists in `raises` is a raise *path*
            # (checked against the stated condition at function exit), not a safety obligation
            self.pending.append(PendingRaise(kind, list(state.pc) + list(self.guards) + [z3.Not(goal)]))
            if not self.guards:
                state.assume(goal)
            else:
                state.assume(z3.Implies(z3.And(*self.guards), goal))
            return
        lineno = getattr(node, 'lineno', 0)
        oid = f"{self.qualname}:{lineno}:{kind}:{next(self.ob_counter)}"
        src = ''
        if node is not None:
            try:
                src = ast.unparse(node)[:160]
            except Exception:
                src = ''
        self.obligations.append(Obligation(oid, self.qualname, lineno, kind, text,
                                           list(state.pc) + list(self.guards), goal, src))
        # continue under the assumption that it held
        if not assume:
            return
        if not self.guards:
            state.assume(goal)
        else:
            state.assume(z3.Implies(z3.And(*self.guards), goal))

    def hint_type(self, name):
        h = self.hints.get(name)
        if h is None:
            return None
        return T.parse_type(h) if isinstance(h, str) else h


# ---------------------------------------------------------------------------------------------
# references
# ---------------------------------------------------------------------------------------------
def select(v, acc):
    k = acc[0]
    ty = v.ty
    if k == 'idx':
        if ty[0] in ('list', 'arr'):
            return SymVal(ty[1], seq_at(v, acc[1]))
        raise Unsupported(f"idx on {T.show(ty)}")
    if k == 'key':
        if ty[0] == 'dict':
            return SymVal(ty[2], dict_val(v)[acc[1]])
        raise Unsupported(f"key on {T.show(ty)}")
    if k == 'fld':
        if ty[0] == 'rec':
            return SymVal(T.RECORDS[ty[1]][acc[1]], T.acc(ty, acc[1])(v.term))
        if ty[0] == 'tuple':
            return SymVal(ty[1][acc[1]], T.acc(ty, f'f{acc[1]}')(v.term))
        raise Unsupported(f"field {acc[1]} on {T.show(ty)}")
    if k == 'some':
        if ty[0] == 'opt':
            return SymVal(ty[1], T.acc(ty, 'val')(v.term))
        return v
    raise Unsupported(f"accessor {acc}")


def update(v, path, new):
    if not path:
        return coerce(new, v.ty)
    acc = path[0]
    inner = update(select(v, acc), path[1:], new)
    k = acc[0]
    ty = v.ty
    if k == 'idx':
        return seq_store(v, acc[1], inner.term)
    if k == 'key':
        return dict_store(v, acc[1], inner.term)
    if k == 'fld':
        if ty[0] == 'rec':
            flds = T.RECORDS[ty[1]]
            parts = [inner.term if f == acc[1] else T.acc(ty, f)(v.term) for f in flds]
            return SymVal(ty, T.ctor(ty)(*parts))
        if ty[0] == 'tuple':
            parts = [inner.term if i == acc[1] else T.acc(ty, f'f{i}')(v.term)
                     for i in range(len(ty[1]))]
            return SymVal(ty, T.ctor(ty)(*parts))
    if k == 'some':
        if ty[0] == 'opt':
            return SymVal(ty, T.opt_some(ty, inner.term))
        return inner
    raise Unsupported(f"update through {acc}")


def read_ref(state, ref):
    v = state.cells[ref.cid]
    for acc in ref.path:
        v = select(v, acc)
    return v


def write_ref(state, ref, new):
    if not ref.path:
        old = state.cells.get(ref.cid)
        state.cells[ref.cid] = new
        return
    state.cells[ref.cid] = update(state.cells[ref.cid], ref.path, new)


# ---------------------------------------------------------------------------------------------
# evaluator
# ---------------------------------------------------------------------------------------------
class Evaluator:
    def __init__(self, ctx):
        self.ctx = ctx

    # ---- names / refs ---------------------------------------------------------------------
    def lookup(self, state, name, node=None):
        ctx = self.ctx
        if ctx.spec_mode and name in state.ghost:
            return state.ghost[name]
        if name in state.env:
            a = state.asg.get(name)
            if a is None:
                a = z3.BoolVal(False)
            if not z3.is_true(a):
                ctx.oblige(state, a, 'UnboundLocalError', node, f"{name} is assigned")
            return read_ref(state, state.env[name])
        if name in state.ghost:
            return state.ghost[name]
        raise KeyError(name)

    def eval_ref(self, state, node):
        """Ref for an l-value expression, or None"""
        if isinstance(node, ast.Name):
            if self.ctx.spec_mode and node.id in state.ghost:
                return None
            return state.env.get(node.id)
        if isinstance(node, ast.Subscript):
            base = self.eval_ref(state, node.value)
            if base is None:
                return None
            bv = read_ref(state, base)
            acc = self.subscript_accessor(state, bv, node)
            if acc is None:
                return None
            return Ref(base.cid, base.path + tuple(acc))
        if isinstance(node, ast.Attribute):
            base = self.eval_ref(state, node.value)
            if base is None:
                return None
            bv = read_ref(state, base)
            if bv.ty[0] == 'opt' and bv.ty[1][0] == 'rec':
                self.ctx.oblige(state, z3.Not(T.opt_is_none(bv.ty, bv.term)), 'AttributeError',
                                node, 'receiver is not None')
                base = Ref(base.cid, base.path + (('some',),))
                bv = select(bv, ('some',))
            if bv.ty[0] == 'rec' and node.attr in T.RECORDS[bv.ty[1]]:
                return Ref(base.cid, base.path + (('fld', node.attr),))
            return None
        return None

    def subscript_accessor(self, state, bv, node):
        """accessor list for bv[node.slice] (with safety obligations), or None if not an l-value"""
        ctx = self.ctx
        sl = node.slice
        if isinstance(sl, ast.Slice):
            return None
        pre = []
        if bv.ty[0] == 'opt':
            ctx.oblige(state, z3.Not(T.opt_is_none(bv.ty, bv.term)), 'TypeError', node,
                       'subscripted value is not None')
            pre = [('some',)]
            bv = select(bv, ('some',))
        k = bv.ty[0]
        if k in ('list', 'arr'):
            if isinstance(sl, ast.Tuple) and not sl.elts:
                return None      # a[()] (h5py: read the whole dataset into a new array): not an l-value
            iv = self.eval(state, sl)
            if iv.ty[0] in ('list', 'arr'):
                return None
            i = to_int(iv)
            n = seq_len(bv)
            ctx.oblige(state, z3.And(-n <= i, i < n), 'IndexError', node, 'index in range')
            idx = z3.If(i < 0, i + n, i) if not (iv.meta and iv.meta[0] == 'const' and iv.meta[1] >= 0) else i
            return pre + [('idx', idx)]
        if k == 'dict':
            kv = coerce(self.eval(state, sl), bv.ty[1])
            if isinstance(node.ctx, ast.Load):
                ctx.oblige(state, dict_dom(bv)[kv.term], 'KeyError', node, 'key present')
            return pre + [('key', kv.term)]
        if k == 'tuple':
            iv = self.eval(state, sl)
            if iv.meta and iv.meta[0] == 'const':
                c = iv.meta[1]
                if c < 0:
                    c += len(bv.ty[1])
                if not 0 <= c < len(bv.ty[1]):
                    raise Unsupported("tuple index out of range")
                return pre + [('fld', c)]
            raise Unsupported("symbolic tuple index")
        if k == 'rec':
            flds = T.RECORDS[bv.ty[1]]
            kv = self.eval(state, sl)
            if kv.meta and kv.meta[0] == 'const' and kv.meta[1] in flds:
                return pre + [('fld', kv.meta[1])]
            if '__rest__' in flds:
                rest_ty = flds['__rest__']
                kv = coerce(kv, rest_ty[1])
                for f in flds:
                    if f != '__rest__':
                        ctx.oblige(state, kv.term != literal(f).term, 'hetero-key', node,
                                   f"key is not the fixed field {f!r}")
                rest = select(bv, ('fld', '__rest__'))
                if isinstance(node.ctx, ast.Load):
                    ctx.oblige(state, dict_dom(rest)[kv.term], 'KeyError', node, 'key present')
                return pre + [('fld', '__rest__'), ('key', kv.term)]
            raise Unsupported(f"subscript of record {bv.ty[1]} with non-field key")
        return None

    # ---- main dispatch ----------------------------------------------------------------------
    def eval(self, state, node):
        m = getattr(self, 'e_' + type(node).__name__, None)
        if m is None:
            return self.unsupported(state, node, f"expression {type(node).__name__}")
        try:
            return m(state, node)
        except Unsupported as e:
            if self.ctx.lenient and not self.ctx.spec_mode:
                return self.opaque(state, node, str(e))
            raise

    def unsupported(self, state, node, why):
        if self.ctx.lenient and not self.ctx.spec_mode:
            return self.opaque(state, node, why)
        src = ''
        try:
            src = ast.unparse(node)[:100]
        except Exception:
            pass
        raise Unsupported(f"{why} at line {getattr(node, 'lineno', '?')}: {src}")

    def opaque(self, state, node, why):
        try:
            src = ast.unparse(node)[:80]
        except Exception:
            src = '?'
        self.ctx.abstracted.append(f"L{getattr(node, 'lineno', 0)}: {src}  [{why[:80]}]")
        # an abstracted expression may raise anything
        b = z3.Bool(fresh_name('abs_raise'))
        self.ctx.pending.append(PendingRaise('Exception', [b]))
        state.assume(z3.Not(b))
        return fresh(T.OPAQUE, 'opq')

    def e_Constant(self, state, node):
        v = node.value
        if v is None:
            return NONEVAL
        if isinstance(v, bool):
            return const_bool(v)
        if isinstance(v, int):
            return const_int(v)
        if isinstance(v, float):
            return const_real(v)
        if isinstance(v, str):
            return literal(v)
        return self.unsupported(state, node, "constant")

    def e_Name(self, state, node):
        try:
            return self.lookup(state, node.id, node)
        except KeyError:
            pass
        q = self.ctx.module['imports'].get(node.id)
        if node.id in ('True', 'False'):
            return const_bool(node.id == 'True')
        if node.id in ('int', 'float', 'bool') and not self.ctx.spec_mode:
            from . import prims
            v = const_int(1000 + prims.DTYPE_IDS[node.id])
            v.meta = ('dtype', node.id)
            return v
        from . import prims as _p
        if node.id in _p.SPEC_CONSTS:
            return _p.SPEC_CONSTS[node.id]()
        if self.ctx.spec_mode and self.ctx.hint_type(node.id) is not None:
            # a local that is not bound (yet) on this path: arbitrary value of its declared type
            return fresh(self.ctx.hint_type(node.id), 'unbound_' + node.id)
        consts = self.ctx.module.get('constants', {})
        if node.id in consts:
            return self.eval(state, consts[node.id])
        return self.unsupported(state, node, f"unknown name {node.id}")

    def e_JoinedStr(self, state, node):
        # f-string: an uninterpreted name built from its parts (A-STR); parts are evaluated
        # for their safety obligations only
        vals = []
        template = ''
        for v in node.values:
            if isinstance(v, ast.FormattedValue):
                template += '{}' if (v.format_spec is None and v.conversion == -1) else '{:?}'
                try:
                    vals.append(self.eval(state, v.value))
                except Unsupported:
                    if not self.ctx.lenient:
                        raise
                    vals.append(None)
            elif isinstance(v, ast.Constant):
                template += str(v.value)
        # an extension may give one particular template a (trusted) model, keyed by its text
        hook = FSTRING_HOOKS.get(template)
        if hook is not None and all(x is not None for x in vals):
            r = hook(self, state, vals)
            if r is not None:
                self.ctx.trusted_used.add('fstring:' + template)
                return r
        return self._fstr_generic(node, vals)

    def _fstr_generic(self, node, vals):
        """an f-string without a specific model is an uninterpreted *function* of its parts
        (A-STR, values.fstr_function): the same template applied to equal names / integers
        yields the same string; parts of any other type become an unconstrained argument"""
        from .values import fstr_function
        segments, kinds, args = [], [], []
        it = iter(vals)
        for v in node.values:
            if isinstance(v, ast.FormattedValue):
                pv = next(it)
                spec = ast.unparse(v.format_spec) if v.format_spec is not None else ''
                segments.append(f'\x00{v.conversion}:{spec}')
                if pv is not None and pv.ty == T.NAME and not spec:
                    kinds.append('name')
                    args.append(pv.term)
                elif pv is not None and pv.ty == T.INT:
                    kinds.append('int')
                    args.append(pv.term)
                else:
                    kinds.append('any')
                    args.append(z3.Int(fresh_name('fpart')))
            elif isinstance(v, ast.Constant) and isinstance(v.value, str):
                if segments and not segments[-1].startswith('\x00'):
                    segments[-1] += v.value
                else:
                    segments.append(v.value)
            else:
                return fresh(T.NAME, 'fstr')
        if not kinds:
            return literal(''.join(segments))
        return SymVal(T.NAME, fstr_function(segments, kinds)(*args))

    def e_UnaryOp(self, state, node):
        v = self.eval(state, node.operand)
        if isinstance(node.op, ast.Not):
            return SymVal(T.BOOL, z3.Not(truth(v)))
        if isinstance(node.op, ast.USub):
            if v.ty == T.REAL:
                return SymVal(T.REAL, -v.term)
            if v.ty[0] in ('arr',):
                return self.elementwise(state, [v], lambda a: -a, v.ty[1])
            return SymVal(T.INT, -to_int(v),
                          ('const', -v.meta[1]) if v.meta and v.meta[0] == 'const' else None)
        if isinstance(node.op, ast.UAdd):
            return v
        return self.unsupported(state, node, "unary op")

    def e_BoolOp(self, state, node):
        ctx = self.ctx
        vals = []
        pushed = 0
        try:
            for sub in node.values:
                v = self.eval(state, sub)
                vals.append(v)
                t = truth(v)
                ctx.guards.append(t if isinstance(node.op, ast.And) else z3.Not(t))
                pushed += 1
        finally:
            for _ in range(pushed):
                ctx.guards.pop()
        if all(v.ty == T.BOOL for v in vals):
            ts = [v.term for v in vals]
            return SymVal(T.BOOL, z3.And(*ts) if isinstance(node.op, ast.And) else z3.Or(*ts))
        # value-returning and/or: result is the deciding operand
        ty = vals[0].ty
        for v in vals[1:]:
            ty = join_types(ty, v.ty)
            if ty is None:
                return self.unsupported(state, node, "and/or over mixed types")
        res = coerce(vals[-1], ty).term
        for v in reversed(vals[:-1]):
            t = truth(v)
            if isinstance(node.op, ast.And):
                res = z3.If(t, res, coerce(v, ty).term)
            else:
                res = z3.If(t, coerce(v, ty).term, res)
        return SymVal(ty, res)

    def e_IfExp(self, state, node):
        ctx = self.ctx
        c = truth(self.eval(state, node.test))
        ctx.guards.append(c)
        try:
            a = self.eval(state, node.body)
        finally:
            ctx.guards.pop()
        ctx.guards.append(z3.Not(c))
        try:
            b = self.eval(state, node.orelse)
        finally:
            ctx.guards.pop()
        ty = join_types(a.ty, b.ty)
        if ty is None:
            return self.unsupported(state, node, "conditional expression over mixed types")
        return SymVal(ty, z3.If(c, coerce(a, ty).term, coerce(b, ty).term))

    # ---- arithmetic -------------------------------------------------------------------------
    def arith(self, state, op, a, b, node):
        ctx = self.ctx
        if a.ty[0] in ('arr', 'arr2') or b.ty[0] in ('arr', 'arr2'):
            from . import numpy_prims
            return numpy_prims.arr_binop(self, state, op, a, b, node)
        if isinstance(op, ast.Add) and a.ty[0] == 'list' and b.ty[0] == 'list':
            return self.concat(state, a, b)
        if isinstance(op, ast.Mult) and a.ty[0] == 'list':
            # [x] * n : n copies of x (only a one-element list is modelled); n <= 0 gives []
            ln = z3.simplify(seq_len(a))
            if z3.is_int_value(ln) and ln.as_long() == 1 and b.ty == T.INT:
                n = z3.If(b.term > 0, b.term, z3.IntVal(0))
                return mk_seq(a.ty, n, z3.K(z3.IntSort(), z3.simplify(seq_at(a, z3.IntVal(0)))))
            return self.unsupported(state, node, "list repetition")
        if isinstance(op, ast.Add) and {a.ty, b.ty} == {T.OPAQUE, T.NAME}:
            # abstracted text + a string: the result is sanitised iff the abstracted part is
            # when the other part is a literal (taint ghost of C20; literals carry no path)
            o, n_ = (a, b) if a.ty == T.OPAQUE else (b, a)
            if n_.meta and n_.meta[0] == 'const':
                from . import ghost as _g
                r = fresh(T.OPAQUE, 'textcat')
                state.assume(_g.SANITIZED(r.term) == _g.SANITIZED(o.term))
                return r
        if a.ty == T.OPAQUE or b.ty == T.OPAQUE:
            raise Unsupported("arithmetic on abstracted value")
        # Opt[number]: arithmetic on None is a TypeError (obligation), otherwise the number
        if a.ty[0] == 'opt' and is_num(a.ty[1]) and is_num(b.ty if b.ty[0] != 'opt' else b.ty[1]):
            ctx.oblige(state, z3.Not(T.opt_is_none(a.ty, a.term)), 'TypeError', node,
                       'arithmetic operand is not None')
            a = select(a, ('some',))
        if b.ty[0] == 'opt' and is_num(b.ty[1]) and is_num(a.ty):
            ctx.oblige(state, z3.Not(T.opt_is_none(b.ty, b.term)), 'TypeError', node,
                       'arithmetic operand is not None')
            b = select(b, ('some',))
        if not (is_num(a.ty) and is_num(b.ty)):
            if isinstance(op, ast.Add) and a.ty == T.NAME and b.ty == T.NAME:
                r = fresh(T.NAME, 'strcat')
                from .values import strlen
                state.assume(strlen(r.term) == strlen(a.term) + strlen(b.term))
                return r
            if isinstance(op, ast.Sub) and a.ty[0] == 'set' and b.ty[0] == 'set':
                return self.set_binop(state, 'diff', a, b)
            if isinstance(op, ast.BitOr) and a.ty[0] == 'set' and b.ty[0] == 'set':
                return self.set_binop(state, 'union', a, b)
            if isinstance(op, ast.BitAnd) and a.ty[0] == 'set' and b.ty[0] == 'set':
                return self.set_binop(state, 'inter', a, b)
            raise Unsupported(f"arithmetic on {T.show(a.ty)} and {T.show(b.ty)}")
        real = T.REAL in (a.ty, b.ty)
        if isinstance(op, ast.Add):
            return SymVal(T.REAL, to_real(a) + to_real(b)) if real else \
                self._const_fold(op, a, b, SymVal(T.INT, to_int(a) + to_int(b)))
        if isinstance(op, ast.Sub):
            return SymVal(T.REAL, to_real(a) - to_real(b)) if real else \
                self._const_fold(op, a, b, SymVal(T.INT, to_int(a) - to_int(b)))
        if isinstance(op, ast.Mult):
            return SymVal(T.REAL, to_real(a) * to_real(b)) if real else \
                self._const_fold(op, a, b, SymVal(T.INT, to_int(a) * to_int(b)))
        if isinstance(op, ast.Div):
            d = to_real(b)
            ctx.oblige(state, d != 0, 'ZeroDivisionError', node, 'divisor non-zero')
            return SymVal(T.REAL, to_real(a) / d)
        if isinstance(op, (ast.FloorDiv, ast.Mod)):
            if real:
                raise Unsupported("floor division / modulo on reals")
            x, y = to_int(a), to_int(b)
            ctx.oblige(state, y != 0, 'ZeroDivisionError', node, 'divisor non-zero')
            # Python floor division; z3 `/` on Int is Euclidean (floor for y > 0)
            q = z3.If(y > 0, x / y, (-x) / (-y))
            if isinstance(op, ast.FloorDiv):
                return self._const_fold(op, a, b, SymVal(T.INT, q))
            return self._const_fold(op, a, b, SymVal(T.INT, x - y * q))
        if isinstance(op, ast.Pow):
            if b.meta and b.meta[0] == 'const' and isinstance(b.meta[1], int) and 0 <= b.meta[1] <= 4:
                if a.meta and a.meta[0] == 'const' and isinstance(a.meta[1], int):
                    return const_int(a.meta[1] ** b.meta[1])
                t = to_real(a) if real else to_int(a)
                r = z3.RealVal(1) if real else z3.IntVal(1)
                for _ in range(b.meta[1]):
                    r = r * t
                return SymVal(T.REAL if real else T.INT, r)
            if a.meta and a.meta[0] == 'const' and b.meta and b.meta[0] == 'const':
                return const_int(a.meta[1] ** b.meta[1]) if not real else const_real(a.meta[1] ** b.meta[1])
            raise Unsupported("general power")
        raise Unsupported(f"operator {type(op).__name__}")

    def _const_fold(self, op, a, b, v):
        if a.meta and b.meta and a.meta[0] == 'const' and b.meta[0] == 'const' \
                and isinstance(a.meta[1], int) and isinstance(b.meta[1], int) \
                and not isinstance(a.meta[1], bool) and not isinstance(b.meta[1], bool):
            x, y = a.meta[1], b.meta[1]
            try:
                r = {ast.Add: lambda: x + y, ast.Sub: lambda: x - y, ast.Mult: lambda: x * y,
                     ast.FloorDiv: lambda: x // y, ast.Mod: lambda: x % y}[type(op)]()
                return const_int(r)
            except Exception:
                return v
        return v

    def e_BinOp(self, state, node):
        a = self.eval(state, node.left)
        b = self.eval(state, node.right)
        return self.arith(state, node.op, a, b, node)

    def concat(self, state, a, b):
        ty = a.ty if a.meta != ('empty',) else b.ty
        a, b = coerce(a, ty), coerce(b, ty)
        r = fresh(ty, 'cat')
        i = z3.Int(fresh_name('ci'))
        na, nb = seq_len(a), seq_len(b)
        state.assume(seq_len(r) == na + nb,
                     z3.ForAll([i], z3.Implies(z3.And(0 <= i, i < na), seq_at(r, i) == seq_at(a, i))),
                     z3.ForAll([i], z3.Implies(z3.And(0 <= i, i < nb), seq_at(r, na + i) == seq_at(b, i))),
                     # same fact indexed by the position in r (usable trigger r[i])
                     z3.ForAll([i], z3.Implies(z3.And(na <= i, i < na + nb),
                                               seq_at(r, i) == seq_at(b, i - na)),
                               patterns=[seq_at(r, i)]))
        return r

    def set_binop(self, state, kind, a, b):
        k = z3.Const(fresh_name('sk'), T.sort_of(a.ty[1]))
        from .values import canon
        r = canon(a.ty, 'set' + kind, a.term, b.term)    # a function of the two operands
        ha, hb = set_has(a)[k], set_has(b)[k]
        body = {'diff': z3.And(ha, z3.Not(hb)), 'union': z3.Or(ha, hb), 'inter': z3.And(ha, hb)}[kind]
        state.assume(z3.ForAll([k], set_has(r)[k] == body), *wf(r))
        if kind == 'union':
            state.assume(set_card(r) >= set_card(a), set_card(r) >= set_card(b),
                         set_card(r) <= set_card(a) + set_card(b))
        else:
            state.assume(set_card(r) <= set_card(a))
        return r

    # ---- comparisons ---------------------------------------------------------------------
    def compare(self, state, op, a, b, node):
        if isinstance(op, (ast.Is, ast.IsNot)):
            if b.ty == T.NONE or a.ty == T.NONE:
                o = a if b.ty == T.NONE else b
                if o.ty == T.NONE:
                    r = z3.BoolVal(True)
                elif o.ty[0] == 'opt':
                    r = T.opt_is_none(o.ty, o.term)
                elif o.ty == T.OPAQUE:
                    from .engine import IS_NONE
                    r = IS_NONE(o.term)
                else:
                    r = z3.BoolVal(False)
            elif a.ty == T.BOOL and b.ty == T.BOOL:
                r = a.term == b.term
            else:
                raise Unsupported("`is` on non-None values")
            return z3.Not(r) if isinstance(op, ast.IsNot) else r
        if isinstance(op, (ast.Eq, ast.NotEq)):
            r = values_equal(a, b)
            return z3.Not(r) if isinstance(op, ast.NotEq) else r
        if isinstance(op, (ast.In, ast.NotIn)):
            r = self.contains(state, b, a, node)
            return z3.Not(r) if isinstance(op, ast.NotIn) else r
        if a.ty[0] == 'opt' and (is_num(a.ty[1]) or a.ty[1] == T.NAME):
            self.ctx.oblige(state, z3.Not(T.opt_is_none(a.ty, a.term)), 'TypeError', node,
                            'ordered comparison operand is not None')
            a = select(a, ('some',))
        if b.ty[0] == 'opt' and (is_num(b.ty[1]) or b.ty[1] == T.NAME):
            self.ctx.oblige(state, z3.Not(T.opt_is_none(b.ty, b.term)), 'TypeError', node,
                            'ordered comparison operand is not None')
            b = select(b, ('some',))
        if (is_num(a.ty) or a.ty == T.NAME) and (is_num(b.ty) or b.ty == T.NAME):
            if T.REAL in (a.ty, b.ty):
                x, y = to_real(a), to_real(b)
            else:
                x, y = to_int(a), to_int(b)
            if isinstance(op, ast.Lt):
                return x < y
            if isinstance(op, ast.LtE):
                return x <= y
            if isinstance(op, ast.Gt):
                return x > y
            if isinstance(op, ast.GtE):
                return x >= y
        if a.ty[0] == 'set' and b.ty[0] == 'set':
            k = z3.Const(fresh_name('ssk'), T.sort_of(a.ty[1]))
            if isinstance(op, ast.LtE):
                return z3.ForAll([k], z3.Implies(set_has(a)[k], set_has(b)[k]))
            if isinstance(op, ast.GtE):
                return z3.ForAll([k], z3.Implies(set_has(b)[k], set_has(a)[k]))
        raise Unsupported(f"comparison {type(op).__name__} on {T.show(a.ty)}, {T.show(b.ty)}")

    def contains(self, state, cont, item, node):
        k = cont.ty[0]
        if k == 'opt':
            self.ctx.oblige(state, z3.Not(T.opt_is_none(cont.ty, cont.term)), 'TypeError', node,
                            'container is not None')
            cont = select(cont, ('some',))
            k = cont.ty[0]
        if k in ('dict', 'set'):
            it = coerce(item, cont.ty[1])
            return membership_array(cont)[it.term]
        if k in ('list', 'arr'):
            i = z3.Int(fresh_name('ini'))
            ev = SymVal(cont.ty[1], seq_at(cont, i))
            return z3.Exists([i], z3.And(0 <= i, i < seq_len(cont), values_equal(ev, item)))
        if k == 'rec' and '__rest__' in T.RECORDS[cont.ty[1]]:
            flds = T.RECORDS[cont.ty[1]]
            rest = select(cont, ('fld', '__rest__'))
            it = coerce(item, rest.ty[1])
            fixed = [it.term == literal(f).term for f in flds if f != '__rest__']
            return z3.Or(dict_dom(rest)[it.term], *fixed)
        if k == 'tuple':
            return z3.Or(*[values_equal(select(cont, ('fld', i)), item) for i in range(len(cont.ty[1]))])
        raise Unsupported(f"`in` on {T.show(cont.ty)}")

    def e_Compare(self, state, node):
        left = self.eval(state, node.left)
        terms = []
        for op, rn in zip(node.ops, node.comparators):
            right = self.eval(state, rn)
            if (left.ty[0] in ('arr', 'arr2') or right.ty[0] in ('arr', 'arr2')) and not (
                    isinstance(op, (ast.In, ast.NotIn, ast.Is, ast.IsNot)) and left.ty[0] not in ('arr', 'arr2')):
                # (`x in arr`, `x is arr` with a scalar x are membership / identity, not element-wise)
                if len(node.ops) != 1:
                    raise Unsupported("chained array comparison")
                from . import numpy_prims
                return numpy_prims.arr_compare(self, state, op, left, right, node)
            terms.append(self.compare(state, op, left, right, node))
            left = right
        return SymVal(T.BOOL, z3.And(*terms) if len(terms) > 1 else terms[0])

    # ---- containers ------------------------------------------------------------------------
    def e_List(self, state, node):
        if not node.elts:
            v = empty_seq(T.TList(T.INT))
            v.meta = ('empty',)
            return v
        vals = [self.eval(state, e) for e in node.elts]
        ty = vals[0].ty
        for v in vals[1:]:
            ty = join_types(ty, v.ty)
            if ty is None:
                raise Unsupported("heterogeneous list literal")
        out = empty_seq(T.TList(ty))
        for v in vals:
            out = seq_append(out, coerce(v, ty).term)
        return out

    def e_Tuple(self, state, node):
        vals = [self.eval(state, e) for e in node.elts]
        ty = T.TTuple([v.ty for v in vals])
        return SymVal(ty, T.ctor(ty)(*[v.term for v in vals]))

    def e_Set(self, state, node):
        vals = [self.eval(state, e) for e in node.elts]
        ty = T.TSet(vals[0].ty)
        out = empty_set(ty)
        for v in vals:
            out = set_add(out, coerce(v, ty[1]).term)
        return out

    def e_Dict(self, state, node):
        if not node.keys:
            v = empty_dict(T.TDict(T.NAME, T.INT))
            v.meta = ('empty',)
            return v
        ks = [self.eval(state, k) for k in node.keys]
        vs = [self.eval(state, v) for v in node.values]
        kt = ks[0].ty
        vt = vs[0].ty
        for v in vs[1:]:
            vt = join_types(vt, v.ty)
            if vt is None:
                return self._dict_literal_as_record(ks, vs)
        out = empty_dict(T.TDict(kt, vt))
        for k, v in zip(ks, vs):
            out = dict_store(out, coerce(k, kt).term, coerce(v, vt).term)
        return out

    def _dict_literal_as_record(self, ks, vs):
        """{'a': x, 'b': y} with values of different types: the value of the unique declared
        record type (without rest) whose fields are exactly the constant keys and whose field
        types accept the values"""
        if not all(k.meta and k.meta[0] == 'const' and isinstance(k.meta[1], str) for k in ks):
            raise Unsupported("heterogeneous dict literal")
        keys = [k.meta[1] for k in ks]
        if len(set(keys)) != len(keys):
            raise Unsupported("heterogeneous dict literal with a repeated key")
        found = []
        for rname, flds in T.RECORDS.items():
            if '__rest__' in flds or set(flds) != set(keys):
                continue
            try:
                parts = {k: coerce(v, flds[k]).term for k, v in zip(keys, vs)}
            except Unsupported:
                continue
            found.append((rname, parts))
        if not found:
            # no exact record: a heterogeneous-dict record (fixed fields + `_rest`) whose fixed
            # fields are all among the keys and whose rest accepts the remaining entries
            for rname, flds in T.RECORDS.items():
                if '__rest__' not in flds:
                    continue
                fixed = [f for f in flds if f != '__rest__']
                if not fixed or not set(fixed) <= set(keys):
                    continue
                rest_ty = flds['__rest__']
                try:
                    parts = {k: coerce(v, flds[k]).term for k, v in zip(keys, vs) if k in fixed}
                    rest = empty_dict(rest_ty)
                    for k, kv, v in zip(keys, ks, vs):
                        if k not in fixed:
                            rest = dict_store(rest, coerce(kv, rest_ty[1]).term, coerce(v, rest_ty[2]).term)
                except Unsupported:
                    continue
                parts['__rest__'] = rest.term
                found.append((rname, parts))
        if len(found) != 1:
            raise Unsupported("heterogeneous dict literal (no unique matching record type declared)")
        rname, parts = found[0]
        ty = T.TRec(rname)
        return SymVal(ty, T.ctor(ty)(*[parts[f] for f in T.RECORDS[rname]]))

    def e_Subscript(self, state, node):
        base = self.eval(state, node.value)
        return self.subscript_value(state, base, node)

    def subscript_value(self, state, base, node):
        sl = node.slice
        if base.ty[0] == 'arr2':
            from . import numpy_prims
            return numpy_prims.arr2_subscript(self, state, base, node)
        if isinstance(sl, ast.Slice):
            return self.slice_value(state, base, sl, node)
        if base.ty[0] == 'arr' and isinstance(sl, ast.Tuple) and not sl.elts:
            return SymVal(base.ty, base.term)      # a[()] : the whole array (h5py: read the dataset)
        if base.ty[0] in ('arr', 'list') and not isinstance(sl, ast.Slice):
            iv = self.eval(state, sl)
            if iv.ty[0] in ('arr', 'list'):
                from . import numpy_prims
                return numpy_prims.fancy_index(self, state, base, iv, node)
            # fall through with the already evaluated index
            i = to_int(iv)
            n = seq_len(base)
            self.ctx.oblige(state, z3.And(-n <= i, i < n), 'IndexError', node, 'index in range')
            if iv.meta and iv.meta[0] == 'const' and iv.meta[1] >= 0:
                idx = i
            elif iv.meta and iv.meta[0] == 'const':
                idx = n + iv.meta[1]
            elif self.ctx.spec_mode:
                idx = i      # specification indices are non-negative by convention
            else:
                idx = z3.If(i < 0, i + n, i)
            return SymVal(base.ty[1], seq_at(base, idx))
        if base.ty == T.OPAQUE:
            from . import prims as _p
            h = getattr(_p, 'OPAQUE_SUBSCRIPT', None)    # optional model of x[key] (pyvc/ext)
            if h is not None and not self.ctx.spec_mode:
                r = h(self, state, base, node)
                if r is not None:
                    return r
            raise Unsupported("subscript of abstracted value")
        acc = self.subscript_accessor(state, base, node)
        if acc is None:
            raise Unsupported(f"subscript on {T.show(base.ty)}")
        v = base
        for a in acc:
            v = select(v, a)
        return v

    def slice_bounds(self, state, n, sl):
        """normalised (lo, hi) of a step-1 slice over a sequence of length n"""
        if sl.step is not None:
            st = self.eval(state, sl.step)
            if not (st.meta and st.meta[0] == 'const' and st.meta[1] == 1):
                raise Unsupported("slice step")

        def norm(x, dflt):
            if x is None:
                return dflt
            v = self.eval(state, x)
            if v.ty == T.NONE:
                return dflt
            if v.ty[0] == 'opt':
                raise Unsupported("optional slice bound")
            t = to_int(v)
            if v.meta and v.meta[0] == 'const' and v.meta[1] >= 0:
                return z3.If(t > n, n, t)
            t = z3.If(t < 0, t + n, t)
            return z3.If(t < 0, 0, z3.If(t > n, n, t))
        lo = norm(sl.lower, z3.IntVal(0))
        hi = norm(sl.upper, n)
        return lo, hi

    def slice_value(self, state, base, sl, node):
        if base.ty[0] not in ('list', 'arr'):
            raise Unsupported(f"slice of {T.show(base.ty)}")
        n = seq_len(base)
        lo, hi = self.slice_bounds(state, n, sl)
        r = fresh(base.ty, 'slice')
        i = z3.Int(fresh_name('si'))
        ln = z3.If(hi > lo, hi - lo, 0)
        state.assume(seq_len(r) == ln,
                     z3.ForAll([i], z3.Implies(z3.And(0 <= i, i < ln),
                                               seq_at(r, i) == seq_at(base, lo + i))),
                     # same fact indexed by the position in base (usable trigger base[i])
                     z3.ForAll([i], z3.Implies(z3.And(lo <= i, i < lo + ln),
                                               seq_at(r, i - lo) == seq_at(base, i)),
                               patterns=[seq_at(base, i)]))
        return r

    def e_Attribute(self, state, node):
        # module constants / qualified names
        q = self.qualified(node)
        if q is not None:
            from . import prims
            c = prims.constant(q)
            if c is not None:
                return c
        base = self.eval(state, node.value)
        if base.ty[0] == 'opt' and base.ty[1][0] == 'rec':
            self.ctx.oblige(state, z3.Not(T.opt_is_none(base.ty, base.term)), 'AttributeError',
                            node, 'receiver is not None')
            base = select(base, ('some',))
        if base.ty[0] == 'rec':
            if node.attr in T.RECORDS[base.ty[1]]:
                return select(base, ('fld', node.attr))
            alias = T.RECORD_META.get(base.ty[1], {}).get('aliases', {}).get(node.attr)
            if alias is not None:
                return select(base, ('fld', alias))
            # @property with a contract: read = modular call of the getter
            pc = self.ctx.registry.get_method(base.ty[1], node.attr)
            if pc is not None and any(isinstance(d, ast.Name) and d.id == 'property'
                                      for d in pc.fn_node().decorator_list):
                from . import prims
                fake = ast.copy_location(ast.Call(func=node, args=[], keywords=[]), node)
                return prims.call_contract(self, state, fake, pc, pc.qualname,
                                           receiver=(base, self.eval_ref(state, node.value)))
            raise Unsupported(f"record {base.ty[1]} has no declared field {node.attr}")
        from . import numpy_prims
        r = numpy_prims.attribute(self, state, base, node.attr, node)
        if r is not None:
            return r
        raise Unsupported(f"attribute .{node.attr} of {T.show(base.ty)}")

    def qualified(self, node):
        """dotted name of an expression if it is a module-level reference"""
        parts = []
        n = node
        while isinstance(n, ast.Attribute):
            parts.append(n.attr)
            n = n.value
        if not isinstance(n, ast.Name):
            return None
        imp = self.ctx.module['imports']
        if n.id not in imp:
            return None
        return '.'.join([imp[n.id]] + list(reversed(parts)))

    # ---- comprehensions ----------------------------------------------------------------------
    def e_ListComp(self, state, node):
        from . import prims
        return prims.list_comp(self, state, node)

    def e_DictComp(self, state, node):
        from . import prims
        return prims.dict_comp(self, state, node)

    def e_SetComp(self, state, node):
        from . import prims
        return prims.set_comp(self, state, node)

    def e_GeneratorExp(self, state, node):
        return self.unsupported(state, node, "bare generator expression")

    def e_Lambda(self, state, node):
        return self.unsupported(state, node, "lambda")

    def e_Slice(self, state, node):
        return self.unsupported(state, node, "bare slice")

    def e_Starred(self, state, node):
        return self.unsupported(state, node, "starred")

    # ---- calls ---------------------------------------------------------------------------
    def e_Call(self, state, node):
        from . import prims
        return prims.call(self, state, node)

    # ---- quantifiers in specs -------------------------------------------------------------
    def quantify(self, state, gen, kind):
        """all(...) / any(...) over a generator expression -> z3 quantifier"""
        assert isinstance(gen, ast.GeneratorExp)
        bound = []
        guards = []
        saved = dict(state.ghost)
        try:
            for comp in gen.generators:
                self.bind_comprehension(state, comp, bound, guards)
            body = truth(self.eval(state, gen.elt))
        finally:
            state.ghost = saved
        if not bound:
            return body
        g = z3.And(*guards) if guards else z3.BoolVal(True)
        if kind == 'all':
            return z3.ForAll(bound, z3.Implies(g, body))
        return z3.Exists(bound, z3.And(g, body))

    def bind_comprehension(self, state, comp, bound, guards):
        """bind the target(s) of one `for ... in ...` clause as quantified variables"""
        it = comp.iter
        tgt = comp.target

        def bind_target(t, val):
            if isinstance(t, ast.Name):
                state.ghost[t.id] = val
            elif isinstance(t, ast.Tuple) and val.ty[0] == 'tuple':
                for i, e in enumerate(t.elts):
                    bind_target(e, select(val, ('fld', i)))
            else:
                raise Unsupported("comprehension target")

        if isinstance(it, ast.Call) and isinstance(it.func, ast.Name) and it.func.id == 'range':
            args = [self.eval(state, a) for a in it.args]
            if len(args) == 1:
                lo, hi = z3.IntVal(0), to_int(args[0])
            elif len(args) == 2:
                lo, hi = to_int(args[0]), to_int(args[1])
            else:
                raise Unsupported("range with step in spec")
            v = z3.Int(fresh_name('q_' + (tgt.id if isinstance(tgt, ast.Name) else 'i')))
            bound.append(v)
            guards.append(z3.And(lo <= v, v < hi))
            bind_target(tgt, SymVal(T.INT, v))
        elif isinstance(it, ast.Call) and isinstance(it.func, ast.Name) and it.func.id == 'enumerate':
            seq = self.eval(state, it.args[0])
            v = z3.Int(fresh_name('q_i'))
            bound.append(v)
            guards.append(z3.And(0 <= v, v < seq_len(seq)))
            if not (isinstance(tgt, ast.Tuple) and len(tgt.elts) == 2):
                raise Unsupported("enumerate target")
            bind_target(tgt.elts[0], SymVal(T.INT, v))
            bind_target(tgt.elts[1], SymVal(seq.ty[1], seq_at(seq, v)))
        else:
            c = self.eval(state, it)
            if c.ty[0] == 'opt':
                c = select(c, ('some',))
            if c.ty[0] in ('list', 'arr'):
                v = z3.Int(fresh_name('q_i'))
                bound.append(v)
                guards.append(z3.And(0 <= v, v < seq_len(c)))
                bind_target(tgt, SymVal(c.ty[1], seq_at(c, v)))
            elif c.ty[0] in ('dict', 'set'):
                v = z3.Const(fresh_name('q_k'), T.sort_of(c.ty[1]))
                bound.append(v)
                guards.append(membership_array(c)[v])
                bind_target(tgt, SymVal(c.ty[1], v))
            elif c.ty[0] == 'rec' and '__rest__' in T.RECORDS[c.ty[1]]:
                # heterogeneous dict: its keys are the fixed fields plus the keys of the rest
                flds = T.RECORDS[c.ty[1]]
                rest = select(c, ('fld', '__rest__'))
                v = z3.Const(fresh_name('q_k'), T.sort_of(rest.ty[1]))
                bound.append(v)
                guards.append(z3.Or(dict_dom(rest)[v],
                                    *[v == literal(f).term for f in flds if f != '__rest__']))
                bind_target(tgt, SymVal(rest.ty[1], v))
            else:
                raise Unsupported(f"quantification over {T.show(c.ty)}")
        for cond in comp.ifs:
            guards.append(truth(self.eval(state, cond)))
