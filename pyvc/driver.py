"""./check driver: decides one property, writes evidence, prints VIOLATION / KNOWN-FINDING lines.

exit 0  every obligation discharged, every native / bounded contract check held
exit 1  VIOLATION (an obligation failed or a contract failed natively, not a recorded finding)
exit 2  undecided (contract out of date) - only with VERIF_STALE_EXIT=2; by default an out-of-date contract is
        printed as UNDECIDED, recorded in the evidence, and does not change the exit status
exit 3  checker error (unsupported construct in a function claimed as proved, crash, guard)
"""
import argparse
import hashlib
import importlib
import json
import multiprocessing as mp
import os
import random
import sys
import time
import traceback

HERE = os.path.dirname(os.path.dirname(os.path.abspath(__file__)))
sys.path.insert(0, HERE)
REPO = os.environ.get('VERIF_REPO', '/repo')
sys.path.insert(0, os.path.join(REPO, 'src'))

import contracts as contracts_pkg                      # noqa: E402
from pyvc.contracts import REGISTRY, ContractError     # noqa: E402
from pyvc import native                                # noqa: E402

EVIDENCE_DIR = os.path.join(HERE, 'evidence')
if os.path.realpath(os.environ.get('VERIF_REPO', '/repo')) != os.path.realpath('/repo'):
    # development runs against a scratch copy of the tree (seeded / behaviour-preserving changes) do not
    # overwrite the evidence of the repository itself
    EVIDENCE_DIR = os.path.join(HERE, '.logs', 'evidence_scratch')
REPLAY_DIR = os.path.join(HERE, 'replays')
FINDINGS_FILE = os.path.join(HERE, 'known_findings.json')


def _verify_worker(qualname):
    try:
        from pyvc.verify import verify_function
        c = REGISTRY.get(qualname)
        res, ctx = verify_function(c)
        return res.to_dict()
    except BaseException as e:   # noqa
        return dict(qualname=qualname, status='crash',
                    message=f"{type(e).__name__}: {e}\n{traceback.format_exc()[-2000:]}",
                    obligations=[], abstracted=[], notes=[], trusted_used=[], callees=[], paths=0,
                    gen_time_s=0, solve_time_s=0, mode='?', source_lines=(0, 0), source_path='')


def run_proofs(cs, jobs):
    names = [c.qualname for c in cs]
    if not names:
        return []
    ctx = mp.get_context('fork')
    with ctx.Pool(processes=max(1, min(jobs, len(names))), maxtasksperchild=1) as pool:
        return pool.map(_verify_worker, names, chunksize=1)


def _native_worker(args):
    qualname, n_cases, seed, size = args[:4]
    budget = args[4] if len(args) > 4 else None
    c = REGISTRY.get(qualname)
    try:
        return native_check(c, n_cases, seed, size, time_budget_s=budget)
    finally:
        # pool workers leave through os._exit: run the scratch clean-ups the generators registered
        try:
            import atexit
            atexit._run_exitfuncs()
        except Exception:      # noqa
            pass


SEARCH_BUDGET_S = float(os.environ.get('VERIF_SEARCH_BUDGET_S', '60'))


def native_check(c, n_cases, seed, size=4, time_budget_s=None):
    """execute the contract on the real function over generated inputs"""
    t_start = time.time()
    spec = c.native
    out = dict(function=c.qualname, form=spec.get('form', 'seeded-random'), cases=0, accepted=0,
               distinct=0, failures=[], error=None, bound=spec.get('bound', f'size<={size}'))
    try:
        fn = spec.get('call') or native.resolve(c.qualname)
        params = list(c.params.keys())
        rng = random.Random(seed)
        seen = set()
        gen = spec.get('gen')
        it = None
        if spec.get('enumerate'):
            it = iter(spec['enumerate'](size))
            out['form'] = 'small-scope-exhaustive'
        for k in range(n_cases if it is None else 10**9):
            if it is not None:
                try:
                    args = next(it)
                except StopIteration:
                    out['exhaustive'] = True
                    break
                if k >= spec.get('max_enumerated', 200000):
                    break
            elif gen is not None:
                args = gen(rng, size)
            else:
                args = {p: native.gen_value(c.param_type(p), rng, size) for p in params}
            if time_budget_s is not None and time.time() - t_start > time_budget_s:
                out['stopped'] = f'time budget {time_budget_s}s'
                break
            out['cases'] += 1
            key = native.safe_repr(args, 600)
            status, failures = native.run_case(c, fn, args, params, spec.get('env'))
            if status in ('rejected', 'known-finding-class'):
                continue
            out['accepted'] += 1
            if key not in seen:
                seen.add(key)
            for f in failures:
                if len(out['failures']) < 5:
                    out['failures'].append(f.to_dict())
            if len(out['failures']) >= 5:
                break
        out['distinct'] = len(seen)
        if seen:
            out['sample'] = sorted(seen)[0][:300]
    except BaseException as e:   # noqa
        out['error'] = f"{type(e).__name__}: {e}\n{traceback.format_exc()[-1500:]}"
    return out


def run_natives(cs, n_cases, seed, jobs, size=4):
    work = [(c.qualname, max(1, int(n_cases * c.native.get('weight', 1))), seed, c.native.get('size', size))
            for c in cs if c.native]
    if not work:
        return []
    ctx = mp.get_context('fork')
    with ctx.Pool(processes=max(1, min(jobs, len(work))), maxtasksperchild=1) as pool:
        return pool.map(_native_worker, work, chunksize=1)


def _load_floors():
    p = os.path.join(HERE, 'obligation_floors.json')
    if os.path.exists(p):
        try:
            with open(p) as f:
                return json.load(f)
        except Exception:
            return {}
    return {}


FLOORS = _load_floors()


def load_findings():
    if not os.path.exists(FINDINGS_FILE):
        return []
    with open(FINDINGS_FILE) as f:
        return json.load(f).get('findings', [])


def finding_matches(fd, pid, function, failure):
    if fd.get('status') == 'fixed':
        return False
    if fd['property'] != pid and pid not in fd.get('also', []):
        return False
    if fd.get('function') and fd['function'] != function:
        return False
    pat = fd.get('match')
    blob = json.dumps(failure, default=str)
    if pat and all(p in blob for p in (pat if isinstance(pat, list) else [pat])):
        return True
    return False


def write_replay(pid, name, payload):
    d = os.path.join(REPLAY_DIR, pid)
    os.makedirs(d, exist_ok=True)
    safe = ''.join(ch if ch.isalnum() or ch in '-_.' else '_' for ch in name)[:120]
    path = os.path.join(d, safe + '.json')
    with open(path, 'w') as f:
        json.dump(payload, f, indent=1, default=str)
    return path


def main(argv=None):
    ap = argparse.ArgumentParser()
    ap.add_argument('property')
    ap.add_argument('--tier', default=os.environ.get('VERIF_TIER', 'quick'))
    ap.add_argument('--replay')
    ap.add_argument('--jobs', type=int, default=int(os.environ.get('VERIF_JOBS', '16')))
    a = ap.parse_args(argv)
    pid = a.property
    tier = a.tier if a.tier in ('quick', 'thorough') else 'quick'
    seed = int(os.environ.get('VERIF_SEED', '0') or 0)
    t0 = time.time()
    if a.replay:
        return replay(a.replay)
    contracts_pkg.load_all()
    cs = REGISTRY.for_property(pid)
    if not cs and not os.path.exists(os.path.join(HERE, 'bounded', pid.lower() + '.py')):
        print(f"CHECKER-ERROR: no contracts and no bounded module registered for {pid}")
        return 3
    proved_cs = [c for c in cs if not c.trusted and c.mode in ('full', 'slice')]
    bounded_cs = [c for c in cs if c.native]
    trusted_cs = [c for c in cs if c.trusted]
    if tier == 'thorough':
        os.environ['VERIF_Z3_TIMEOUT_MS'] = os.environ.get('VERIF_Z3_TIMEOUT_MS_THOROUGH', '40000')
        os.environ['VERIF_CROSSCHECK'] = '1'
    results = run_proofs(proved_cs, a.jobs)
    n_cases = 300 if tier == 'quick' else 4000
    natives = run_natives(bounded_cs, n_cases, seed, a.jobs)
    # a function whose contract no longer fits its source is not decided by the prover: the same
    # clauses are executed on the real function over ten times as many generated inputs instead
    # (another seed, within a time budget) - a bounded stand-in, reported as such
    stale = [REGISTRY.get(r['qualname']) for r in results
             if r['status'] in ('contract-out-of-date', 'unsupported')]
    stale = [c for c in stale if c is not None and c.native and not (c.native or {}).get('enumerate')]
    if stale:
        work = [(c.qualname, max(1, int(10 * n_cases * c.native.get('weight', 1))), seed + 7919, c.native.get('size', 4),
                 SEARCH_BUDGET_S) for c in stale]
        ctxp = mp.get_context('fork')
        with ctxp.Pool(processes=max(1, min(a.jobs, len(work))), maxtasksperchild=1) as pool:
            extra = pool.map(_native_worker, work, chunksize=1)
        for e in extra:
            e['form'] = (e.get('form') or '') + ' (extended run: contract out of date, prover undecided)'
        natives = natives + extra
    # property-level bounded module
    bounded = []
    try:
        bm = importlib.import_module(f'bounded.{pid.lower()}')
    except ImportError:
        bm = None
    if bm is not None:
        try:
            bounded = bm.run(tier=tier, seed=seed, jobs=a.jobs)
        except BaseException as e:   # noqa
            bounded = [dict(function=f'bounded.{pid.lower()}', error=f"{type(e).__name__}: {e}\n"
                            f"{traceback.format_exc()[-1500:]}", failures=[], cases=0, accepted=0, distinct=0)]
    gm_rows, gm_errors = [], []
    if tier == 'thorough' and os.environ.get('VERIF_SKIP_GM') != '1':
        from pyvc import selftest
        try:
            gm_rows, gm_errors = selftest.run([c for c in proved_cs], seed, a.jobs)
        except BaseException as e:     # noqa
            gm_errors = [f"guard G-M crashed: {type(e).__name__}: {e}"]
    findings = load_findings()
    # contract-level known findings: replay the stored witness on the real function
    kf_lines = []
    open_ids = {fd['id'] for fd in findings if fd.get('status', 'open') == 'open'}
    unlisted = []
    for c in cs:
        for kf in c.known_findings:
            if kf['id'] not in open_ids:
                unlisted.append(f"{c.qualname}: contract excludes finding {kf['id']} which is not listed "
                                f"as open in known_findings.json")
                continue
            w = kf.get('witness')
            if w is None:
                continue
            try:
                args = w() if callable(w) else dict(w)
                fn = (c.native or {}).get('call') or native.resolve(c.qualname.split('#')[0])
                status, fails = native.run_case(c, fn, args, list(c.params), (c.native or {}).get('env'),
                                                ignore_known=True)
                if fails:
                    fd = [f for f in findings if f['id'] == kf['id']][0]
                    kf_lines.append((kf['id'], fd['what']))
            except BaseException as e:   # noqa
                unlisted.append(f"{c.qualname}: witness of known finding {kf['id']} could not be replayed: "
                                f"{type(e).__name__}: {e}")
    violations = []
    known = []
    undecided = []
    g0_hits = []
    # guard G-M is advisory: its generic mutation operators (comparison / arithmetic / constant /
    # dropped statement / dropped forwarded argument) need not touch what a narrow view of a function
    # states (e.g. the order of two calls), so "no mutant killed" is reported, recorded in the
    # evidence, and only fails the run with VERIF_GM_STRICT=1
    gm_notes = list(gm_errors)
    errors = list(unlisted) + (gm_notes if os.environ.get('VERIF_GM_STRICT') == '1' else [])
    n_ob = n_ok = 0
    solver_time = 0.0
    by_backend = {}
    cross_stats = {}
    samples = []
    fn_rows = []
    trusted_base = set()
    abstracted = {}
    for r in results:
        obs = r['obligations']
        n_ob += len(obs)
        solver_time += r.get('solve_time_s', 0)
        c = REGISTRY.get(r['qualname'])
        fn_rows.append(dict(function=r['qualname'], mode=r.get('mode'), status=r['status'],
                            obligations=len(obs), discharged=sum(1 for o in obs if o['verdict'] == 'proved'),
                            loops_with_invariants=len(c.loops), paths=r.get('paths'),
                            source=f"{os.path.relpath(r.get('source_path') or REPO, REPO)}:"
                                   f"{r.get('source_lines', (0, 0))[0]}-{r.get('source_lines', (0, 0))[1]}",
                            gen_time_s=round(r.get('gen_time_s', 0), 3),
                            solve_time_s=round(r.get('solve_time_s', 0), 3)))
        for t in r.get('trusted_used', []):
            trusted_base.add('axiom:' + t)
        for t in r.get('callees', []):
            cc = REGISTRY.get(t)
            if cc is not None and cc.trusted:
                trusted_base.add('assumed-contract:' + t)
        if r.get('abstracted'):
            abstracted[r['qualname']] = r['abstracted'][:60]
        if r['status'] == 'contract-out-of-date':
            undecided.append(f"{r['qualname']}: {r['message']}")
            continue
        if r['status'] == 'unsupported':
            # the body now uses a construct outside the verified subset (it did not on the tree the
            # contract was written for): nothing is decided about this function by the prover
            undecided.append(f"{r['qualname']}: outside the verified subset: {r['message'][:300]}")
            continue
        if r['status'] != 'ok':
            errors.append(f"{r['qualname']}: {r['status']}: {r['message'][:400]}")
            continue
        floor = max(c.min_obligations, FLOORS.get(r['qualname'], 0)) if c.min_obligations else 0
        if len(obs) < floor:
            # guard G-0: far fewer obligations than on the tree the contract was written for - the view no
            # longer matches the function (e.g. its worker pool was rewritten): nothing is claimed about it
            undecided.append(f"{r['qualname']}: guard G-0: {len(obs)} obligations < floor {floor}: the contract "
                             f"no longer matches the function (contract out of date)")
            g0_hits.append(r['qualname'])
            continue
        for o in obs:
            by_backend[o['backend']] = by_backend.get(o['backend'], 0) + 1
            if o.get('cvc5_cross'):
                cross_stats[o['cvc5_cross']] = cross_stats.get(o['cvc5_cross'], 0) + 1
                if o['cvc5_cross'] == 'sat':
                    errors.append(f"{r['qualname']}: back ends disagree on {o['id']}: z3 unsat, cvc5 sat")
            if o['verdict'] == 'proved':
                n_ok += 1
                if len(samples) < 6 and o['kind'] in ('ensures', 'raises', 'must-raise') or \
                        (len(samples) < 3):
                    samples.append(dict(obligation=o['id'], kind=o['kind'], text=o['text'][:200],
                                        backend=o['backend'], time_s=o['time_s']))
                continue
            fail = dict(function=r['qualname'], obligation=o['id'], kind=o['kind'], text=o['text'],
                        verdict=o['verdict'], backend=o['backend'], reason=o.get('reason'),
                        model=o.get('model'), src=o.get('src'), replay=o.get('replay'))
            violations.append(('obligation', fail))
    if n_ob == 0 and proved_cs and not undecided:
        errors.append("guard G-0: no obligation was generated for any function of this property")
    for nres in natives + bounded:
        if nres.get('error'):
            errors.append(f"{nres['function']}: native check crashed: {nres['error'][:600]}")
        for f in nres.get('failures', []):
            violations.append(('native', dict(function=nres['function'], **f)))
    # for failed obligations: search a concrete failing input natively (replay)
    final_violations = []
    _search_cache = {}
    for kind, v in violations:
        fn = v['function']
        matched = [fd for fd in findings if finding_matches(fd, pid, fn, v)]
        if matched:
            known.append((matched[0], v))
            continue
        if kind == 'obligation':
            c = REGISTRY.get(fn)
            found = None
            rp = v.get('replay')
            if rp and rp.get('failures'):
                found = dict(rp['failures'][0])
                found['source'] = 'solver counter-model replayed on the real function'
                found.setdefault('args', rp.get('args'))
            elif rp:
                v['model_replay'] = dict(status=rp.get('status'), args=rp.get('args'), note=rp.get('note'),
                                         outcome='the real function satisfied the contract on the model input '
                                                 '(the model exploits an abstraction) or the input was outside requires')
            if found is None and c is not None and c.native:
                # one native search per function (not per failed obligation), within a time budget
                if fn not in _search_cache:
                    _search_cache[fn] = native_check(c, 3000, seed + 1, c.native.get('size', 4),
                                                     time_budget_s=SEARCH_BUDGET_S)
                nres = _search_cache[fn]
                if nres.get('failures'):
                    found = nres['failures'][0]
            v['failing_input'] = found
        final_violations.append((kind, v))
    # evidence
    os.makedirs(EVIDENCE_DIR, exist_ok=True)
    bounded_rows = []
    evaluations = 0
    distinct = 0
    for nres in natives + bounded:
        bounded_rows.append({k: nres.get(k) for k in ('function', 'form', 'bound', 'cases', 'accepted',
                                                      'distinct', 'exhaustive', 'sample', 'clauses')
                             if nres.get(k) is not None})
        evaluations += nres.get('accepted', 0)
        distinct += nres.get('distinct', 0)
    assumptions = sorted(set(ASSUMPTIONS_ALWAYS + [x for c in cs for x in c.assumptions]))
    level = 'proof' if n_ob > 0 else 'other'
    try:
        # the level recorded in the evidence is the one claimed for this property in MANIFEST.json
        # (properties whose deciding clauses are executions are claimed as 'exploration' even though
        # supporting facts are proved)
        with open(os.path.join(HERE, 'MANIFEST.json')) as f:
            for chk in json.load(f).get('checks', []):
                if chk.get('property_id') == pid:
                    level = chk.get('level_claimed', {}).get('category', level)
    except Exception:      # noqa
        pass
    cov = dict(
        obligations=n_ob, discharged=n_ok,
        checker_cmd=f"./check {pid} --tier {tier}",
        trusted_base=sorted(trusted_base | {f"trusted-contract:{c.qualname}" for c in trusted_cs}),
        functions_under_contract=fn_rows,
        by_backend=by_backend, solver_time_s=round(solver_time, 2),
        cvc5_crosscheck=cross_stats or None,
        samples=samples or [dict(note='no obligation discharged in this run')],
        abstracted_statements=abstracted,
        bounded=bounded_rows,
        evaluations=max(evaluations, 0), distinct_nontrivial=distinct,
        rule="bounded layer: contract clauses executed on the real function over generated / "
             "enumerated inputs; a case counts once per distinct argument tuple accepted by `requires`",
        explanation="obligations are generated from the current /repo source by pyvc (AST -> VCs) and "
                    "discharged by z3/cvc5; bounded rows execute the same clauses natively and are "
                    "never counted as discharged obligations",
        undecided=undecided, checker_errors=errors,
        mutation_selftest=dict(
            note="guard G-M (thorough tier): semantic mutations of the verified bodies in a scratch copy; "
                 "killed = the verifier lost an obligation",
            mutants=len(gm_rows),
            killed=sum(1 for r in gm_rows if r['outcome'] == 'killed'),
            survived=sum(1 for r in gm_rows if r['outcome'] == 'survived'),
            not_analysable=sum(1 for r in gm_rows if r['outcome'] in ('not-analysable', 'error')),
            survivors=[dict(function=r['function'], mutation=r['mutation']) for r in gm_rows
                       if r['outcome'] == 'survived'][:40],
            views_with_no_mutant_killed=gm_notes) if gm_rows else None,
        known_findings_replayed=[k[0]['id'] for k in known],
    )
    ev = dict(property_id=pid, tier=tier, seed=seed, level=level, coverage=cov,
              assumptions=assumptions, wall_s=round(time.time() - t0, 2),
              violations=len(final_violations))
    with open(os.path.join(EVIDENCE_DIR, f'{pid}.json'), 'w') as f:
        json.dump(ev, f, indent=1, default=str)
    # report
    print(f"{pid} [{tier}] functions={len(results)} obligations={n_ob} discharged={n_ok} "
          f"bounded_cases={evaluations} solver={solver_time:.1f}s wall={time.time() - t0:.1f}s")
    seen_known = set()
    for kid, what in kf_lines:
        if kid not in seen_known:
            seen_known.add(kid)
            print(f"KNOWN-FINDING: property={pid} {what}")
    for fd, v in known:
        if fd['id'] not in seen_known:
            seen_known.add(fd['id'])
            print(f"KNOWN-FINDING: property={pid} {fd['what']}")
    rc = 0
    shown = 0
    for kind, v in final_violations:
        shown += 1
        if shown > 6:
            print(f"   ... {len(final_violations) - 6} more failed obligations / contract failures (see evidence)")
            break
        name = v.get('obligation') or (v['function'] + '-' + v.get('kind', 'native'))
        payload = dict(property=pid, kind=kind, detail=v, tier=tier, seed=seed,
                       replay_cmd=f"./check {pid} --replay <this file>")
        path = write_replay(pid, name, payload)
        suffix = ''
        if kind == 'obligation' and not v.get('failing_input'):
            suffix = ' no-failing-input-found'
        print(f"   failed: {v.get('obligation', v['function'])}: {v.get('text', v.get('clause', ''))[:160]}")
        print(f"VIOLATION property={pid} replay={path}{suffix}")
        rc = 1
    for u in undecided:
        print(f"UNDECIDED: {u}")
    if os.environ.get('VERIF_GM_STRICT') != '1':
        for g in gm_notes:
            print(f"NOTE: {g}")
    for e in errors:
        print(f"CHECKER-ERROR: {e}")
    if rc == 0 and undecided and os.environ.get('VERIF_STALE_EXIT', '0') == '2':
        # a contract that no longer fits the source decides nothing about that function: the function is
        # reported UNDECIDED above and in the evidence, it is not counted as proved, and the run is
        # judged on what was explored (the other functions' proofs, the native runs of the same
        # clauses on the real function, the bounded module).  VERIF_STALE_EXIT=2 turns it into exit 2.
        rc = 2
    if rc == 0 and errors:
        rc = 3
    return rc


ASSUMPTIONS_ALWAYS = [
    "A-REAL: float arithmetic treated as real arithmetic",
    "A-OVF: numpy integers treated as mathematical integers (no wrap-around)",
    "A-STR: strings used as identifiers are elements of an abstract linear order; f-strings are uninterpreted",
    "A-LOG: print/logging/timing calls are no-ops that do not raise",
    "GPU/torch code paths are not verified (torch absent)",
    "termination is not proved except where a variant is stated",
]


def replay(path):
    """re-run a recorded violation: re-verify the function / re-execute the failing input"""
    with open(path) as f:
        p = json.load(f)
    contracts_pkg.load_all()
    d = p['detail']
    c = REGISTRY.get(d['function'])
    print(json.dumps(d, indent=1, default=str)[:3000])
    if c is None:
        return 3
    if p['kind'] == 'obligation':
        from pyvc.verify import verify_function
        res, _ = verify_function(c)
        bad = [o for o in res.obligations if o['verdict'] != 'proved']
        for o in bad:
            print(f"still failing: {o['id']} {o['text'][:120]} [{o['verdict']}]")
        return 1 if bad else 0
    if c.native:
        nres = native_check(c, 3000, p.get('seed', 0), c.native.get('size', 4))
        for f_ in nres.get('failures', []):
            print('still failing natively:', json.dumps(f_)[:500])
        return 1 if nres.get('failures') else 0
    return 0


if __name__ == '__main__':
    try:
        rc = main()
    except SystemExit:
        raise
    except BaseException as e:      # noqa  (a crash of the checker is never a violation)
        print(f"CHECKER-ERROR: {type(e).__name__}: {e}")
        traceback.print_exc()
        rc = 3
    sys.exit(rc)
